#!/bin/bash
# build.sh — rebuild everything the checks need from /repo's working tree:
#   translator -> coq/Gen/*.v ; full .vo build (make -k) ; extraction ; OCaml runner.
# Safe to call concurrently (flock); incremental (make decides what is stale).
set -u
cd "$(dirname "$0")"
mkdir -p build bin ocaml/gen
exec 9>build/.lock
flock 9
REPO=${LCM_REPO:-/repo}
python3 translator/py2coq.py "$REPO/src/lcm" coq/Gen > build/translator.log 2>&1
echo "translator_status=$?" >> build/translator.log
python3 translator/py2coq_arr.py "$REPO/src/lcm" coq/Gen >> build/translator.log 2>&1
echo "translator_arr_status=$?" >> build/translator.log
python3 translator/py2coq_loop.py "$REPO/src/lcm" coq/Gen >> build/translator.log 2>&1
echo "translator_loop_status=$?" >> build/translator.log
python3 translator/py2coq_entry.py "$REPO/src/lcm" coq/Gen >> build/translator.log 2>&1
echo "translator_entry_status=$?" >> build/translator.log
python3 translator/py2coq_uf.py "$REPO/src/lcm" coq/Gen >> build/translator.log 2>&1
echo "translator_uf_status=$?" >> build/translator.log
python3 translator/py2coq_sim.py "$REPO/src/lcm" coq/Gen >> build/translator.log 2>&1
echo "translator_sim_status=$?" >> build/translator.log
python3 translator/py2coq_rc.py "$REPO/src/lcm" coq/Gen >> build/translator.log 2>&1
echo "translator_rc_status=$?" >> build/translator.log
python3 translator/py2coq_axes.py "$REPO/src/lcm" coq/Gen >> build/translator.log 2>&1
echo "translator_axes_status=$?" >> build/translator.log
python3 translator/py2coq_tmpl.py "$REPO/src/lcm" coq/Gen >> build/translator.log 2>&1
echo "translator_tmpl_status=$?" >> build/translator.log
python3 translator/py2coq_space.py "$REPO/src/lcm" coq/Gen >> build/translator.log 2>&1
echo "translator_space_status=$?" >> build/translator.log
python3 translator/py2coq_weight.py "$REPO/src/lcm" coq/Gen >> build/translator.log 2>&1
echo "translator_weight_status=$?" >> build/translator.log
python3 translator/py2coq_disp.py "$REPO/src/lcm" coq/Gen >> build/translator.log 2>&1
echo "translator_disp_status=$?" >> build/translator.log
python3 translator/py2coq_fun.py "$REPO/src/lcm" coq/Gen >> build/translator.log 2>&1
echo "translator_fun_status=$?" >> build/translator.log
python3 translator/py2coq_simk.py "$REPO/src/lcm" coq/Gen >> build/translator.log 2>&1
echo "translator_simk_status=$?" >> build/translator.log
python3 translator/py2coq_seg.py "$REPO/src/lcm" coq/Gen >> build/translator.log 2>&1
echo "translator_seg_status=$?" >> build/translator.log
python3 translator/py2coq_ccv.py "$REPO/src/lcm" coq/Gen >> build/translator.log 2>&1
echo "translator_ccv_status=$?" >> build/translator.log
python3 translator/py2coq_panel.py "$REPO/src/lcm" coq/Gen >> build/translator.log 2>&1
echo "translator_panel_status=$?" >> build/translator.log
python3 translator/py2coq_idx.py "$REPO/src/lcm" coq/Gen >> build/translator.log 2>&1
echo "translator_idx_status=$?" >> build/translator.log
python3 translator/py2coq_datascs.py "$REPO/src/lcm" coq/Gen >> build/translator.log 2>&1
echo "translator_datascs_status=$?" >> build/translator.log
python3 translator/py2coq_fmask.py "$REPO/src/lcm" coq/Gen >> build/translator.log 2>&1
echo "translator_fmask_status=$?" >> build/translator.log
python3 translator/py2coq_vinfo.py "$REPO/src/lcm" coq/Gen >> build/translator.log 2>&1
echo "translator_vinfo_status=$?" >> build/translator.log
cd coq
if [ ! -f Makefile ] || [ _CoqProject -nt Makefile ]; then
  coq_makefile -f _CoqProject -o Makefile > ../build/coq_makefile.log 2>&1
fi
timeout 3000 make -k -j16 > ../build/make.log 2>&1
echo "make_status=$?" >> ../build/make.log
timeout 600 make runner > ../build/runner.log 2>&1
echo "runner_status=$?" >> ../build/runner.log
timeout 600 make runner_scs > ../build/scs_runner.log 2>&1
echo "scs_runner_status=$?" >> ../build/scs_runner.log
timeout 600 make runner_fmask > ../build/fmask_runner.log 2>&1
echo "fmask_runner_status=$?" >> ../build/fmask_runner.log
timeout 600 make runner_vinfo > ../build/vinfo_runner.log 2>&1
echo "vinfo_runner_status=$?" >> ../build/vinfo_runner.log
exit 0

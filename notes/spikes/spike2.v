From Coq Require Import Reals Lra List.
Import ListNotations.
Open Scope R_scope.

Fixpoint sumR (l : list R) : R := match l with [] => 0 | x :: r => x + sumR r end.
Fixpoint maxR (d : R) (l : list R) : R := match l with [] => d | x :: r => Rmax x (maxR d r) end.

Definition lse (l : list R) : R := ln (sumR (map exp l)).
Definition lse_stable (l : list R) : R :=
  match l with [] => 0 | x :: r => let m := maxR x r in m + ln (sumR (map (fun v => exp (v - m)) l)) end.

Lemma sum_exp_pos l : l <> [] -> 0 < sumR (map exp l).
Proof.
  destruct l as [|x r]; [congruence|]. intros _. revert x.
  induction r as [|y r IH]; intros x; simpl.
  - pose proof (exp_pos x). lra.
  - pose proof (exp_pos x). specialize (IH y). simpl in IH. lra.
Qed.

Lemma sum_shift m l : sumR (map (fun v => exp (v - m)) l) = exp (- m) * sumR (map exp l).
Proof.
  induction l as [|x r IH]; simpl; [lra|]. rewrite IH.
  unfold Rminus. rewrite exp_plus. lra.
Qed.

Lemma lse_stable_eq l : l <> [] -> lse_stable l = lse l.
Proof.
  intros Hl. destruct l as [|x r]; [congruence|].
  unfold lse_stable, lse. set (m := maxR x r).
  rewrite sum_shift. rewrite ln_mult.
  - rewrite ln_exp. lra.
  - apply exp_pos.
  - apply sum_exp_pos. congruence.
Qed.
Print Assumptions lse_stable_eq.

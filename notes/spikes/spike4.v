From Coq Require Import List Arith Lia.
Import ListNotations.
Set Implicit Arguments.

Section Arr.
Variable A : Type.
Variable d : A.

Record arr := { shape : list nat; data : list A }.

Fixpoint size (sh : list nat) : nat := match sh with [] => 1 | n :: r => n * size r end.

(* row-major enumeration of all index tuples *)
Fixpoint indices (sh : list nat) : list (list nat) :=
  match sh with
  | [] => [[]]
  | n :: r => flat_map (fun i => map (cons i) (indices r)) (seq 0 n)
  end.

Fixpoint ravel (sh idx : list nat) : nat :=
  match sh, idx with
  | n :: r, i :: js => i * size r + ravel r js
  | _, _ => 0
  end.

Fixpoint in_bounds (sh idx : list nat) : Prop :=
  match sh, idx with
  | [], [] => True
  | n :: r, i :: js => i < n /\ in_bounds r js
  | _, _ => False
  end.

Definition tabulate (sh : list nat) (f : list nat -> A) : arr :=
  {| shape := sh; data := map f (indices sh) |}.
Definition get (a : arr) (idx : list nat) : A := nth (ravel (shape a) idx) (data a) d.

Lemma length_indices sh : length (indices sh) = size sh.
Proof.
  induction sh as [|n r IH]; simpl; [reflexivity|].
  assert (H: forall k s, length (flat_map (fun i => map (cons i) (indices r)) (seq s k)) = k * size r).
  { induction k as [|k IHk]; intros s; simpl; [reflexivity|].
    rewrite app_length, map_length, IH, IHk. reflexivity. }
  apply H.
Qed.

Lemma nth_flat_map_const (B : Type) (db : B) (g : nat -> list B) (m : nat) :
  forall k s i j, (forall x, length (g x) = m) -> i < k -> j < m ->
  nth (i * m + j) (flat_map g (seq s k)) db = nth j (g (s + i)) db.
Proof.
  induction k as [|k IH]; intros s i j Hlen Hi Hj; [lia|].
  simpl. destruct i as [|i].
  - rewrite app_nth1 by (rewrite Hlen; lia). simpl. now rewrite Nat.add_0_r.
  - rewrite app_nth2 by (rewrite Hlen; simpl; lia).
    rewrite Hlen. replace (S i * m + j - m) with (i * m + j) by (simpl; lia).
    rewrite IH by (auto; lia). f_equal. f_equal. lia.
Qed.

Lemma ravel_lt sh : forall idx, in_bounds sh idx -> ravel sh idx < size sh.
Proof.
  induction sh as [|n r IH]; intros [|i js] H; simpl in *; try tauto; try lia.
  destruct H as [Hi Hjs]. specialize (IH _ Hjs). nia.
Qed.

Lemma nth_indices sh : forall idx, in_bounds sh idx -> nth (ravel sh idx) (indices sh) [] = idx.
Proof.
  induction sh as [|n r IH]; intros [|i js] H; simpl in *; try tauto.
  destruct H as [Hi Hjs].
  rewrite (@nth_flat_map_const _ [] (fun i => map (cons i) (indices r)) (size r)); auto.
  - simpl. pose proof (ravel_lt _ _ Hjs) as Hlt.
    rewrite <- (length_indices r) in Hlt.
    rewrite (nth_indep _ [] (i :: [])) by (rewrite map_length; exact Hlt).
    change (i :: []) with ((cons i) []). rewrite map_nth. now rewrite IH.
  - intros x. now rewrite map_length, length_indices.
  - now apply ravel_lt.
Qed.

Theorem get_tabulate sh f idx : in_bounds sh idx -> get (tabulate sh f) idx = f idx.
Proof.
  intros H. unfold get, tabulate; simpl.
  pose proof (ravel_lt _ _ H) as Hlt. rewrite <- length_indices in Hlt.
  rewrite (nth_indep _ d (f [])) by (now rewrite map_length).
  rewrite map_nth. now rewrite nth_indices.
Qed.
End Arr.
Print Assumptions get_tabulate.

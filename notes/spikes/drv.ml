open Spike3
let rec pos_of_int n = if n = 1 then XH else if n land 1 = 0 then XO (pos_of_int (n/2)) else XI (pos_of_int (n/2))
let z_of_int n = if n = 0 then Z0 else if n > 0 then Zpos (pos_of_int n) else Zneg (pos_of_int (-n))
let rec int_of_pos = function XH -> 1 | XO p -> 2 * int_of_pos p | XI p -> 2 * int_of_pos p + 1
let int_of_z = function Z0 -> 0 | Zpos p -> int_of_pos p | Zneg p -> - (int_of_pos p)
let () =
  let l = List.init 1000 (fun i -> { qnum = z_of_int (i - 500); qden = pos_of_int 3 }) in
  let r = test l in
  Printf.printf "%d/%d\n" (int_of_z r.qnum) (int_of_pos r.qden)

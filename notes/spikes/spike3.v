From Coq Require Import QArith List Extraction ExtrOcamlBasic.
Import ListNotations.
Open Scope Q_scope.
Fixpoint lmax (d : Q) (l : list Q) : Q := match l with [] => d | x :: r => let m := lmax d r in if Qle_bool m x then x else m end.
Definition test (l : list Q) : Q := Qred (lmax 0 (map (fun x => x * x + (1#2)) l)).
Extraction "spike3.ml" test.

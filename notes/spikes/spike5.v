From Coq Require Import List Arith Lia QArith.
Import ListNotations.
Require Import spike4.
Set Implicit Arguments.

(* values are arrays of Q; default 0 *)
Notation qarr := (arr Q).
Definition g := @get Q 0%Q.
Definition tab := @tabulate Q.

Definition slice (a : qarr) (i : nat) : qarr := tab (tl (shape a)) (fun idx => g a (i :: idx)).

Fixpoint upd (l : list qarr) (pos : nat) (v : qarr) : list qarr :=
  match l, pos with
  | [], _ => []
  | _ :: r, O => v :: r
  | x :: r, S p => x :: upd r p v
  end.

Definition dflt : qarr := {| shape := []; data := [0%Q] |}.

(* vmap over the leading axis of argument [pos]; output shape taken from element 0 *)
Definition vmap (f : list qarr -> qarr) (pos : nat) (args : list qarr) : qarr :=
  let a := nth pos args dflt in
  let n := hd 0%nat (shape a) in
  let sh := shape (f (upd args pos (slice a 0))) in
  tab (n :: sh) (fun idx => match idx with
                            | i :: r => g (f (upd args pos (slice a i))) r
                            | [] => 0%Q end).

(* _base_productmap: fold vmap over the REVERSED positions *)
Definition base_productmap (f : list qarr -> qarr) (positions : list nat) : list qarr -> qarr :=
  fold_left (fun acc pos => vmap acc pos) (rev positions) f.

(* shape-uniformity of f: output shape does not depend on the slices chosen *)
Definition uniform_in (f : list qarr -> qarr) (pos : nat) (args : list qarr) : Prop :=
  forall i j, shape (f (upd args pos (slice (nth pos args dflt) i))) =
              shape (f (upd args pos (slice (nth pos args dflt) j))).

Lemma vmap_get f pos args i r :
  uniform_in f pos args ->
  (i < hd 0 (shape (nth pos args dflt)))%nat ->
  in_bounds (shape (f (upd args pos (slice (nth pos args dflt) i)))) r ->
  g (vmap f pos args) (i :: r) = g (f (upd args pos (slice (nth pos args dflt) i))) r.
Proof.
  intros Hu Hi Hr. unfold vmap, g, tab. rewrite get_tabulate; [reflexivity|].
  simpl. split; [exact Hi|]. rewrite (Hu 0%nat i). exact Hr.
Qed.

Lemma base_productmap_cons f p ps args :
  base_productmap f (p :: ps) args = vmap (base_productmap f ps) p args.
Proof.
  unfold base_productmap. simpl. rewrite fold_left_app. reflexivity.
Qed.

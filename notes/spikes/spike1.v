From Coq Require Import QArith Qround Lqa Lia ZArith List.
Import ListNotations.
Open Scope Q_scope.

(* linspace coordinate *)
Definition lin_coord (v a b : Q) (n : nat) : Q :=
  let step := (b - a) / (inject_Z (Z.of_nat n) - 1) in (v - a) / step.
Definition lin_point (a b : Q) (n : nat) (i : nat) : Q :=
  a + inject_Z (Z.of_nat i) * ((b - a) / (inject_Z (Z.of_nat n) - 1)).

Lemma coord_of_point a b n i : a < b -> (2 <= n)%nat ->
  lin_coord (lin_point a b n i) a b n == inject_Z (Z.of_nat i).
Proof.
  intros Hab Hn. unfold lin_coord, lin_point.
  assert (H: 1 < inject_Z (Z.of_nat n)).
  { replace 1 with (inject_Z 1) by reflexivity. rewrite <- Zlt_Qlt. lia. }
  field. split; lra.
Qed.

(* 1-d interpolation with clipping *)
Definition clipZ (lo hi x : Z) : Z := Z.max lo (Z.min hi x).
Definition interp1 (arr : list Q) (c : Q) : Q :=
  let n := Z.of_nat (length arr) in
  let lo := clipZ 0 (n - 2) (Qfloor c) in
  let w := c - inject_Z lo in
  (1 - w) * nth (Z.to_nat lo) arr 0 + w * nth (Z.to_nat (lo + 1)) arr 0.

Eval vm_compute in Qred (interp1 [1; 3; 7] (3#2)).
Eval vm_compute in Qred (interp1 [1; 3; 7] (7#2)).
Eval vm_compute in Qred (interp1 [1; 3; 7] (-1#2)).

Lemma interp1_at_int arr (i : nat) : (2 <= length arr)%nat -> (i < length arr)%nat ->
  interp1 arr (inject_Z (Z.of_nat i)) == nth i arr 0.
Proof.
  intros Hn Hi. unfold interp1. rewrite Qfloor_Z.
  unfold clipZ.
  destruct (Z.eq_dec (Z.of_nat i) (Z.of_nat (length arr) - 1)) as [E|E].
  - replace (Z.max 0 (Z.min (Z.of_nat (length arr) - 2) (Z.of_nat i))) with (Z.of_nat i - 1)%Z by lia.
    replace (Z.to_nat (Z.of_nat i - 1 + 1)) with i by lia.
    rewrite inject_Z_minus. simpl (inject_Z 1). ring.
  - replace (Z.max 0 (Z.min (Z.of_nat (length arr) - 2) (Z.of_nat i))) with (Z.of_nat i) by lia.
    rewrite Nat2Z.id. ring.
Qed.
Print Assumptions interp1_at_int.

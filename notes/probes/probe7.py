import shim, traceback
import jax.numpy as jnp, numpy as np
from dataclasses import make_dataclass
from lcm import DiscreteGrid, LinspaceGrid, Model
from lcm.entry_point import get_lcm_function
import logging; logging.disable(logging.CRITICAL)
def cat(n): return make_dataclass(f"C{n}", [(f"c{i}", int, i) for i in range(n)])
def u(s, c): return 1.0*s + 2.0*c
def ns(s, c): return jnp.clip(s + c, 0, 2)
def filt(s, c): return jnp.logical_and(s != 1, jnp.logical_or(s != 0, c == 0))   # state s=1 has no passing choice
m = Model(n_periods=2, functions={"utility": u, "next_s": ns, "a_filter": filt}, choices={"c": DiscreteGrid(cat(2))}, states={"s": DiscreteGrid(cat(3))})
f, t = get_lcm_function(m, "solve_and_simulate")
p = {"beta": 0.5, "utility": {}, "next_s": {}, "a_filter": {}}
for init in ([0,2,2],[0,1,2],[1,2,0]):
    try:
        print(init); print(f(p, initial_states={"s": jnp.array(init)}).to_string())
    except Exception as e:
        print("EXC", type(e).__name__, str(e)[:200])

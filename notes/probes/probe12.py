import shim
import jax.numpy as jnp, numpy as np
from dataclasses import make_dataclass
from lcm import DiscreteGrid, Model
from lcm.entry_point import get_lcm_function
import logging; logging.disable(logging.CRITICAL)
def cat(n): return make_dataclass(f"C{n}", [(f"c{i}", int, i) for i in range(n)])
m = Model(n_periods=2, functions={"utility": lambda s: 1.0*s, "next_s": lambda s,c: jnp.clip(s+c,0,2)}, choices={"c": DiscreteGrid(cat(2))}, states={"s": DiscreteGrid(cat(3))})
for jit in (True, False):
    f, t = get_lcm_function(m, "solve", jit=jit)
    try:
        print([np.asarray(a) for a in f({"beta": 0.5, "utility": {}, "next_s": {}})])
    except Exception as e: print("CRASH", type(e).__name__, e)

import shim, traceback
import jax.numpy as jnp, numpy as np
from dataclasses import make_dataclass
from lcm import DiscreteGrid, LinspaceGrid, LogspaceGrid, Model
from lcm.entry_point import get_lcm_function
import logging; logging.disable(logging.CRITICAL)
def cat(n):
    return make_dataclass(f"C{n}", [(f"c{i}", int, i) for i in range(n)])

def run(name, m, init, extra=None, targets="solve_and_simulate"):
    print("=====", name)
    try:
        f, t = get_lcm_function(m, targets)
        p = {k: ({} if isinstance(v, dict) else 0.5) for k, v in t.items()}
        if extra: p.update(extra)
        if targets=="solve":
            for a in f(p): print(np.asarray(a))
        else:
            df = f(p, initial_states=init)
            print(df.to_string())
    except Exception as e:
        tb = traceback.format_exc().strip().splitlines()
        print("EXC", type(e).__name__, str(e)[:300]); print("\n".join(tb[-6:]))

# B: sparse choice + dense discrete choice
def utility(s, c, d): return 1.0*s + 2.0*c - 1.0*d*c + 0.5*d
def next_s(s, c, d): return jnp.clip(s + c - d, 0, 2)
def filt(s, c): return jnp.logical_or(s != 0, c == 0)
m = Model(n_periods=2, functions={"utility": utility, "next_s": next_s, "a_filter": filt},
          choices={"c": DiscreteGrid(cat(2)), "d": DiscreteGrid(cat(3))}, states={"s": DiscreteGrid(cat(3))})
run("B sparse+dense discrete choice", m, {"s": jnp.array([0,1,2,2])})

# C1: no choices at all
def u1(s): return 1.0*s
def n1(s): return s
m = Model(n_periods=2, functions={"utility": u1, "next_s": n1}, choices={}, states={"s": DiscreteGrid(cat(3))})
run("C1 no choices", m, {"s": jnp.array([0,1])})
# C2: no states
def u2(c): return 1.0*c
m = Model(n_periods=2, functions={"utility": u2}, choices={"c": DiscreteGrid(cat(3))}, states={})
run("C2 no states (solve)", m, {}, targets="solve")
# C3: only continuous choice and cont state
def u3(w, x): return -(x-1.0)**2 + w
def n3(w, x): return w - x
def cons(w, x): return x <= w
m = Model(n_periods=2, functions={"utility": u3, "next_w": n3, "x_constraint": cons}, choices={"x": LinspaceGrid(start=0, stop=2, n_points=3)}, states={"w": LinspaceGrid(start=0, stop=4, n_points=5)})
run("C3 cont only", m, {"w": jnp.array([0.,1.5,4.0])})
# C4: n_periods = 1
m = Model(n_periods=1, functions={"utility": u3, "next_w": n3, "x_constraint": cons}, choices={"x": LinspaceGrid(start=0, stop=2, n_points=3)}, states={"w": LinspaceGrid(start=0, stop=4, n_points=5)})
run("C4 one period", m, {"w": jnp.array([0.,1.5,4.0])})
# C5: sparse state only filter on state (no sparse choice)
def f5(s, _period): return s >= _period
def u5(s, c): return 1.0*s+c
def n5(s, c): return jnp.clip(s+c,0,2)
m = Model(n_periods=2, functions={"utility": u5, "next_s": n5, "s_filter": f5}, choices={"c": DiscreteGrid(cat(2))}, states={"s": DiscreteGrid(cat(3))})
run("C5 filter on state only", m, {"s": jnp.array([0,1,2])})
# C6: two cont choices unequal sizes + sparse
def u6(s, c, x, y): return 1.0*s + c - (x-1.0)**2 - (y-0.5)**2
def n6(s, c): return jnp.clip(s+c,0,2)
m = Model(n_periods=2, functions={"utility": u6, "next_s": n6, "a_filter": filt}, choices={"c": DiscreteGrid(cat(2)), "x": LinspaceGrid(start=0, stop=2, n_points=3), "y": LinspaceGrid(start=0, stop=1, n_points=5)}, states={"s": DiscreteGrid(cat(3))})
run("C6 two cont choices", m, {"s": jnp.array([0,1,2])})

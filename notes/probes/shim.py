import types, jax
if not hasattr(jax, "util"):
    def safe_zip(*a):
        return list(zip(*a, strict=True))
    def unzip2(xys):
        xs, ys = [], []
        for x, y in xys:
            xs.append(x); ys.append(y)
        return tuple(xs), tuple(ys)
    jax.util = types.SimpleNamespace(safe_zip=safe_zip, unzip2=unzip2)
    import sys; sys.modules["jax.util"] = jax.util
jax.config.update("jax_enable_x64", True)

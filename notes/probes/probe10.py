import shim
import jax.numpy as jnp, numpy as np
from dataclasses import make_dataclass
from lcm import DiscreteGrid, LinspaceGrid, Model
from lcm.entry_point import get_lcm_function
import logging; logging.disable(logging.CRITICAL)
def cat(n): return make_dataclass(f"C{n}", [(f"c{i}", int, i) for i in range(n)])
def u(s, c, w, x): return 1.0*s + 2.0*c - 0.5*s*c + w - (x-1.0)**2
def ns(s, c): return jnp.clip(s + c - 1, 0, 2)
def nw(w, x, c): return w - x + 0.5*c
def cons(w, x): return x <= w
def cc(s, c): return c <= s
def tf(s, c): return s + c >= 0
base = dict(n_periods=3, choices={"c": DiscreteGrid(cat(2)), "x": LinspaceGrid(start=0, stop=2, n_points=3)}, states={"s": DiscreteGrid(cat(3)), "w": LinspaceGrid(start=0, stop=4, n_points=5)})
F = {"utility": u, "next_s": ns, "next_w": nw, "x_constraint": cons}
m1 = Model(functions={**F, "c_constraint": cc}, **base)
m2 = Model(functions={**F, "c_constraint": cc, "true_filter": tf}, **base)
m3 = Model(functions={**F, "c_filter": cc}, **base)
m4 = Model(functions={"next_w": nw, "x_constraint": cons, "c_constraint": cc, "next_s": ns, "utility": u}, n_periods=3, choices={"x": base["choices"]["x"], "c": base["choices"]["c"]}, states={"w": base["states"]["w"], "s": base["states"]["s"]})
sols = []
for m in (m1, m2, m3, m4):
    f, t = get_lcm_function(m, "solve")
    p = {k: ({} if isinstance(v, dict) else 0.5) for k, v in t.items()}
    sols.append([np.asarray(a) for a in f(p)])
for k in range(3):
    print("period", k, [a[k].shape for a in sols], np.allclose(sols[0][k], sols[1][k]), np.allclose(sols[0][k], sols[2][k]), np.allclose(sols[0][k], sols[3][k]))
print(sols[0][0])

import shim
import jax, jax.numpy as jnp, numpy as np
from dataclasses import make_dataclass
import lcm
from lcm import DiscreteGrid, Model
from lcm.entry_point import get_lcm_function
import logging; logging.disable(logging.CRITICAL)
def cat(n): return make_dataclass(f"C{n}", [(f"c{i}", int, i) for i in range(n)])
@lcm.mark.stochastic
def next_h(h, c): pass
@lcm.mark.stochastic
def next_k(k, _period): pass
def u(h, k, c): return 1.0*h + 0.5*c - 0.25*k*c
m = Model(n_periods=3, functions={"utility": u, "next_h": next_h, "next_k": next_k}, choices={"c": DiscreteGrid(cat(2))}, states={"h": DiscreteGrid(cat(3)), "k": DiscreteGrid(cat(2))})
f, t = get_lcm_function(m, "solve_and_simulate")
Ph = np.array([[[.5,.25,.25],[0,.5,.5]],[[.25,.75,0],[1,0,0]],[[0,0,1],[.125,.125,.75]]])  # h, c -> h'
Pk = np.array([[[.5,.5],[.25,.75],[1,0]],[[0,1],[.5,.5],[.75,.25]]])  # k, period -> k'
p = {"beta": 0.5, "utility": {}, "next_h": {}, "next_k": {}, "shocks": {"h": jnp.array(Ph), "k": jnp.array(Pk)}}
n = 8; seed = 7
init = {"h": jnp.array([0,1,2,0,1,2,0,1]), "k": jnp.array([0,0,0,0,1,1,1,1])}
df = f(p, initial_states=init, seed=seed)
# external replay of key discipline
key = jax.random.PRNGKey(seed)
ids = ["next_h", "next_k"]
ok = True
for t_ in range(2):
    keys = jax.random.split(key, num=len(ids)+1); key = keys[0]
    row = df.loc[t_]
    for j, name in enumerate(ids):
        ak = jax.random.split(keys[1+j], n)
        us = np.array([float(jax.random.uniform(ak[i], (), dtype=jnp.float64)) for i in range(n)])
        for i in range(n):
            probs = Ph[int(row.h[i]), int(row.c[i])] if name=="next_h" else Pk[int(row.k[i]), t_]
            cum = np.cumsum(probs); r = cum[-1]*(1-us[i]); lab = int(np.searchsorted(cum, r))
            got = int(df.loc[t_+1][name[5:]][i])
            if lab != got: ok=False; print("MISMATCH", t_, name, i, lab, got)
print("external replay matches:", ok)

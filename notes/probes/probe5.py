import shim
import jax, jax.numpy as jnp, numpy as np
from lcm.argmax import argmax, segment_argmax
rng = np.random.default_rng(0)
def check(dtype, fn, name, n=100, size=64):
    bad = 0; tot=0; zero=0
    @jax.jit
    def g(x, y, z):
        a = fn(x, y, z)
        i, m = argmax(a, axis=1)
        return i, m
    tol = 1e-4 if dtype==jnp.float32 else 1e-10
    for _ in range(n):
        x = jnp.asarray(rng.normal(size=(50,size)), dtype=dtype); y = jnp.asarray(rng.normal(size=(50,size)), dtype=dtype); z = jnp.asarray(rng.normal(size=(50,size)), dtype=dtype)
        i, m = g(x, y, z)
        a = np.asarray(fn(x,y,z)); i = np.asarray(i); m=np.asarray(m)
        true = a.max(axis=-1)
        att = a[np.arange(50), i]
        b = (att < true - tol*np.maximum(1,np.abs(true)))
        bad += int(b.sum()); tot += 50; zero += int((i[b]==0).sum())
    print(name, dtype.__name__, "bad", bad, "/", tot, "of which idx0", zero)
for dt in (jnp.float32, jnp.float64):
    check(dt, lambda x,y,z: x*y+z, "fma")
    check(dt, lambda x,y,z: jnp.log(jnp.abs(x)+1)+0.95*(y*z+x), "logmix")
    check(dt, lambda x,y,z: jnp.exp(x)*y + jnp.sin(z)*0.3, "exp")
    check(dt, lambda x,y,z: jnp.log(jnp.abs(x)+1) - 0.5*y, "log")

import shim, traceback
import jax.numpy as jnp, numpy as np
from dataclasses import make_dataclass
import lcm
from lcm import DiscreteGrid, LinspaceGrid, LogspaceGrid, Model
from lcm.entry_point import get_lcm_function
import logging; logging.disable(logging.CRITICAL)
def cat(n):
    return make_dataclass(f"C{n}", [(f"c{i}", int, i) for i in range(n)])

def run(name, mk, init, extra=None, targets="solve_and_simulate", **kw):
    print("=====", name)
    try:
        m = mk()
        f, t = get_lcm_function(m, targets)
        p = {k: ({kk: 0.5 for kk in v} if isinstance(v, dict) else 0.5) for k, v in t.items()}
        if extra: p.update(extra)
        if targets=="solve":
            for a in f(p): print(np.asarray(a))
        else:
            df = f(p, initial_states=init, **kw)
            print(df.to_string())
    except Exception as e:
        tb = traceback.format_exc().strip().splitlines()
        print("EXC", type(e).__name__, str(e)[:300]); print("\n".join(tb[-8:]))

# D1 auxiliary state (only in next funcs)
def u(s, c): return 1.0*s + c
def ns(s, c, a): return jnp.clip(s + c + a, 0, 2)
def na(a): return 1 - a
run("D1 aux state", lambda: Model(n_periods=3, functions={"utility": u, "next_s": ns, "next_a": na}, choices={"c": DiscreteGrid(cat(2))}, states={"s": DiscreteGrid(cat(3)), "a": DiscreteGrid(cat(2))}), {"s": jnp.array([0,1]), "a": jnp.array([0,1])})
# D2 filter only on choices
def fc(c, d): return c + d <= 1
def u2(s, c, d): return 1.0*s + c + 2.0*d
def ns2(s, c, d): return jnp.clip(s + c - d, 0, 2)
run("D2 filter on choices only", lambda: Model(n_periods=2, functions={"utility": u2, "next_s": ns2, "cd_filter": fc}, choices={"c": DiscreteGrid(cat(2)), "d": DiscreteGrid(cat(2))}, states={"s": DiscreteGrid(cat(3))}), {"s": jnp.array([0,1,2])})
# D3 stochastic depending on choice and period, plus cont state log grid
@lcm.mark.stochastic
def nh(h, c, _period): pass
def u3(h, c, w, x): return jnp.log(x) + 0.5*h - 0.1*c
def nw(w, x, c): return w - x + c
def cons(w, x): return x <= w
P = jnp.array(np.random.default_rng(0).dirichlet(np.ones(2), size=(2,2,3)))  # h, c, period -> 
run("D3 stochastic + log grid", lambda: Model(n_periods=3, functions={"utility": u3, "next_h": nh, "next_w": nw, "x_constraint": cons}, choices={"c": DiscreteGrid(cat(2)), "x": LinspaceGrid(start=1, stop=4, n_points=4)}, states={"h": DiscreteGrid(cat(2)), "w": LogspaceGrid(start=1, stop=16, n_points=5)}), {"h": jnp.array([0,1,1]), "w": jnp.array([1.,3.,16.])}, extra={"shocks": {"h": P}})
# D4 one-category discrete state, n_points=1 cont choice
run("D4 one-cat", lambda: Model(n_periods=2, functions={"utility": lambda s, x: s + x, "next_s": lambda s: s}, choices={"x": LinspaceGrid(start=1, stop=4, n_points=1)}, states={"s": DiscreteGrid(cat(1))}), {"s": jnp.array([0,0])})
# D5 continuous var in filter
def ff(w, c): return jnp.logical_or(c == 0, w >= 1.0)
run("D5 cont state in filter", lambda: Model(n_periods=2, functions={"utility": lambda w, c: w + c, "next_w": lambda w, c: w - c, "wc_filter": ff}, choices={"c": DiscreteGrid(cat(2))}, states={"w": LinspaceGrid(start=0, stop=2, n_points=3)}), {"w": jnp.array([0., 1.0, 2.0])})
# D6 additional targets
def labor(c, wage): return c*wage
run("D6 targets", lambda: Model(n_periods=2, functions={"utility": lambda s, c, labor: s + labor, "labor": labor, "next_s": lambda s, c: jnp.clip(s+c,0,2), "c_constraint": lambda s,c: c<=s}, choices={"c": DiscreteGrid(cat(2))}, states={"s": DiscreteGrid(cat(3))}), {"s": jnp.array([0,1,2])}, additional_targets=["labor","utility","c_constraint","next_s"])
# D7 filter with params
run("D7 filter w/ params", lambda: Model(n_periods=2, functions={"utility": lambda s, c: s + c, "next_s": lambda s, c: s, "a_filter": lambda s, c, k: s + c <= k}, choices={"c": DiscreteGrid(cat(2))}, states={"s": DiscreteGrid(cat(3))}), {"s": jnp.array([0,1,2])})
# D8 stochastic on cont
@lcm.mark.stochastic
def nwst(w): pass
run("D8 stochastic cont", lambda: Model(n_periods=2, functions={"utility": lambda w, c: w + c, "next_w": nwst}, choices={"c": DiscreteGrid(cat(2))}, states={"w": LinspaceGrid(start=0, stop=2, n_points=3)}), {"w": jnp.array([0., 1.0, 2.0])})
# D9 n_periods float / 0
run("D9 n_periods=0", lambda: Model(n_periods=0, functions={"utility": lambda s, c: s + c, "next_s": lambda s, c: s}, choices={"c": DiscreteGrid(cat(2))}, states={"s": DiscreteGrid(cat(3))}), {"s": jnp.array([0,1,2])})
run("D9b n_periods=2.5", lambda: Model(n_periods=2.5, functions={"utility": lambda s, c: s + c, "next_s": lambda s, c: s}, choices={"c": DiscreteGrid(cat(2))}, states={"s": DiscreteGrid(cat(3))}), {"s": jnp.array([0,1,2])})

import shim, traceback
import jax.numpy as jnp, numpy as np
from dataclasses import make_dataclass
import lcm
from lcm import DiscreteGrid, LinspaceGrid, LogspaceGrid, Model
from lcm.entry_point import get_lcm_function
import logging; logging.disable(logging.CRITICAL)
def cat(n): return make_dataclass(f"C{n}", [(f"c{i}", int, i) for i in range(n)])
def run(name, mk, init, extra=None, **kw):
    try:
        m = mk()
    except Exception as e:
        print(f"{name:45s} REJECT@model {type(e).__name__}"); return
    try:
        f, t = get_lcm_function(m, "solve_and_simulate")
    except Exception as e:
        print(f"{name:45s} REJECT@functions {type(e).__name__}: {str(e)[:80]}"); return
    p = {k: ({kk: 0.5 for kk in v} if isinstance(v, dict) else 0.5) for k, v in t.items()}
    if extra: p.update(extra)
    try:
        df = f(p, initial_states=init, **kw)
        bad = bool(np.isnan(df.select_dtypes('number').values.astype(float)).any())
        print(f"{name:45s} OK rows={len(df)} nan={bad}")
    except Exception as e:
        print(f"{name:45s} CRASH@call {type(e).__name__}: {str(e)[:100]}")
D2, D3 = DiscreteGrid(cat(2)), DiscreteGrid(cat(3))
L = lambda a,b,n: LinspaceGrid(start=a, stop=b, n_points=n)
s3 = {"s": jnp.array([0,1,2])}
run("1 const next (lambda: 0)", lambda: Model(n_periods=2, functions={"utility": lambda s,c: s+c, "next_s": lambda: 0}, choices={"c": D2}, states={"s": D3}), s3)
run("1b const next (lambda s: 1)", lambda: Model(n_periods=2, functions={"utility": lambda s,c: s+c, "next_s": lambda s: 1}, choices={"c": D2}, states={"s": D3}), s3)
run("2 utility w/o choice", lambda: Model(n_periods=2, functions={"utility": lambda s: 1.0*s, "next_s": lambda s,c: jnp.clip(s+c,0,2)}, choices={"c": D2}, states={"s": D3}), s3)
@lcm.mark.stochastic
def nh0(): pass
run("3 stochastic w/o deps", lambda: Model(n_periods=2, functions={"utility": lambda h,c: h+c, "next_h": nh0}, choices={"c": D2}, states={"h": D3}), {"h": jnp.array([0,1,2])}, extra={"shocks": {"h": jnp.array([.25,.25,.5])}})
run("4 no states simulate", lambda: Model(n_periods=2, functions={"utility": lambda c: 1.0*c}, choices={"c": D2}, states={}), {})
run("5 state only in constraint", lambda: Model(n_periods=2, functions={"utility": lambda c: 1.0*c, "next_s": lambda s,c: jnp.clip(s+c,0,2), "a_constraint": lambda s,c: c<=s}, choices={"c": D2}, states={"s": D3}), s3)
run("6 aux w/ params in constraint", lambda: Model(n_periods=2, functions={"utility": lambda s,c: s+c, "next_s": lambda s,c: jnp.clip(s+c,0,2), "lim": lambda s, k: s*k, "a_constraint": lambda lim,c: c<=lim+1}, choices={"c": D2}, states={"s": D3}), s3)
run("6b aux w/ params in filter", lambda: Model(n_periods=2, functions={"utility": lambda s,c: s+c, "next_s": lambda s,c: jnp.clip(s+c,0,2), "lim": lambda s, k: s*k, "a_filter": lambda lim,c: c<=lim+1}, choices={"c": D2}, states={"s": D3}), s3)
run("7 two filters", lambda: Model(n_periods=2, functions={"utility": lambda s,q,c: s+c+q, "next_s": lambda s,c: jnp.clip(s+c,0,2), "next_q": lambda q: q, "a_filter": lambda s,c: c<=s, "b_filter": lambda q,c,_period: jnp.logical_or(q==0, c==_period)}, choices={"c": D2}, states={"s": D3, "q": D2}), {"s": jnp.array([0,1,2]), "q": jnp.array([0,1,0])})
run("10 one-point cont state", lambda: Model(n_periods=2, functions={"utility": lambda w,c: w+c, "next_w": lambda w: w}, choices={"c": D2}, states={"w": L(1,2,1)}), {"w": jnp.array([1.0, 1.0])})
run("12 log choice + log state", lambda: Model(n_periods=2, functions={"utility": lambda w,x: jnp.log(x)+w, "next_w": lambda w,x: jnp.clip(w - x + 1.0, 1.0, 16.0), "x_constraint": lambda w,x: x<=w}, choices={"x": LogspaceGrid(start=1, stop=8, n_points=4)}, states={"w": LogspaceGrid(start=1, stop=16, n_points=5)}), {"w": jnp.array([1.0, 3.0, 16.0])})
@lcm.mark.stochastic
def nh1(h): pass
run("13 stochastic sparse state", lambda: Model(n_periods=3, functions={"utility": lambda h,c: h+c, "next_h": nh1, "a_filter": lambda h,c: c<=h}, choices={"c": D2}, states={"h": D3}), {"h": jnp.array([0,1,2])}, extra={"shocks": {"h": jnp.array([[.5,.25,.25],[0,.5,.5],[.25,0,.75]])}})
run("14 period in utility+constraint", lambda: Model(n_periods=3, functions={"utility": lambda s,c,_period: s+c*_period, "next_s": lambda s,c: jnp.clip(s+c,0,2), "a_constraint": lambda c,_period: c<=_period}, choices={"c": D2}, states={"s": D3}), s3)
run("15 target = stochastic next", lambda: Model(n_periods=2, functions={"utility": lambda h,c: h+c, "next_h": nh1}, choices={"c": D2}, states={"h": D3}), {"h": jnp.array([0,1,2])}, extra={"shocks": {"h": jnp.array([[.5,.25,.25],[0,.5,.5],[.25,0,.75]])}}, additional_targets=["next_h"])
run("16 one agent", lambda: Model(n_periods=2, functions={"utility": lambda s,c: s+c, "next_s": lambda s,c: jnp.clip(s+c,0,2)}, choices={"c": D2}, states={"s": D3}), {"s": jnp.array([1])})
run("17 python-float initial cont state", lambda: Model(n_periods=2, functions={"utility": lambda w,c: w+c, "next_w": lambda w,c: w-c}, choices={"c": D2}, states={"w": L(0,2,3)}), {"w": np.array([0.5, 1.0])})
run("18 list initial states", lambda: Model(n_periods=2, functions={"utility": lambda s,c: s+c, "next_s": lambda s,c: jnp.clip(s+c,0,2)}, choices={"c": D2}, states={"s": D3}), {"s": [0,1]})
run("19 name contains next_", lambda: Model(n_periods=2, functions={"utility": lambda annext_s,c: annext_s+c, "next_annext_s": lambda annext_s,c: jnp.clip(annext_s+c,0,2)}, choices={"c": D2}, states={"annext_s": D3}), {"annext_s": jnp.array([0,1])})
run("20 function named beta", lambda: Model(n_periods=2, functions={"utility": lambda s,c,beta: s+c+beta, "beta": lambda s: 2.0*s, "next_s": lambda s,c: jnp.clip(s+c,0,2)}, choices={"c": D2}, states={"s": D3}), s3)
run("21 cont choice only, discrete state", lambda: Model(n_periods=2, functions={"utility": lambda s,x: s-(x-1.0)**2, "next_s": lambda s: s}, choices={"x": L(0,2,3)}, states={"s": D3}), s3)
run("22 two cont states + 2 cont choices", lambda: Model(n_periods=2, functions={"utility": lambda a,b,x,y: a+b-(x-1.0)**2-(y-.5)**2, "next_a": lambda a,x: a-x, "next_b": lambda b,y: b+y}, choices={"x": L(0,2,3), "y": L(0,1,5)}, states={"a": L(0,4,5), "b": L(0,2,3)}), {"a": jnp.array([0.,1.5]), "b": jnp.array([0.25,2.])})

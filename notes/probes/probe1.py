import shim, traceback
import jax.numpy as jnp, numpy as np
from dataclasses import make_dataclass
from lcm import DiscreteGrid, LinspaceGrid, LogspaceGrid, Model
from lcm.entry_point import get_lcm_function
import logging; logging.disable(logging.CRITICAL)

def cat(n):
    return make_dataclass(f"C{n}", [(f"c{i}", int, i) for i in range(n)])

# A: period dependent filter
def utility(s, c):
    return 1.0*s + 2.0*c
def next_s(s, c):
    return jnp.clip(s + c, 1, 2)
def per_filter(s, c, _period):
    return jnp.logical_or(s != 0, _period == 0)
m = Model(n_periods=2, functions={"utility": utility, "next_s": next_s, "per_filter": per_filter},
          choices={"c": DiscreteGrid(cat(2))}, states={"s": DiscreteGrid(cat(3))})
f, t = get_lcm_function(m, "solve", jit=False)
print(t)
p = {"beta": 1.0, "utility": {}, "next_s": {}, "per_filter": {}}
try:
    sol = f(p)
    for a in sol: print(np.asarray(a))
except Exception: traceback.print_exc()
# expected: V1(s) for s in {1,2}: max_c s+2c = s+2 -> [3,4]; V0(s): max_c s+2c + V1(clip(s+c,1,2)):
# s=0: c=0 -> 0+V1(1)=3 ; c=1 -> 2+V1(1)=5 -> 5
# s=1: c=0 -> 1+V1(1)=4 ; c=1 -> 3+V1(2)=7 -> 7
# s=2: c=0-> 2+V1(2)=6; c=1 -> 4+V1(2)=8 -> 8

#!/usr/bin/env python3
"""Fail-closed Python-ast -> Gallina translator for the glue of lcm/entry_point.py:get_lcm_function.

Emits Gen/EntryPoint.v: the construction of the per-period lists that are handed to
`solve_brute.solve` and to `simulate` —
  * every `for period in range(_mod.n_periods)` loop becomes a `fold_left` over `seq 0 n_periods`
    whose state is the tuple of the lists appended to in that loop;
  * `xs.append(v)` is `xs ++ [v]`, `xs[period]` is `nth period xs d_xs`, `xs = xs[1:] + [{}]` is
    `tl xs ++ [empty_xs]`, `[g] * _mod.n_periods` is `repeat g n_periods`,
    `period == last_period` is `Nat.eqb`;
  * the functions that build the components (create_state_choice_space,
    get_utility_and_feasibility_function, ...) become Section variables taking the NON-constant
    keyword arguments in the order written; keyword arguments that are literals or expressions of the
    processed model only (`model=_mod`, `jit_filter=False`, `_mod.variable_info`, ...) are recorded as
    text in `<function>_fixed_args` (the processed model is the same object in every call);
  * `partial(solve, ...)` / `partial(simulate, ...)` must pass the lists through under their own names;
    the lists passed are returned as `solve_inputs` / `simulate_inputs`.
Statements that do not touch the lists (argument check, logging, jit wrapping, selection of the
target) are accepted only if they are textually what they were when this translator was written.
Anything else raises TranslationError naming the construct."""
from __future__ import annotations

import ast
import sys
from pathlib import Path

sys.path.insert(0, str(Path(__file__).resolve().parent))
from py2coq import TranslationError, fail, is_docstring, find_func  # noqa: E402

MODEL = "_mod"
N = "n_periods"

# statements without influence on the lists: accepted verbatim only
VERBATIM = {
    "if targets not in {'solve', 'simulate', 'solve_and_simulate'}:\n    raise NotImplementedError",
    "_mod = process_model(model)",
    "logger = get_logger(debug_mode)",
    "_subset = _mod.variable_info.query('is_continuous & is_choice').index.tolist()",
    "_choice_grids = {k: _mod.grids[k] for k in _subset}",
    "solve_model = jax.jit(_solve_model) if jit else _solve_model",
    "_next_state_simulate = get_next_state_function(model=_mod, target='simulate')",
    "if targets == 'solve':\n    _target = solve_model\nelif targets == 'simulate':\n    _target = simulate_model\n"
    "elif targets == 'solve_and_simulate':\n    _target = partial(simulate_model, solve_model=solve_model)",
    "return (cast(Callable, _target), _mod.params)",
}
OPAQUE_VALUES = {"_choice_grids": "choice_grids"}      # python name -> Section variable


def same(node, src):
    return ast.dump(node) == ast.dump(ast.parse(src, mode="eval").body)


def only_model(node):
    """an expression built from literals and the processed model only"""
    for n in ast.walk(node):
        if isinstance(n, ast.Name) and n.id not in (MODEL, "list", "_choice_grids"):
            return False
        if isinstance(n, (ast.Call,)) and not (isinstance(n.func, ast.Name) and n.func.id == "list"):
            return False
    return True


class T:
    def __init__(self):
        self.ty = {}              # python name -> coq type
        self.lists = []           # lists in creation order
        self.elt = {}             # list -> element type
        self.tvars = []
        self.externals = {}       # name -> (argtypes, rtype, argnames, fixed)
        self.empties = []         # (name, type)
        self.defaults = []        # (name, type)
        self.lines = []

    def tv(self, name):
        t = "T_" + name.lstrip("_")
        if t not in self.tvars:
            self.tvars.append(t)
        return t


def translate(fn: ast.FunctionDef):
    t = T()
    scope = set()
    body = [s for s in fn.body if not is_docstring(s)]
    out = t.lines

    def expr(node, sc):
        if isinstance(node, ast.Name):
            if node.id in OPAQUE_VALUES:
                return OPAQUE_VALUES[node.id], t.tv(OPAQUE_VALUES[node.id])
            if node.id not in sc:
                fail(node, f"name {node.id} not in scope")
            return node.id, t.ty[node.id]
        if isinstance(node, ast.Subscript):
            if not (isinstance(node.value, ast.Name) and node.value.id in t.lists and node.value.id in sc
                    and isinstance(node.slice, ast.Name) and node.slice.id == "period" and "period" in sc):
                fail(node, "subscript other than <list>[period]")
            xs = node.value.id
            if xs not in t.elt:
                fail(node, f"{xs} is read before anything was appended to it")
            if (f"d_{xs}", t.elt[xs]) not in t.defaults:
                t.defaults.append((f"d_{xs}", t.elt[xs]))
            return f"(nth period {xs} d_{xs})", t.elt[xs]
        if same(node, "period == last_period"):
            if not {"period", "last_period"} <= sc:
                fail(node, "period == last_period out of scope")
            return "(Nat.eqb period last_period)", "bool"
        fail(node, "expression")

    def call(node, sc, result_names):
        """call of an untranslated function with keyword arguments -> code"""
        if not (isinstance(node.func, ast.Name) and not node.args):
            fail(node, "call with positional arguments / of a non-name")
        f = node.func.id
        codes, types, names, fixed = [], [], [], []
        for k in node.keywords:
            if k.arg is None:
                fail(node, "**kwargs")
            if isinstance(k.value, ast.Constant) or only_model(k.value):
                fixed.append(f"{k.arg}={ast.unparse(k.value)}")
                continue
            c, ty = expr(k.value, sc)
            codes.append(c)
            types.append(ty)
            names.append(k.arg)
        rts = [t.tv(r) for r in result_names]
        rt = " * ".join(rts)
        sig = (tuple(types), rt, tuple(names), tuple(fixed))
        if f in t.externals and t.externals[f] != sig:
            fail(node, f"{f} is called in two different ways")
        t.externals[f] = sig
        return f"{f} " + " ".join(codes), rts

    def stmt(st, sc, indent, appended):
        src = ast.unparse(st)
        if isinstance(st, ast.Assign) and len(st.targets) == 1:
            tgt, v = st.targets[0], st.value
            if isinstance(tgt, ast.Name):
                x = tgt.id
                if isinstance(v, ast.List) and not v.elts:
                    if x in t.lists:
                        fail(st, f"{x} initialised twice")
                    t.lists.append(x)
                    t.ty[x] = None
                    sc.add(x)
                    return
                if same(v, "period == last_period"):
                    c, ty = expr(v, sc)
                    t.ty[x] = ty
                    out.append(f"{indent}let {x} := {c} in")
                    sc.add(x)
                    return
                if isinstance(v, ast.Call) and isinstance(v.func, ast.Name) and v.func.id not in ("partial", "list"):
                    c, rts = call(v, sc, [x])
                    t.ty[x] = rts[0]
                    out.append(f"{indent}let {x} := {c} in")
                    sc.add(x)
                    return
                # xs = xs[1:] + [{}]
                if x in t.lists and same(v, f"{x}[1:] + [{{}}]") and indent == "  ":
                    if x not in t.elt:
                        fail(st, f"{x} is shifted before anything was appended to it")
                    t.empties.append((f"empty_{x}", t.elt[x]))
                    out.append(f"{indent}let {x} := tl {x} ++ [empty_{x}] in")
                    return
            if isinstance(tgt, ast.Tuple) and all(isinstance(e, ast.Name) for e in tgt.elts) \
                    and isinstance(v, ast.Call):
                names = [e.id for e in tgt.elts]
                c, rts = call(v, sc, names)
                for n_, r in zip(names, rts):
                    t.ty[n_] = r
                    sc.add(n_)
                out.append(f"{indent}let '({', '.join(names)}) := {c} in")
                return
        if isinstance(st, ast.Expr) and isinstance(st.value, ast.Call) and isinstance(st.value.func, ast.Attribute) \
                and st.value.func.attr == "append" and isinstance(st.value.func.value, ast.Name):
            xs = st.value.func.value.id
            a = st.value.args
            if indent == "  ":
                fail(st, "append outside a loop")
            if not (xs in t.lists and len(a) == 1 and isinstance(a[0], ast.Name) and not st.value.keywords):
                fail(st, "append")
            c, ty = expr(a[0], sc)
            if xs in t.elt and t.elt[xs] != ty:
                fail(st, f"{xs} receives elements of two types")
            t.elt[xs] = ty
            t.ty[xs] = f"list {ty}"
            out.append(f"{indent}let {xs} := {xs} ++ [{c}] in")
            if xs not in appended:
                appended.append(xs)
            return
        fail(st, f"statement: {src[:80]}")

    solve_kw = simulate_kw = None
    for st in body:
        src = ast.unparse(st)
        if src in VERBATIM:
            continue
        if src == "last_period = _mod.n_periods - 1":
            out.append(f"  let last_period := {N} - 1 in")
            t.ty["last_period"] = "nat"
            scope.add("last_period")
            continue
        if src == "continuous_choice_grids = [_choice_grids] * _mod.n_periods":
            t.lists.append("continuous_choice_grids")
            t.elt["continuous_choice_grids"] = t.tv("choice_grids")
            t.ty["continuous_choice_grids"] = f"list {t.tv('choice_grids')}"
            out.append(f"  let continuous_choice_grids := repeat choice_grids {N} in")
            scope.add("continuous_choice_grids")
            continue
        if isinstance(st, ast.For):
            if not (isinstance(st.target, ast.Name) and st.target.id == "period" and not st.orelse
                    and same(st.iter, "range(_mod.n_periods)")):
                fail(st, "loop other than `for period in range(_mod.n_periods)`")
            # which lists does the loop append to?
            carried = []
            for n_ in ast.walk(st):
                if isinstance(n_, ast.Call) and isinstance(n_.func, ast.Attribute) and n_.func.attr == "append" \
                        and isinstance(n_.func.value, ast.Name) and n_.func.value.id not in carried:
                    carried.append(n_.func.value.id)
            for xs in carried:
                if xs not in t.lists or xs not in scope:
                    fail(st, f"append to {xs}, which is not an initialised list")
                if xs in t.elt:
                    fail(st, f"{xs} is appended to in two loops")
            tup = "(" + ", ".join(carried) + ")" if len(carried) > 1 else carried[0]
            pat = "'" + tup if len(carried) > 1 else tup
            mark = len(out)
            out.append(None)                    # placeholder for the header (types known after the body)
            out.append(f"    fold_left (fun {pat} period =>")
            isc = set(scope) | {"period"}
            t.ty["period"] = "nat"
            appended = []
            for s2 in st.body:
                stmt(s2, isc, "      ", appended)
            out.append(f"      {tup})")
            inits = ", ".join(f"([] : list {t.elt[xs]})" for xs in carried)
            out.append(f"      (seq 0 {N}) ({inits}) in")
            out[mark] = f"  let {pat} :="
            continue
        if isinstance(st, ast.Assign) and isinstance(st.value, ast.Call) and isinstance(st.value.func, ast.Name) \
                and st.value.func.id == "partial":
            c = st.value
            if not (len(c.args) == 1 and isinstance(c.args[0], ast.Name)):
                fail(st, "partial")
            target = c.args[0].id
            kws = {}
            for k in c.keywords:
                if k.arg in ("logger",) and same(k.value, "logger"):
                    continue
                if k.arg == "model" and same(k.value, MODEL):
                    continue
                if k.arg == "next_state" and same(k.value, "jax.jit(_next_state_simulate)"):
                    continue
                if not (isinstance(k.value, ast.Name) and k.value.id == k.arg and k.arg in t.lists):
                    fail(st, f"partial({target}, ...): {k.arg} is not one of the lists passed under its own name")
                kws[k.arg] = k.value.id
            if target == "solve":
                solve_kw = list(kws)
            elif target == "simulate":
                simulate_kw = list(kws)
            else:
                fail(st, f"partial of {target}")
            continue
        stmt(st, scope, "  ", [])
    want_solve = ["state_choice_spaces", "state_indexers", "continuous_choice_grids", "compute_ccv_functions", "emax_calculators"]
    want_sim = ["state_indexers", "continuous_choice_grids", "compute_ccv_policy_functions"]
    if solve_kw != want_solve:
        fail(fn, f"arguments bound into solve: {solve_kw}")
    if simulate_kw != want_sim:
        fail(fn, f"arguments bound into simulate: {simulate_kw}")
    unused = [xs for xs in t.lists if xs not in set(want_solve) | set(want_sim) | {"space_infos", "choice_segments"}]
    if unused:
        fail(fn, f"lists that are built but not used: {unused}")

    res = []
    res.append("Section EntryPoint.")
    res.append("Variables " + " ".join(t.tvars) + " : Type.")
    res.append(f"Variable choice_grids : {t.tv('choice_grids')}.")
    for n_, ty in t.empties + t.defaults:
        res.append(f"Variable {n_} : {ty}.")
    for f, (types, rt, names, fixed) in t.externals.items():
        res.append(f"(* {f}({', '.join(names)}); fixed: {', '.join(fixed)} *)")
        res.append(f"Variable {f} : " + " -> ".join(list(types) + [f"({rt})" if "*" in rt else rt]) + ".")
    res.append("")
    rty_solve = " * ".join(f"list {t.elt[x]}" for x in want_solve)
    rty_sim = " * ".join(f"list {t.elt[x]}" for x in want_sim)
    res.append(f"Definition build ({N} : nat) : ({rty_solve}) * ({rty_sim}) :=")
    res += out
    res.append(f"  (({', '.join(want_solve)}), ({', '.join(want_sim)})).")
    res.append("")
    res.append(f"Definition solve_inputs ({N} : nat) := fst (build {N}).")
    res.append(f"Definition simulate_inputs ({N} : nat) := snd (build {N}).")
    res.append("End EntryPoint.")
    res.append("")
    for f, (types, rt, names, fixed) in t.externals.items():
        lit = "; ".join('"' + x.replace('"', "'") + '"' for x in fixed)
        res.append(f"Definition {f}_fixed_args : list string := [{lit}]%string.")
    return "\n".join(res), t


HEADER = """(* GENERATED by translator/py2coq_entry.py from src/lcm/entry_point.py — do not edit. *)
From Coq Require Import List String Arith.
Import ListNotations.
"""


def main():
    src, outdir = Path(sys.argv[1]), Path(sys.argv[2])
    status = 0
    try:
        tree = ast.parse((src / "entry_point.py").read_text())
        txt, t = translate(find_func(tree, "get_lcm_function"))
        text = HEADER + "\n" + txt + "\n"
        print(f"EntryPoint.v: get_lcm_function (lists {t.lists}, externals {list(t.externals)})")
    except (TranslationError, SyntaxError, OSError) as e:
        status = 3
        print(f"TRANSLATION-REFUSED EntryPoint.v: {e}")
        text = f"(* translation refused: {str(e).replace('*)', '* )').replace('(*', '( *')} *)\nDefinition translation_refused : True := 0.\n"
    path = outdir / "EntryPoint.v"
    if not path.exists() or path.read_text() != text:
        path.write_text(text)
    return status


if __name__ == "__main__":
    sys.exit(main())

#!/usr/bin/env python3
"""Fail-closed Python-ast -> Gallina translator for the forward loop of lcm/simulate.py:simulate and
for _generate_simulation_keys.

Emits Gen/Simulate.v:
  * `generate_simulation_keys key n_ids` over the split-tree keys of Model/RandomChoice.v
    (`jax.random.split(key, num=len(ids) + 1)`, carry `keys[0]`, hand `keys[1:]` to the ids in order);
  * `simulate_loop`: the loop over `range(n_periods)` as a `fold_left` over `seq 0 n_periods` whose
    state is (states, key, results).  The statements that compute one period's decision
    (from `create_data_scs` to the assembly of `choices`) become ONE Section variable `decide`; this
    is sound because the translator checks the block's read and write sets: it may read only the
    current states, the period, the model-only objects, `params`, and the per-period lists AT THE
    CURRENT PERIOD (`xs[period]`), it must not read or write the PRNG key, the results, the states
    or the lists, and it must define `value` and `choices` (comprehension variables are scoped as in
    Python 3).  What is stored, how the key is split, how the next states are obtained and renamed,
    and the shift `vf_arr_list[1:] + [None]` are translated statement by statement.
Anything else raises TranslationError naming the construct."""
from __future__ import annotations

import ast
import sys
from pathlib import Path

sys.path.insert(0, str(Path(__file__).resolve().parent))
from py2coq import TranslationError, fail, is_docstring, find_func  # noqa: E402

PER_PERIOD = ["continuous_choice_grids", "compute_ccv_policy_functions", "vf_arr_list", "state_indexers"]
MODEL_ONLY = {"model", "_discrete_policy_calculator", "sparse_choice_variables"}
HELPERS = {"create_data_scs", "solve_continuous_problem", "filter_ccv_policy", "retrieve_non_sparse_choices",
           "partial", "tuple", "len"}
FORBIDDEN_WRITES = {"states", "key", "_simulation_results", "period", "params", "model", *PER_PERIOD, *MODEL_ONLY}

PRE_VERBATIM = {
    "if vf_arr_list is None:\n    if solve_model is None:\n        raise ValueError('You need to provide either vf_arr_list or solve_model.')\n"
    "    vf_arr_list = solve_model(params)": "let vf_arr_list := match vf_arr_list with Some l => l | None => solve_model params end in",
    "vf_arr_list = vf_arr_list[1:] + [None]": "let vf_arr_list := map Some (tl vf_arr_list) ++ [None] in",
    "n_periods = len(vf_arr_list)": "let n_periods := List.length vf_arr_list in",
    "n_initial_states = len(next(iter(initial_states.values())))": None,
    "_discrete_policy_calculator = get_discrete_policy_calculator(variable_info=model.variable_info)": None,
    "sparse_choice_variables = model.variable_info.query('is_choice & is_sparse').index": None,
    "states = initial_states": "let states := initial_states in",
    "key = jax.random.PRNGKey(seed=seed)": "let key := prng_key seed in",
    "_simulation_results = []": "let _simulation_results : list (T_value * T_choices * T_states) := [] in",
}
POST_VERBATIM = [
    "processed = _process_simulated_data(_simulation_results)",
    "if additional_targets is not None:\n    calculated_targets = _compute_targets(processed, targets=additional_targets, "
    "model_functions=model.functions, params=params)\n    processed = {**processed, **calculated_targets}",
    "return _as_data_frame(processed, n_periods=n_periods)",
]


def unp(n):
    return ast.unparse(n)


def is_logger(st):
    return unp(st).startswith("logger.")


def free_reads(node, bound=frozenset()):
    """names read by `node` that are not bound inside it (comprehension variables are local)"""
    out = set()
    if isinstance(node, (ast.ListComp, ast.SetComp, ast.GeneratorExp, ast.DictComp)):
        b = set(bound)
        for g in node.generators:
            out |= free_reads(g.iter, frozenset(b))
            for t in ast.walk(g.target):
                if isinstance(t, ast.Name):
                    b.add(t.id)
            for c in g.ifs:
                out |= free_reads(c, frozenset(b))
        elts = [node.key, node.value] if isinstance(node, ast.DictComp) else [node.elt]
        for e in elts:
            out |= free_reads(e, frozenset(b))
        return out
    if isinstance(node, ast.Lambda) or isinstance(node, (ast.FunctionDef, ast.ClassDef)):
        fail(node, "lambda / nested definition in the decision block")
    if isinstance(node, ast.Name):
        if isinstance(node.ctx, ast.Load) and node.id not in bound:
            out.add(node.id)
        return out
    for ch in ast.iter_child_nodes(node):
        out |= free_reads(ch, bound)
    return out


def stores(node):
    out = set()
    for n in ast.walk(node):
        if isinstance(n, ast.Name) and isinstance(n.ctx, (ast.Store, ast.Del)):
            out.add(n.id)
        if isinstance(n, (ast.Global, ast.Nonlocal, ast.AugAssign, ast.Delete)):
            fail(n, "global / nonlocal / augmented assignment / del in the decision block")
        if isinstance(n, (ast.Subscript, ast.Attribute)) and isinstance(n.ctx, (ast.Store, ast.Del)):
            fail(n, "assignment to an element or attribute (in-place update) in the decision block")
    return out


def comprehension_locals(node):
    out = set()
    for n in ast.walk(node):
        if isinstance(n, ast.comprehension):
            for t in ast.walk(n.target):
                if isinstance(t, ast.Name):
                    out.add(t.id)
    return out


def check_block(block):
    """the decision block: returns nothing, raises when its read/write sets are not the allowed ones"""
    written = set()
    for st in block:
        if not isinstance(st, (ast.Assign, ast.If)):
            fail(st, "statement kind in the decision block")
        # per-period lists only as xs[period]
        for n in ast.walk(st):
            if isinstance(n, ast.Subscript) and isinstance(n.value, ast.Name) and n.value.id in PER_PERIOD:
                if not (isinstance(n.slice, ast.Name) and n.slice.id == "period"):
                    fail(n, f"{n.value.id} indexed by something else than the current period")
            if isinstance(n, ast.Call) and isinstance(n.func, ast.Attribute) and n.func.attr in (
                    "append", "extend", "update", "pop", "clear", "insert", "remove", "setdefault", "sort"):
                fail(n, "mutating method call in the decision block")
        reads = free_reads(st)
        for r in reads:
            if r in PER_PERIOD:
                # must occur only as the value of a [period] subscript
                for n in ast.walk(st):
                    for ch in ast.iter_child_nodes(n):
                        if isinstance(ch, ast.Name) and ch.id == r and not (
                                isinstance(n, ast.Subscript) and n.value is ch):
                            fail(ch, f"{r} used other than as {r}[period]")
                continue
            if r in MODEL_ONLY or r in HELPERS or r in ("states", "period", "params") or r in written:
                continue
            fail(st, f"the decision block reads {r}")
        w = stores(st) - comprehension_locals(st)
        bad = w & FORBIDDEN_WRITES
        if bad:
            fail(st, f"the decision block assigns {sorted(bad)}")
        written |= w
    if not {"value", "choices"} <= written:
        fail(block[0], "the decision block does not define value and choices")


def translate_simulate(fn: ast.FunctionDef):
    body = [s for s in fn.body if not is_docstring(s) and not is_logger(s)]
    loops = [s for s in body if isinstance(s, ast.For)]
    if len(loops) != 1:
        fail(fn, "expected exactly one loop in simulate")
    loop = loops[0]
    pre, post = body[:body.index(loop)], body[body.index(loop) + 1:]
    lines = []
    seen = []
    for st in pre:
        src = unp(st)
        if src not in PRE_VERBATIM:
            fail(st, f"statement before the loop: {src[:90]}")
        seen.append(src)
        if PRE_VERBATIM[src]:
            lines.append("  " + PRE_VERBATIM[src])
    if seen != list(PRE_VERBATIM):
        fail(fn, "statements before the loop are not the expected ones in the expected order")
    if [unp(s) for s in post] != POST_VERBATIM:
        fail(fn, "statements after the loop")
    if not (unp(loop.target) == "period" and unp(loop.iter) == "range(n_periods)" and not loop.orelse):
        fail(loop, "loop header")
    lb = [s for s in loop.body if not is_logger(s)]
    # split: decision block | store | keys | next states | rename
    idx = None
    for k, st in enumerate(lb):
        if unp(st).startswith("_simulation_results.append("):
            idx = k
            break
    if idx is None:
        fail(loop, "results are not stored")
    block, tail = lb[:idx], lb[idx:]
    check_block(block)
    want_tail = [
        "_simulation_results.append({'value': value, 'choices': choices, 'states': states})",
        "key, sim_keys = _generate_simulation_keys(key=key, ids=model.function_info.query('is_stochastic_next').index)",
        "states = next_state(**states, **choices, _period=jnp.repeat(period, n_initial_states), params=params, keys=sim_keys)",
        "states = {k.removeprefix('next_'): v for k, v in states.items()}",
    ]
    if [unp(s) for s in tail] != want_tail:
        fail(loop, "the statements after the decision block (store, split keys, next states, rename) changed: "
             + " | ".join(unp(s)[:60] for s in tail))
    lines += [
        "  let '(states, key, _simulation_results) :=",
        "    fold_left (fun '(states, key, _simulation_results) period =>",
        "      let '(value, choices) := decide states period (nth period continuous_choice_grids d_grids)",
        "                                 (nth period compute_ccv_policy_functions d_policy) (nth period vf_arr_list None)",
        "                                 (nth period state_indexers d_indexers) params in",
        "      let _simulation_results := _simulation_results ++ [(value, choices, states)] in",
        "      let '(key, sim_keys) := generate_simulation_keys key n_stochastic in",
        "      let states := next_state states choices period params sim_keys in",
        "      let states := remove_next_prefix states in",
        "      (states, key, _simulation_results))",
        "      (seq 0 n_periods) (states, key, _simulation_results) in",
        "  _simulation_results.",
    ]
    return lines


def translate_keys(fn: ast.FunctionDef):
    body = [unp(s) for s in fn.body if not is_docstring(s)]
    want = ["keys = jax.random.split(key, num=len(ids) + 1)", "key = keys[0]",
            "simulation_keys = dict(zip(ids, keys[1:], strict=True))", "return (key, simulation_keys)"]
    if body != want:
        fail(fn, "_generate_simulation_keys: " + " | ".join(body))
    if [a.arg for a in fn.args.args] != ["key", "ids"]:
        fail(fn, "signature of _generate_simulation_keys")
    return ["Definition generate_simulation_keys (key : RandomChoice.key) (n_ids : nat) : RandomChoice.key * list RandomChoice.key :=",
            "  let keys := split key (n_ids + 1) in",
            "  let key := hd [] keys in",
            "  let simulation_keys := tl keys in          (* dict(zip(ids, keys[1:])): id j gets keys[1 + j] *)",
            "  (key, simulation_keys)."]


HEADER = """(* GENERATED by translator/py2coq_sim.py from src/lcm/simulate.py — do not edit. *)
From Coq Require Import List.
Import ListNotations.
From LCM Require Import Base.Prelude Model.RandomChoice.
"""


def main():
    src, outdir = Path(sys.argv[1]), Path(sys.argv[2])
    status = 0
    try:
        tree = ast.parse((src / "simulate.py").read_text())
        keys = translate_keys(find_func(tree, "_generate_simulation_keys"))
        lines = translate_simulate(find_func(tree, "simulate"))
        text = HEADER + "\n" + "\n".join(keys) + """

Section Simulate.
Variables T_params T_states T_choices T_value T_arr T_indexers T_policy T_grids : Type.
Variables (d_grids : T_grids) (d_policy : T_policy) (d_indexers : T_indexers).
Variable prng_key : nat -> RandomChoice.key.                         (* jax.random.PRNGKey(seed) *)
Variable n_stochastic : nat.                                           (* number of stochastic next functions (model only) *)
Variable solve_model : T_params -> list T_arr.
(* one period's decision: everything from create_data_scs to the assembly of `choices`; reads only what is listed *)
Variable decide : T_states -> nat -> T_grids -> T_policy -> option T_arr -> T_indexers -> T_params -> T_value * T_choices.
Variable next_state : T_states -> T_choices -> nat -> T_params -> list RandomChoice.key -> T_states.
Variable remove_next_prefix : T_states -> T_states.

Definition simulate_loop (params : T_params) (initial_states : T_states) (state_indexers : list T_indexers)
    (continuous_choice_grids : list T_grids) (compute_ccv_policy_functions : list T_policy)
    (vf_arr_list : option (list T_arr)) (seed : nat) : list (T_value * T_choices * T_states) :=
""" + "\n".join(lines) + "\nEnd Simulate.\n"
        print("Simulate.v: simulate (forward loop), _generate_simulation_keys")
    except (TranslationError, SyntaxError, OSError) as e:
        status = 3
        print(f"TRANSLATION-REFUSED Simulate.v: {e}")
        text = f"(* translation refused: {str(e).replace('*)', '* )').replace('(*', '( *')} *)\nDefinition translation_refused : True := 0.\n"
    path = outdir / "Simulate.v"
    if not path.exists() or path.read_text() != text:
        path.write_text(text)
    return status


if __name__ == "__main__":
    sys.exit(main())

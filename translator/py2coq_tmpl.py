#!/usr/bin/env python3
"""Fail-closed Python-ast -> Gallina translator for lcm/input_processing/create_params_template.py:
_create_function_params (which arguments of a function are its parameters) and the dimensions of the
transition array in _create_stochastic_transition_params.

Emits Gen/ParamsTemplateGen.v over Spec/Lang.v's `model` (functions with their signatures, states and
choices with their grids) and Model/ParamsTemplate.v's `sorted_set` (= sorted(set(.)) on names) and
`grid_of`.  Sets that are only used for membership are lists; `{*a, *b, "x"}` is concatenation."""
from __future__ import annotations

import ast
import sys
from pathlib import Path

sys.path.insert(0, str(Path(__file__).resolve().parent))
from py2coq import TranslationError, fail, is_docstring, find_func  # noqa: E402

SOURCES = {"model.functions": "map fname (functions m)", "model.choices": "map fst (choices m)",
           "model.states": "map fst (states m)"}


def unp(n):
    return ast.unparse(n)


def translate_function_params(fn):
    body = [s for s in fn.body if not is_docstring(s)]
    if len(body) != 5:
        fail(fn, f"_create_function_params has {len(body)} statements, expected 5")
    a, h, init, loop, ret = body
    # variables = {*model.functions, *model.choices, *model.states, '_period'}
    if not (isinstance(a, ast.Assign) and unp(a.targets[0]) == "variables" and isinstance(a.value, ast.Set)):
        fail(a, "variables is not a set literal")
    parts = []
    for e in a.value.elts:
        if isinstance(e, ast.Starred) and unp(e.value) in SOURCES:
            parts.append(SOURCES[unp(e.value)])
        elif isinstance(e, ast.Constant) and isinstance(e.value, str):
            parts.append(f'["{e.value}"]')
        else:
            fail(e, "element of the variables set")
    if unp(h) != "if hasattr(model, 'shocks'):\n    variables = variables | set(model.shocks)":
        fail(h, "the hasattr(model, 'shocks') statement changed")      # user_model.Model has no such attribute
    if unp(init) != "function_params = {}":
        fail(init, "function_params initialisation")
    if not (isinstance(loop, ast.For) and unp(loop.target) == "(name, func)" and unp(loop.iter) == "model.functions.items()"):
        fail(loop, "loop over model.functions.items()")
    lb = [unp(s) for s in loop.body]
    if lb[0] != "arguments = set(inspect.signature(func).parameters)":
        fail(loop, "arguments")
    # params = sorted(arguments.difference(variables))
    st = loop.body[1]
    v = st.value
    if not (isinstance(st, ast.Assign) and unp(st.targets[0]) == "params" and isinstance(v, ast.Call)
            and unp(v.func) == "sorted" and len(v.args) == 1 and not v.keywords):
        fail(st, "params is not sorted(...)")
    inner = v.args[0]
    if unp(inner) == "arguments.difference(variables)" or unp(inner) == "arguments - variables":
        sel = "filter (fun a => negb (mem_str a (gen_variables m))) (fargs f)"
    else:
        fail(inner, "params are not the arguments minus the variables")
    if lb[2] != "function_params[name] = {p: jnp.nan for p in params}" or len(lb) != 3:
        fail(loop, "entry of the template")
    if unp(ret) != "return function_params":
        fail(ret, "return")
    return " ++ ".join(parts), sel


def translate_dimensions(fn):
    dims = dim_all = None
    for n in ast.walk(fn):
        if isinstance(n, ast.Assign) and unp(n.targets[0]) == "dimensions_of_deps":
            dims = n
        if isinstance(n, ast.Assign) and unp(n.targets[0]) == "dimensions":
            dim_all = n
    if dims is None or dim_all is None:
        fail(fn, "dimensions_of_deps / dimensions not found")
    lc = dims.value
    if not (isinstance(lc, ast.ListComp) and len(lc.generators) == 1 and unp(lc.generators[0].target) == "arg"
            and unp(lc.generators[0].iter) == "dependencies" and not lc.generators[0].ifs and isinstance(lc.elt, ast.IfExp)):
        fail(dims, "dimensions_of_deps is not [a if c else b for arg in dependencies]")
    e = lc.elt

    def size(x):
        if unp(x) == "len(grids[arg])":
            return "option_map grid_size (grid_of m arg)"
        if unp(x) == "model.n_periods":
            return "Some (n_periods m)"
        fail(x, "dimension of a dependency")
    if unp(e.test) == "arg != '_period'":
        cond = 'negb (String.eqb arg "_period")'
    elif unp(e.test) == "arg == '_period'":
        cond = 'String.eqb arg "_period"'
    else:
        fail(e.test, "test in dimensions_of_deps")
    per_dep = f"if {cond} then {size(e.body)} else {size(e.orelse)}"
    if unp(dim_all.value) != "(*dimensions_of_deps, len(grids[var]))":
        fail(dim_all, "dimensions is not (*dimensions_of_deps, len(grids[var]))")
    srcs = [unp(s) for s in ast.walk(fn) if isinstance(s, ast.Assign)]
    for need in ("next_var = model.functions[f'next_{var}']", "dependencies = list(inspect.signature(next_var).parameters)",
                 "stochastic_transition_params[var] = jnp.full(dimensions, jnp.nan)"):
        if need not in srcs:
            fail(fn, f"missing statement: {need}")
    return per_dep


def main():
    src, outdir = Path(sys.argv[1]), Path(sys.argv[2])
    status = 0
    try:
        tree = ast.parse((src / "input_processing" / "create_params_template.py").read_text())
        variables, sel = translate_function_params(find_func(tree, "_create_function_params"))
        per_dep = translate_dimensions(find_func(tree, "_create_stochastic_transition_params"))
        text = f"""(* GENERATED by translator/py2coq_tmpl.py from src/lcm/input_processing/create_params_template.py — do not edit. *)
From LCM Require Import Base.Prelude Spec.Lang Spec.Bellman Model.ParamsTemplate.
Local Open Scope string_scope.

(* _create_function_params *)
Definition gen_variables (m : model) : list string := ({variables})%list.
Definition gen_function_params (m : model) : list (string * list string) :=
  map (fun f => (fname f, sorted_set ({sel}))) (functions m).

(* _create_stochastic_transition_params: shape of the array of the stochastic state var whose next
   function has the signature `dependencies` *)
Definition gen_shock_dimensions (m : model) (var : string) (dependencies : list string) : option (list nat) :=
  do dimensions_of_deps <- omap (fun arg => {per_dep}) dependencies ;;
  do g <- grid_of m var ;;
  Some (dimensions_of_deps ++ [grid_size g])%list.
"""
        print("ParamsTemplateGen.v: _create_function_params, dimensions of _create_stochastic_transition_params")
    except (TranslationError, SyntaxError, OSError) as e:
        status = 3
        print(f"TRANSLATION-REFUSED ParamsTemplateGen.v: {{e}}".replace("{e}", str(e)))
        text = f"(* translation refused: {str(e).replace('*)', '* )').replace('(*', '( *')} *)\nDefinition translation_refused : True := 0.\n"
    path = outdir / "ParamsTemplateGen.v"
    if not path.exists() or path.read_text() != text:
        path.write_text(text)
    return status


if __name__ == "__main__":
    sys.exit(main())

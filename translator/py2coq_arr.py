#!/usr/bin/env python3
"""Fail-closed Python-ast -> Gallina translator for the array programs of lcm/argmax.py.

Emits Gen/Argmax.v: move_axes_to_back, flatten_last_n_axes, argmax, segment_argmax over the
L0 array vocabulary of Base/ArrOps.v.  Types: varr (arr val), barr (arr bool), narr (arr nat),
anyarr (polymorphic, with a default element), axes (list nat), oaxes, obarr, oval, nat, ids.
Anything outside the accepted subset raises TranslationError naming the construct."""
from __future__ import annotations

import ast
import sys
from pathlib import Path

sys.path.insert(0, str(Path(__file__).resolve().parent))
from py2coq import TranslationError, fail, dotted, kw, is_docstring, find_func, HEADER  # noqa: E402

DFLT = {"varr": "VUndef", "barr": "false", "narr": "0%nat"}


def same(node, src):
    """structural equality of an AST node with the parse of `src` (an expression)"""
    return ast.dump(node) == ast.dump(ast.parse(src, mode="eval").body)


class Env:
    def __init__(self, types, known, poly_d=None):
        self.t = dict(types)
        self.known = known          # python name -> (coq name, [(pname, ptype)], rtype or 'same')
        self.poly_d = poly_d        # name of the default-element binder in polymorphic functions


def name_of(node):
    return node.id if isinstance(node, ast.Name) else None


def tr(env, node):
    """expression -> (code, type)"""
    if isinstance(node, ast.Name):
        if node.id in env.t:
            return coqn(node.id), env.t[node.id]
        fail(node, "unknown name")
    if isinstance(node, ast.Compare) and len(node.ops) == 1 and isinstance(node.ops[0], ast.Eq):
        a, ta = tr(env, node.left)
        b, tb = tr(env, node.comparators[0])
        if ta == "varr" and tb == "varr":
            return f"(arr_eq {a} {b})", "barr"
        fail(node, f"== of {ta}, {tb}")
    if isinstance(node, ast.BinOp) and isinstance(node.op, ast.Mult):
        a, ta = tr(env, node.left)
        b, tb = tr(env, node.right)
        if ta == "barr" and tb == "narr":
            return f"(arr_mask_mul {a} {b})", "narr"
        fail(node, f"* of {ta}, {tb}")
    if isinstance(node, ast.Subscript):
        a, ta = tr(env, node.value)
        i, ti = tr(env, node.slice)
        if ta in DFLT and ti == "ids":
            return f"(take_lead {DFLT[ta]} {a} {i})", ta
        fail(node, f"subscript {ta}[{ti}]")
    if isinstance(node, ast.Tuple) and len(node.elts) == 2:
        a, ta = tr(env, node.elts[0])
        b, tb = tr(env, node.elts[1])
        return f"({a}, {b})", f"pair:{ta}:{tb}"
    if isinstance(node, ast.Call):
        return tr_call(env, node)
    fail(node, "unsupported expression")


def coqn(n):
    return {"_max": "max_v", "where": "where_", "argmax": "argmax_v", "arange": "arange_v",
            "segment_argmax": "segment_argmax_v"}.get(n, n)


def shape_of(env, node):
    """<name>.shape -> code"""
    if isinstance(node, ast.Attribute) and node.attr == "shape" and name_of(node.value) in env.t:
        return f"(shape {coqn(node.value.id)})"
    return None


def tr_call(env, node):
    fname = dotted(node.func)
    # x.reshape(y.shape)
    if isinstance(node.func, ast.Attribute) and node.func.attr == "reshape" and name_of(node.func.value) in env.t:
        recv, trcv = tr(env, node.func.value)
        if len(node.args) == 1 and not node.keywords and shape_of(env, node.args[0]):
            return f"(reshape {shape_of(env, node.args[0])} {recv})", trcv
        # x.reshape(*x.shape[:-n], -1)
        x = node.func.value.id
        for nname, nt in env.t.items():
            if nt == "nat" and same(node, f"{x}.reshape(*{x}.shape[:-{nname}], -1)"):
                return f"(reshape_flatten_last {recv} {coqn(nname)})", trcv
        # arange.reshape(-1, *[1] * (data.ndim - 1))
        for dname, dt in env.t.items():
            if dt in DFLT and same(node, f"{x}.reshape(-1, *[1] * ({dname}.ndim - 1))"):
                return f"(reshape_col {recv} (length (shape {coqn(dname)}) - 1))", trcv
        fail(node, "unsupported reshape")
    # a.transpose((*front_axes, *axes))
    if isinstance(node.func, ast.Attribute) and node.func.attr == "transpose" and name_of(node.func.value) in env.t:
        recv, trcv = tr(env, node.func.value)
        if (len(node.args) == 1 and not node.keywords and isinstance(node.args[0], ast.Tuple)
                and len(node.args[0].elts) == 2
                and all(isinstance(e, ast.Starred) and name_of(e.value) in env.t
                        and env.t[e.value.id] == "axes" for e in node.args[0].elts)):
            p, r = (coqn(e.value.id) for e in node.args[0].elts)
            d = env.poly_d if trcv == "anyarr" else DFLT[trcv]
            return f"(transpose_to {d} {recv} ({p} ++ {r}))", trcv
        fail(node, "unsupported transpose")
    if fname == "sorted":
        # sorted(set(range(a.ndim)) - set(axes))
        for an, at in env.t.items():
            for xn, xt in env.t.items():
                if xt == "axes" and same(node, f"sorted(set(range({an}.ndim)) - set({xn}))"):
                    return f"(front_axes (length (shape {coqn(an)})) {coqn(xn)})", "axes"
        fail(node, "unsupported sorted(...)")
    if fname == "len" and len(node.args) == 1 and name_of(node.args[0]) in env.t and env.t[node.args[0].id] == "axes":
        return f"(length {coqn(node.args[0].id)})", "nat"
    if fname == "jnp.max":
        ok = (len(node.args) == 1 and {k.arg for k in node.keywords} == {"axis", "keepdims", "initial", "where"}
              and same(kw(node, "axis"), "-1") and same(kw(node, "keepdims"), "True"))
        if not ok:
            fail(node, "jnp.max: expected (a, axis=-1, keepdims=True, initial=..., where=...)")
        a, ta = tr(env, node.args[0])
        i, ti = tr(env, kw(node, "initial"))
        w, tw = tr(env, kw(node, "where"))
        if (ta, ti, tw) != ("varr", "oval", "obarr"):
            fail(node, f"jnp.max of {ta}, initial {ti}, where {tw}")
        return f"(max_last_keepdims {a} {i} {w})", "varr"
    if fname == "jnp.logical_and" and len(node.args) == 2 and not node.keywords:
        a, ta = tr(env, node.args[0])
        b, tb = tr(env, node.args[1])
        if ta == tb == "barr":
            return f"(arr_and {a} {b})", "barr"
        fail(node, f"logical_and of {ta}, {tb}")
    if fname == "jnp.argmax":
        if len(node.args) == 1 and len(node.keywords) == 1 and same(kw(node, "axis"), "-1"):
            a, ta = tr(env, node.args[0])
            if ta == "barr":
                return f"(argmax_last {a})", "narr"
        fail(node, "jnp.argmax: expected (mask, axis=-1)")
    if fname == "jnp.arange":
        for dn, dt in env.t.items():
            if dt in DFLT and len(node.args) == 1 and same(node.args[0], f"{dn}.shape[0]"):
                return f"(arange (nth 0 (shape {coqn(dn)}) 0%nat))", "narr"
        fail(node, "jnp.arange: expected (x.shape[0])")
    if fname == "jnp.broadcast_to":
        if len(node.args) == 2 and not node.keywords and shape_of(env, node.args[1]):
            a, ta = tr(env, node.args[0])
            if ta in DFLT:
                return f"(broadcast_to {DFLT[ta]} {a} {shape_of(env, node.args[1])})", ta
        fail(node, "jnp.broadcast_to: expected (x, y.shape)")
    if fname == "segment_max":
        ks = {k.arg: k.value for k in node.keywords}
        if node.args or set(ks) != {"data", "segment_ids", "num_segments", "indices_are_sorted"} \
                or not same(ks["indices_are_sorted"], "True"):
            fail(node, "segment_max: expected (data=, segment_ids=, num_segments=, indices_are_sorted=True)")
        d, td = tr(env, ks["data"])
        s, ts = tr(env, ks["segment_ids"])
        n, tn = tr(env, ks["num_segments"])
        if ts != "ids" or tn != "nat":
            fail(node, f"segment_max with ids {ts}, num {tn}")
        if td == "varr":
            return f"(segment_max_val {d} {s} {n})", "varr"
        if td == "narr":
            return f"(segment_max_nat {d} {s} {n})", "narr"
        fail(node, f"segment_max of {td}")
    if fname in ("lax.optimization_barrier", "jax.lax.optimization_barrier"):
        # identity on values: only constrains how XLA schedules the computation
        if len(node.args) == 1 and not node.keywords:
            return tr(env, node.args[0])
        fail(node, "optimization_barrier: expected one argument")
    if fname in env.known:
        coqname, params, rtype = env.known[fname]
        given = {}
        for (pn, _), a in zip(params, node.args):
            given[pn] = a
        for k in node.keywords:
            if k.arg is None or k.arg in given:
                fail(node, "bad keyword in call of a translated function")
            given[k.arg] = k.value
        if set(given) != {pn for pn, _ in params}:
            fail(node, "call of a translated function: arguments do not match its parameters")
        args, first_t = [], None
        for pn, pt in params:
            c, t = tr(env, given[pn])
            if pt == "anyarr":
                if t not in DFLT and t != "anyarr":
                    fail(node, f"argument {pn}: {t} is not an array")
                first_t = t
                args.append(env.poly_d if t == "anyarr" else DFLT[t])
            elif t != pt:
                fail(node, f"argument {pn}: type {t}, expected {pt}")
            args.append(c)
        return f"({coqname} {' '.join(args)})", (first_t if rtype == "same" else rtype)
    fail(node, f"call of unknown function {fname}")


def tr_stmts(env, stmts):
    lines = []
    stmts = [s for s in stmts if not is_docstring(s)]
    for i, st in enumerate(stmts):
        if isinstance(st, ast.Assign) and len(st.targets) == 1 and isinstance(st.targets[0], ast.Name):
            c, t = tr(env, st.value)
            env.t[st.targets[0].id] = t
            lines.append(f"let {coqn(st.targets[0].id)} := {c} in")
            continue
        if isinstance(st, ast.If):
            # axis normalisation prologue
            if ast.dump(st) == ast.dump(ast.parse(
                    "if axis is None:\n    axis = tuple(range(a.ndim))\nelif isinstance(axis, int):\n    axis = (axis,)").body[0]) \
                    and env.t.get("axis") == "oaxes" and env.t.get("a") in DFLT:
                lines.append("let axis := match axis with Some axis => axis | None => seq 0 (length (shape a)) end in")
                env.t["axis"] = "axes"
                continue
            # if x is not None: <assignments>
            t_ = st.test
            if (isinstance(t_, ast.Compare) and len(t_.ops) == 1 and isinstance(t_.ops[0], ast.IsNot)
                    and isinstance(t_.left, ast.Name) and same(t_.comparators[0], "None") and not st.orelse
                    and all(isinstance(b, ast.Assign) and len(b.targets) == 1 and isinstance(b.targets[0], ast.Name)
                            for b in st.body)):
                x = t_.left.id
                inner = {"obarr": "barr"}.get(env.t.get(x))
                if inner is None:
                    fail(st, f"`is not None` test of {env.t.get(x)}")
                targets = {b.targets[0].id for b in st.body}
                if len(targets) != 1:
                    fail(st, "conditional block assigns more than one name")
                y = targets.pop()
                sub = Env(env.t, env.known, env.poly_d)
                sub.t[x] = inner
                body = []
                for b in st.body:
                    c, t = tr(sub, b.value)
                    sub.t[y] = t
                    body.append(f"let {coqn(y)} := {c} in")
                if y == x:
                    if sub.t[y] != inner:
                        fail(st, "conditional rebinding changes the type")
                    lines.append(f"let {coqn(x)} := match {coqn(x)} with Some {coqn(x)} => Some ({' '.join(body)} {coqn(x)}) | None => None end in")
                else:
                    if y not in env.t or sub.t[y] != env.t[y]:
                        fail(st, "conditional assignment to a new name or changing its type")
                    lines.append(f"let {coqn(y)} := match {coqn(x)} with Some {coqn(x)} => ({' '.join(body)} {coqn(y)}) | None => {coqn(y)} end in")
                continue
            fail(st, "unsupported if statement")
        if isinstance(st, ast.Return) and i == len(stmts) - 1 and st.value is not None:
            c, t = tr(env, st.value)
            lines.append(c)
            return "\n  ".join(lines), t
        fail(st, "unsupported statement")
    raise TranslationError("function body does not end in return")


CT = {"varr": "arr val", "barr": "arr bool", "narr": "arr nat", "axes": "list nat", "oaxes": "option (list nat)",
      "obarr": "option (arr bool)", "oval": "option val", "nat": "nat", "ids": "list nat"}


def rtype_coq(t):
    if t.startswith("pair:"):
        _, a, b = t.split(":")
        return f"({CT[a]} * {CT[b]})"
    return CT[t]


def emit(tree, pyname, coqname, params, known, poly=False):
    fn = find_func(tree, pyname)
    if fn.decorator_list:
        fail(fn, "decorated function")
    a = fn.args
    if a.vararg or a.kwarg or a.posonlyargs or a.kwonlyargs:
        fail(fn, "unsupported parameter kinds")
    names = [x.arg for x in a.args]
    if names != [p for p, _ in params]:
        raise TranslationError(f"{pyname}: parameters {names} differ from the expected {[p for p, _ in params]}")
    for dflt in a.defaults:
        if not same(dflt, "None"):
            fail(fn, "unsupported default value")
    env = Env(dict(params), known, "d" if poly else None)
    body, rt = tr_stmts(env, fn.body)
    if poly:
        binders = "{A : Type} (d : A) " + " ".join(
            f"({coqn(n)} : {'arr A' if t == 'anyarr' else CT[t]})" for n, t in params)
        rtxt = "arr A" if rt == "anyarr" else rtype_coq(rt)
    else:
        binders = " ".join(f"({coqn(n)} : {CT[t]})" for n, t in params)
        rtxt = rtype_coq(rt)
    return f"Definition {coqname} {binders} : {rtxt} :=\n  {body}.\n", rt


def generate(src: Path):
    tree = ast.parse((src / "argmax.py").read_text())
    known = {}
    t1, _ = emit(tree, "_move_axes_to_back", "move_axes_to_back", [("a", "anyarr"), ("axes", "axes")], known, poly=True)
    known["_move_axes_to_back"] = ("move_axes_to_back", [("a", "anyarr"), ("axes", "axes")], "same")
    t2, _ = emit(tree, "_flatten_last_n_axes", "flatten_last_n_axes", [("a", "anyarr"), ("n", "nat")], known, poly=True)
    known["_flatten_last_n_axes"] = ("flatten_last_n_axes", [("a", "anyarr"), ("n", "nat")], "same")
    t3, _ = emit(tree, "argmax", "argmax",
                 [("a", "varr"), ("axis", "oaxes"), ("initial", "oval"), ("where", "obarr")], known)
    t4, _ = emit(tree, "segment_argmax", "segment_argmax",
                 [("data", "varr"), ("segment_ids", "ids"), ("num_segments", "nat")], known)
    return (HEADER.format(src="src/lcm/argmax.py").replace("py2coq.py", "py2coq_arr.py")
            + "From LCM Require Import Base.Prelude Base.Arr Base.ArrOps.\nLocal Open Scope nat_scope.\n\n"
            + "\n".join([t1, t2, t3, t4]))


def main(argv):
    src, outdir = Path(argv[1]), Path(argv[2])
    outdir.mkdir(parents=True, exist_ok=True)
    status = 0
    try:
        text = generate(src)
    except TranslationError as e:
        status = 3
        print(f"TRANSLATION-REFUSED Argmax.v: {e}")
        text = f"(* translation refused: {str(e).replace('*)', '* )')} *)\nDefinition translation_refused : True := 0.\n"
    path = outdir / "Argmax.v"
    if not path.exists() or path.read_text() != text:
        path.write_text(text)
    return status


if __name__ == "__main__":
    sys.exit(main(sys.argv))

#!/usr/bin/env python3
"""Fail-closed Python-ast -> Gallina translator for lcm/dispatchers.py: _base_productmap, vmap_1d,
spacemap (and productmap's use of _base_productmap), over Model/VmapSpec.v (in_axes lists, jax_vmap)
and Model/Dispatchers.v (the meaning of one vmap).

Loops become folds: `for pos in reversed(positions): spec = [None]*n; spec[pos] = 0; specs.append(spec)`
is a fold building the list of specs, `for spec in specs: vmapped = vmap(vmapped, in_axes=spec)` a fold
of jax_vmap, `for p in positions: in_axes[p] = 0` a fold of set_axis.  The argument checks
(duplicates, overlap) and the binding wrappers (allow_args / allow_only_kwargs, `__signature__`) are
accepted verbatim only: the checks raise instead of returning, the wrappers are C19's other theorems
(Model/Functools.v)."""
from __future__ import annotations

import ast
import sys
from pathlib import Path

sys.path.insert(0, str(Path(__file__).resolve().parent))
from py2coq import TranslationError, fail, is_docstring, find_func  # noqa: E402


def unp(n):
    return ast.unparse(n)


def stmts(fn):
    return [s for s in fn.body if not is_docstring(s)]


def translate_base(fn):
    b = stmts(fn)
    s = [unp(x) for x in b]
    if len(b) != 8:
        fail(fn, f"_base_productmap has {len(b)} statements")
    if s[0] != "signature = inspect.signature(func)" or s[1] != "parameters = list(signature.parameters)":
        fail(fn, "signature / parameters")
    if s[2] != "positions = [parameters.index(ax) for ax in product_axes]":
        fail(b[2], "positions")
    if s[3] != "vmap_specs = []":
        fail(b[3], "vmap_specs")
    loop = b[4]
    if not (isinstance(loop, ast.For) and unp(loop.target) == "pos" and not loop.orelse):
        fail(loop, "first loop")
    if unp(loop.iter) == "reversed(positions)":
        order = "rev positions"
    elif unp(loop.iter) == "positions":
        order = "positions"
    else:
        fail(loop, "iteration order of the spec loop")
    if [unp(x) for x in loop.body] != ["spec = [None] * len(parameters)", "spec[pos] = 0", "vmap_specs.append(spec)"]:
        fail(loop, "body of the spec loop")
    if s[5] != "vmapped = func":
        fail(b[5], "vmapped initialisation")
    loop2 = b[6]
    if not (isinstance(loop2, ast.For) and unp(loop2.target) == "spec" and unp(loop2.iter) == "vmap_specs"
            and [unp(x) for x in loop2.body] == ["vmapped = vmap(vmapped, in_axes=spec)"]):
        fail(loop2, "the vmap loop")
    if s[7] != "return vmapped":
        fail(b[7], "return")
    return f"""Definition gen_base_productmap (func : list qarr -> qarr) (parameters product_axes : list string) : list qarr -> qarr :=
  let positions := map (index_in parameters) product_axes in
  let vmap_specs := fold_left (fun vmap_specs pos =>
                       let spec := no_axes (length parameters) in
                       let spec := set_axis spec pos in
                       (vmap_specs ++ [spec])%list) ({order}) [] in
  let vmapped := func in
  fold_left (fun vmapped spec => jax_vmap vmapped spec) vmap_specs vmapped."""


def translate_vmap_1d(fn):
    b = stmts(fn)
    s = [unp(x) for x in b]
    want_head = ["duplicates = {v for v in variables if variables.count(v) > 1}",
                 "if duplicates:\n    raise ValueError(f'Same argument provided more than once in variables: {duplicates}')",
                 "if callable_with == 'only_kwargs':\n    func = allow_args(func)",
                 "signature = inspect.signature(func)", "parameters = list(signature.parameters)",
                 "positions = [parameters.index(var) for var in variables]",
                 "in_axes_for_vmap = [None] * len(parameters)"]
    if s[:7] != want_head:
        fail(fn, "head of vmap_1d changed: " + " | ".join(x[:50] for x in s[:7]))
    loop = b[7]
    if not (isinstance(loop, ast.For) and unp(loop.target) == "p" and unp(loop.iter) == "positions"
            and [unp(x) for x in loop.body] == ["in_axes_for_vmap[p] = 0"]):
        fail(loop, "the in_axes loop")
    if s[8] != "vmapped = vmap(func, in_axes=in_axes_for_vmap)":
        fail(b[8], "the vmap call")
    if s[9] != "vmapped.__signature__ = signature":
        fail(b[9], "signature")
    tail = b[10]
    if not (isinstance(tail, ast.If) and unp(tail.test) == "callable_with == 'only_kwargs'"
            and [unp(x) for x in tail.body] == ["out = allow_only_kwargs(vmapped)"]):
        fail(tail, "callable_with branches")
    if s[11] != "return out" or len(b) != 12:
        fail(fn, "end of vmap_1d")
    return """Definition gen_vmap_1d (func : list qarr -> qarr) (parameters variables : list string) : list qarr -> qarr :=
  let positions := map (index_in parameters) variables in
  let in_axes_for_vmap := no_axes (length parameters) in
  let in_axes_for_vmap := fold_left (fun in_axes_for_vmap p => set_axis in_axes_for_vmap p) positions in_axes_for_vmap in
  jax_vmap func in_axes_for_vmap."""


def translate_spacemap(fn):
    b = stmts(fn)
    # find the if / elif / else that builds vmapped
    branch = None
    for st in b:
        if isinstance(st, ast.If) and unp(st.test) == "not sparse_vars":
            branch = st
    if branch is None:
        fail(fn, "spacemap: the branch on sparse_vars")
    pre = [unp(x) for x in b[:b.index(branch)]]
    if pre[-1] != "func = allow_args(func)":
        fail(fn, "spacemap: func = allow_args(func) must precede the dispatch")
    post = [unp(x) for x in b[b.index(branch) + 1:]]
    if post != ["vmapped.__signature__ = inspect.signature(func)", "return allow_only_kwargs(vmapped)"]:
        fail(fn, "spacemap: statements after the dispatch")

    def seq(body):
        cur = "func"
        for st in body:
            src = unp(st)
            if src == f"vmapped = _base_productmap({'func' if cur == 'func' else 'vmapped'}, dense_vars)":
                cur = f"(gen_base_productmap {cur} parameters dense_vars)"
            elif src == f"vmapped = vmap_1d({'func' if cur == 'func' else 'vmapped'}, variables=sparse_vars, callable_with='only_args')":
                cur = f"(gen_vmap_1d {cur} parameters sparse_vars)"
            else:
                fail(st, f"spacemap branch statement: {src[:90]}")
        if cur == "func":
            fail(body[0], "empty branch")
        return cur
    first = seq(branch.body)
    if not (len(branch.orelse) == 1 and isinstance(branch.orelse[0], ast.If) and unp(branch.orelse[0].test) == "put_dense_first"):
        fail(branch, "elif put_dense_first")
    second = seq(branch.orelse[0].body)
    third = seq(branch.orelse[0].orelse)
    return f"""Definition gen_spacemap (func : list qarr -> qarr) (parameters dense_vars sparse_vars : list string) (put_dense_first : bool)
  : list qarr -> qarr :=
  match sparse_vars with
  | [] => {first}
  | _ => if put_dense_first then {second}
         else {third}
  end."""


def check_productmap(fn):
    s = [unp(x) for x in stmts(fn)]
    if "vmapped = _base_productmap(func, variables)" not in s or s[0] != "func = allow_args(func)" or s[-1] != "return allow_only_kwargs(vmapped)":
        fail(fn, "productmap is not _base_productmap(func, variables) between the two binding wrappers")


HEADER = """(* GENERATED by translator/py2coq_disp.py from src/lcm/dispatchers.py — do not edit. *)
From LCM Require Import Base.Prelude Base.Arr Model.Dispatchers Model.VmapSpec.
"""


def main():
    src, outdir = Path(sys.argv[1]), Path(sys.argv[2])
    status = 0
    try:
        tree = ast.parse((src / "dispatchers.py").read_text())
        base = translate_base(find_func(tree, "_base_productmap"))
        v1d = translate_vmap_1d(find_func(tree, "vmap_1d"))
        sp = translate_spacemap(find_func(tree, "spacemap"))
        check_productmap(find_func(tree, "productmap"))
        text = HEADER + "\n" + base + "\n\n" + v1d + "\n\n" + sp + "\n\n" + \
            "(* productmap(func, variables) = _base_productmap(func, variables) between the binding wrappers *)\n" \
            "Definition gen_productmap := gen_base_productmap.\n"
        print("DispatchersGen.v: _base_productmap, vmap_1d, spacemap, productmap")
    except (TranslationError, SyntaxError, OSError, IndexError) as e:
        status = 3
        print(f"TRANSLATION-REFUSED DispatchersGen.v: {e}")
        text = f"(* translation refused: {str(e).replace('*)', '* )').replace('(*', '( *')} *)\nDefinition translation_refused : True := 0.\n"
    path = outdir / "DispatchersGen.v"
    if not path.exists() or path.read_text() != text:
        path.write_text(text)
    return status


if __name__ == "__main__":
    sys.exit(main())

#!/usr/bin/env python3
"""Fail-closed Python-ast -> Gallina translator for the keyword/positional wrappers of
lcm/functools.py: allow_only_kwargs, allow_args (and the helpers they rest on).

Emits Gen/FunctoolsGen.v over the vocabulary of Model/Functools.v (signatures with parameter kinds,
kwargs as association lists in call order, errors as values).  The wrappers' bodies are translated
statement by statement from a table of accepted statement forms:
  `if <cond>: raise ValueError(...)`      -> `if <cond> then PErr ValueError else ...`
  set / length conditions on args, kwargs, parameters -> subset / same_set / Nat.eqb on names
  dict comprehensions selecting keys        -> lookup_all / filter
  convert_kwargs_to_args(...)               -> the (error-valued) conversion, bound monadically
  slices, zip(..., strict=True), the final call of func
Any other statement, condition or expression raises TranslationError."""
from __future__ import annotations

import ast
import sys
from pathlib import Path

sys.path.insert(0, str(Path(__file__).resolve().parent))
from py2coq import TranslationError, fail, is_docstring, find_func  # noqa: E402


def unp(n):
    return ast.unparse(n)


COND = {
    "args": "negb (match args with [] => true | _ => false end)",
    "extra": None, "missing": None,          # resolved through their definitions
    "len(args) + len(kwargs) != len(parameters)": "negb (Nat.eqb (length args + length kw) (length parameters))",
    "set(kwargs) != set(expected_kwargs)": "negb (same_set (map fst kw) expected_kwargs)",
}
SETDEF = {
    "set(kwargs).difference(parameters)": "negb (subset (map fst kw) parameters)",
    "set(parameters).difference(kwargs)": "negb (subset parameters (map fst kw))",
}
ASSIGN = {
    "expected_kwargs = list(parameters)[len(args):]": "let expected_kwargs := skipn (length args) parameters in",
    "kw_only_kwargs = {k: kwargs[k] for k in kw_only_parameters}": "let kw_only_kwargs := lookup_all kw_only_parameters kw in",
    "pos_kwargs = {k: v for k, v in kwargs.items() if k not in kw_only_parameters}":
        "let pos_kwargs := filter (fun kv => negb (mem_str (fst kv) kw_only_parameters)) kw in",
    "positional_only = positional[:n_positional_only_parameters]": "let positional_only := firstn n_positional_only_parameters positional in",
    "kwargs_names = list(parameters)[n_positional_only_parameters:]": "let kwargs_names := skipn n_positional_only_parameters parameters in",
}
BIND = {
    "positional = convert_kwargs_to_args(pos_kwargs, list(parameters))":
        ("convert_kwargs_to_args pos_kwargs parameters", "positional", None),
    "positional = list(args) + convert_kwargs_to_args(kwargs, list(parameters))":
        ("convert_kwargs_to_args kw parameters", "conv", "let positional := (args ++ conv)%list in"),
    "kwargs = dict(zip(kwargs_names, positional[n_positional_only_parameters:], strict=True))":
        ("zip_strict kwargs_names (skipn n_positional_only_parameters positional)", "kw'", None),
}
RETURN = {
    "return func(*positional, **kw_only_kwargs)": "f positional kw_only_kwargs",
    "return func(*positional_only, **kwargs)": "f positional_only kw'",
}


def wrapper_body(inner, indent="  "):
    """-> list of Coq lines for the body of the inner wrapper function"""
    out = []
    setvars = {}
    closing = []
    body = [s for s in inner.body if not is_docstring(s)]
    for st in body:
        src = unp(st)
        if isinstance(st, ast.Assign) and unp(st.value) in SETDEF and isinstance(st.targets[0], ast.Name):
            setvars[st.targets[0].id] = SETDEF[unp(st.value)]
            continue
        if isinstance(st, ast.If):
            # must end in raise ValueError; may define a message first
            last = st.body[-1]
            if st.orelse or not (isinstance(last, ast.Raise) and isinstance(last.exc, ast.Call) and unp(last.exc.func) == "ValueError"):
                fail(st, "an `if` that is not `if cond: ... raise ValueError(...)`")
            for s2 in st.body[:-1]:
                if not (isinstance(s2, ast.Assign) and unp(s2.targets[0]) in ("msg", "too_many")):
                    fail(s2, "statement before raise")
            c = unp(st.test)
            if c in setvars:
                cond = setvars[c]
            elif c in COND and COND[c]:
                cond = COND[c]
            else:
                fail(st.test, f"condition {c}")
            out.append(f"{indent}if {cond} then PErr ValueError else")
            continue
        if src in ASSIGN:
            out.append(indent + ASSIGN[src])
            continue
        if src in BIND:
            expr, var, extra = BIND[src]
            out.append(f"{indent}match {expr} with")
            out.append(f"{indent}| PErr e => PErr e")
            out.append(f"{indent}| POk {var} =>")
            closing.append(f"{indent}end")
            indent += "    "
            if extra:
                out.append(indent + extra)
            continue
        if src in RETURN:
            out.append(indent + RETURN[src])
            continue
        fail(st, f"statement of the wrapper: {src[:100]}")
    return out + list(reversed(closing))


def outer(fn, inner_name, want):
    body = [s for s in fn.body if not is_docstring(s)]
    srcs = [unp(s) for s in body]
    inner = None
    for s in body:
        if isinstance(s, ast.FunctionDef):
            if s.name != inner_name or [unp(d) for d in s.decorator_list] != ["functools.wraps(func)"]:
                fail(s, "inner wrapper")
            if not (s.args.vararg and s.args.vararg.arg == "args" and s.args.kwarg and s.args.kwarg.arg == "kwargs" and not s.args.args):
                fail(s, "signature of the inner wrapper")
            inner = s
    if inner is None:
        fail(fn, "no inner wrapper")
    for w in want:
        if w not in srcs:
            fail(fn, f"missing statement: {w[:90]}")
    others = [x for x in srcs if x not in want and not x.startswith("@functools.wraps") and not x.startswith("new_parameters =")
              and x not in ("new_signature = signature.replace(parameters=new_parameters)",)]
    if others:
        fail(fn, "unexpected statements: " + " | ".join(o[:60] for o in others))
    return inner


def main():
    src, outdir = Path(sys.argv[1]), Path(sys.argv[2])
    status = 0
    try:
        tree = ast.parse((src / "functools.py").read_text())
        aok = find_func(tree, "allow_only_kwargs")
        inner1 = outer(aok, "func_with_only_kwargs", [
            "signature = inspect.signature(func)", "parameters = signature.parameters",
            "kw_only_parameters = [p.name for p in parameters.values() if p.kind == inspect.Parameter.KEYWORD_ONLY]",
            "func_with_only_kwargs.__signature__ = new_signature", "return cast(F, func_with_only_kwargs)"])
        aa = find_func(tree, "allow_args")
        inner2 = outer(aa, "allow_args_wrapper", [
            "signature = inspect.signature(func)", "parameters = signature.parameters",
            "n_positional_only_parameters = len([p for p in parameters.values() if p.kind == inspect.Parameter.POSITIONAL_ONLY])",
            "allow_args_wrapper.__signature__ = new_signature", "return cast(F, allow_args_wrapper)"])
        ck = find_func(tree, "convert_kwargs_to_args")
        ckb = [unp(s) for s in ck.body if not is_docstring(s)]
        if ckb != ["sorted_kwargs = dict(sorted(kwargs.items(), key=lambda kw: parameters.index(kw[0])))",
                   "return list(sorted_kwargs.values())"]:
            fail(ck, "convert_kwargs_to_args: " + " | ".join(ckb))
        b1 = wrapper_body(inner1)
        b2 = wrapper_body(inner2)
        text = """(* GENERATED by translator/py2coq_fun.py from src/lcm/functools.py — do not edit. *)
From LCM Require Import Base.Prelude Model.Functools.
Local Open Scope string_scope.

Section Gen.
Variable V : Type.

(* convert_kwargs_to_args: sorted(kwargs.items(), key = position in parameters) -> values; list.index raises
   ValueError for a key that is no parameter *)
Definition gen_convert_kwargs_to_args (kw : kwargs V) (parameters : list string) : pres (list V) :=
  if subset (map fst kw) parameters then POk (map snd (sort_by (pos_in parameters) kw)) else PErr ValueError.

Definition gen_allow_only_kwargs (s : sig) (f : list V -> kwargs V -> pres (binding V)) (args : list V) (kw : kwargs V)
  : pres (binding V) :=
  let parameters := names s in
  let kw_only_parameters := map fst (filter (fun p => kind_eqb (snd p) KwOnly) s) in
""" + "\n".join(b1) + """.

Definition gen_allow_args (s : sig) (f : list V -> kwargs V -> pres (binding V)) (args : list V) (kw : kwargs V)
  : pres (binding V) :=
  let parameters := names s in
  let n_positional_only_parameters := length (filter (fun p => kind_eqb (snd p) PosOnly) s) in
""" + "\n".join(b2) + """.
End Gen.
"""
        print("FunctoolsGen.v: allow_only_kwargs, allow_args, convert_kwargs_to_args")
    except (TranslationError, SyntaxError, OSError, IndexError) as e:
        status = 3
        print(f"TRANSLATION-REFUSED FunctoolsGen.v: {e}")
        text = f"(* translation refused: {str(e).replace('*)', '* )').replace('(*', '( *')} *)\nDefinition translation_refused : True := 0.\n"
    path = outdir / "FunctoolsGen.v"
    if not path.exists() or path.read_text() != text:
        path.write_text(text)
    return status


if __name__ == "__main__":
    sys.exit(main())

#!/usr/bin/env python3
"""Fail-closed Python-ast -> Gallina translator for the backward-induction driver of lcm/solve_brute.py.

Emits Gen/SolveBrute.v:
  * `solve` — the loop over `reversed(range(n_periods))` becomes a `fold_left` over
    `rev (seq 0 n_periods)` whose state is the tuple of the loop-carried variables; a variable
    initialised with `None` is an `option`; `xs[period]` is `nth period xs d`; `xs.append(v)` is
    `xs ++ [v]`; `list(reversed(xs))` is `rev xs`; calls of functions that are not translated
    (solve_continuous_problem, the per-period emax calculator) become Section variables with one
    argument per keyword, in the order written; `logger.info(...)` is dropped.
  * the facts about how `solve_continuous_problem` calls `spacemap` (which variables are mapped
    densely / sparsely and in which order of the two groups) as constants.
Everything about types is polymorphic: every parameter and every call result gets its own Section
type variable.  Anything outside the accepted subset raises TranslationError naming the construct."""
from __future__ import annotations

import ast
import sys
from pathlib import Path

sys.path.insert(0, str(Path(__file__).resolve().parent))
from py2coq import TranslationError, fail, is_docstring, find_func  # noqa: E402


def is_logger_call(st):
    return (isinstance(st, ast.Expr) and isinstance(st.value, ast.Call)
            and isinstance(st.value.func, ast.Attribute) and isinstance(st.value.func.value, ast.Name)
            and st.value.func.value.id == "logger")


def same(node, src):
    return ast.dump(node) == ast.dump(ast.parse(src, mode="eval").body)


class Ctx:
    def __init__(self, params):
        self.params = params                  # names of the function's parameters (without logger)
        self.ty = {}                          # python name -> coq type text
        self.optional = set()                 # variables initialised with None
        self.raw = {}                         # optional variable -> name of the unwrapped value in scope
        self.list_params = set()              # parameters subscripted by the loop variable
        self.externals = []                   # (coq name, [arg types], result type, comment)
        self.type_vars = []                   # Section type variables
        self.defaults = []                    # (name, type) default elements for nth
        self.callables = {}                   # local variable holding a callable element -> source list parameter

    def tvar(self, base):
        n = "T_" + base
        if n not in self.type_vars:
            self.type_vars.append(n)
        return n


def translate_solve(fn: ast.FunctionDef):
    args = [a.arg for a in fn.args.args]
    if fn.args.vararg or fn.args.kwarg or fn.args.kwonlyargs or fn.args.defaults:
        fail(fn, "signature of solve with defaults / *args / **kwargs")
    if "logger" not in args:
        fail(fn, "solve without a logger parameter")
    params = [a for a in args if a != "logger"]
    ctx = Ctx(params)
    body = [st for st in fn.body if not is_docstring(st) and not is_logger_call(st)]
    # which parameters are indexed by the loop variable?  (decides list types)
    loops = [st for st in body if isinstance(st, ast.For)]
    if len(loops) != 1:
        fail(fn, f"{len(loops)} for-loops in solve (expected exactly one)")
    loop = loops[0]
    if not (isinstance(loop.target, ast.Name) and not loop.orelse):
        fail(loop, "loop target / else")
    lv = loop.target.id
    for node in ast.walk(loop):
        if isinstance(node, ast.Subscript):
            if not (isinstance(node.value, ast.Name) and node.value.id in params
                    and isinstance(node.slice, ast.Name) and node.slice.id == lv):
                fail(node, "subscript other than <parameter>[<loop variable>]")
            ctx.list_params.add(node.value.id)
    for p_ in params:
        if p_ in ctx.list_params:
            ctx.ty[p_] = f"list {ctx.tvar(p_)}"
            ctx.defaults.append((f"d_{p_}", ctx.tvar(p_)))
        else:
            ctx.ty[p_] = ctx.tvar(p_)

    lines = []
    pre, post = body[:body.index(loop)], body[body.index(loop) + 1:]

    def expr(node, scope):
        """-> (code, type)"""
        if isinstance(node, ast.Name):
            if node.id not in scope:
                fail(node, f"name {node.id} used before assignment")
            return node.id, ctx.ty[node.id]
        if isinstance(node, ast.Subscript):
            p_ = node.value.id
            return f"(nth {node.slice.id} {p_} d_{p_})", ctx.tvar(p_)
        fail(node, "expression")

    def assign(st, scope, out, indent):
        if not (len(st.targets) == 1 and isinstance(st.targets[0], ast.Name)):
            fail(st, "assignment target")
        x = st.targets[0].id
        v = st.value
        if x in params or x == lv:
            fail(st, f"assignment to parameter / loop variable {x}")
        if isinstance(v, ast.Constant) and v.value is None:
            ctx.optional.add(x)
            ctx.ty[x] = f"option {ctx.tvar('R_' + x)}"
            out.append(f"{indent}let {x} : {ctx.ty[x]} := None in")
        elif isinstance(v, ast.List) and not v.elts:
            ctx.ty[x] = f"list {ctx.tvar('E_' + x)}"
            out.append(f"{indent}let {x} : {ctx.ty[x]} := [] in")
        elif isinstance(v, ast.Call) and isinstance(v.func, ast.Name) \
                and v.func.id == "len" and len(v.args) == 1 and not v.keywords and isinstance(v.args[0], ast.Name):
            a = v.args[0].id
            if a not in ctx.list_params:
                fail(v, f"len of {a}, which is not a per-period list")
            ctx.ty[x] = "nat"
            out.append(f"{indent}let {x} := List.length {a} in")
        elif isinstance(v, ast.Subscript):
            code, t = expr(v, scope)
            ctx.ty[x] = t
            ctx.callables[x] = v.value.id
            out.append(f"{indent}let {x} := {code} in")
        elif isinstance(v, ast.Call) and isinstance(v.func, ast.Name):
            f = v.func.id
            argcodes, argtypes, names = [], [], []
            for a in v.args:
                c, t = expr(a, scope)
                argcodes.append(c)
                argtypes.append(t)
                names.append("_")
            for k in v.keywords:
                if k.arg is None:
                    fail(v, "**kwargs in a call")
                c, t = expr(k.value, scope)
                argcodes.append(c)
                argtypes.append(t)
                names.append(k.arg)
            # result type: the declared type of x if x is optional, else fresh
            if x in ctx.optional:
                rt = ctx.tvar("R_" + x)
            else:
                rt = ctx.tvar("R_" + x)
                ctx.ty[x] = rt
            if f in ctx.callables:              # a callable element of a per-period list
                ext = f"apply_{f}"
                argcodes = [f] + argcodes
                argtypes = [ctx.ty[f]] + argtypes
                names = ["<callable>"] + names
            elif f in scope or f in params:
                fail(v, f"call of the non-callable local {f}")
            else:
                ext = f
            sig = (ext, argtypes, rt, names)
            old = [e for e in ctx.externals if e[0] == ext]
            if old and old[0] != sig:
                fail(v, f"{ext} called with two different signatures")
            if not old:
                ctx.externals.append(sig)
            call = f"{ext} " + " ".join(argcodes)
            if x in ctx.optional:
                raw = f"{x}_value"
                ctx.raw[x] = raw
                ctx.ty[raw] = rt
                out.append(f"{indent}let {raw} := {call} in")
                out.append(f"{indent}let {x} := Some {raw} in")
                scope.add(raw)
            else:
                out.append(f"{indent}let {x} := {call} in")
        else:
            fail(st, "right-hand side of an assignment")
        scope.add(x)

    scope = set(params)
    for st in pre:
        if isinstance(st, ast.Assign):
            assign(st, scope, lines, "  ")
        else:
            fail(st, "statement before the loop")
    # ---- the loop ------------------------------------------------------------------------
    it = loop.iter
    if same(it, "reversed(range(n_periods))"):
        order = "(rev (seq 0 n_periods))"
    elif same(it, "range(n_periods)"):
        order = "(seq 0 n_periods)"
    else:
        fail(it, "loop iterator other than reversed(range(n_periods)) / range(n_periods)")
    if "n_periods" not in scope or ctx.ty.get("n_periods") != "nat":
        fail(it, "n_periods is not len(<per-period list>)")
    carried = []
    for node in ast.walk(loop):
        tgt = None
        if isinstance(node, ast.Assign) and isinstance(node.targets[0], ast.Name):
            tgt = node.targets[0].id
        if isinstance(node, ast.Expr) and isinstance(node.value, ast.Call) and isinstance(node.value.func, ast.Attribute) \
                and node.value.func.attr == "append" and isinstance(node.value.func.value, ast.Name):
            tgt = node.value.func.value.id
        if tgt is not None and tgt in scope and tgt not in carried:
            carried.append(tgt)
    carried.sort(key=lambda n: [s.targets[0].id for s in pre if isinstance(s, ast.Assign)].index(n))
    if not carried:
        fail(loop, "loop carries no state")
    tup = "(" + ", ".join(carried) + ")"
    inner = []
    iscope = set(scope) | {lv}
    ctx.ty[lv] = "nat"
    for st in loop.body:
        if is_logger_call(st):
            continue
        if isinstance(st, ast.Assign):
            assign(st, iscope, inner, "      ")
        elif isinstance(st, ast.Expr) and isinstance(st.value, ast.Call) and isinstance(st.value.func, ast.Attribute) \
                and st.value.func.attr == "append":
            c = st.value
            xs = c.func.value.id
            if not (len(c.args) == 1 and not c.keywords and isinstance(c.args[0], ast.Name)):
                fail(st, "append of something that is not a variable")
            v = c.args[0].id
            if xs not in iscope or not ctx.ty[xs].startswith("list "):
                fail(st, f"append to {xs}, which is not a list built here")
            if v not in iscope:
                fail(st, f"append of unassigned {v}")
            if v in ctx.optional:
                if v not in ctx.raw or ctx.raw[v] not in iscope:
                    fail(st, f"append of {v}, which may be None here")
                code, t = ctx.raw[v], ctx.ty[ctx.raw[v]]
            else:
                code, t = v, ctx.ty[v]
            elt = ctx.ty[xs][5:]
            # unify the element type variable with the appended value's type
            ctx.unify = getattr(ctx, "unify", {})
            if elt in ctx.unify and ctx.unify[elt] != t:
                fail(st, f"{xs} receives elements of two types")
            ctx.unify[elt] = t
            inner.append(f"      let {xs} := {xs} ++ [{code}] in")
        else:
            fail(st, "statement in the loop body")
    lines.append(f"  let '{tup} :=")
    lines.append(f"    fold_left (fun '{tup} {lv} =>")
    lines += inner
    lines.append(f"      {tup})")
    lines.append(f"      {order} {tup} in")
    # ---- after the loop --------------------------------------------------------------------
    if len(post) != 1 or not isinstance(post[0], ast.Return):
        fail(fn, "statements after the loop other than one return")
    rv = post[0].value
    ret = None
    for x in carried:
        if same(rv, f"list(reversed({x}))"):
            ret, rty = f"rev {x}", ctx.ty[x]
        elif same(rv, x):
            ret, rty = x, ctx.ty[x]
    if ret is None:
        fail(rv, "return value other than a loop-carried list or its reversal")
    lines.append(f"  {ret}.")
    # ---- assemble ----------------------------------------------------------------------------
    uni = getattr(ctx, "unify", {})

    def sub(t):
        for a, b in uni.items():
            t = t.replace(a, b)
        return t
    tvars = [t for t in ctx.type_vars if t not in uni]
    out = []
    out.append("Section Solve.")
    out.append("Variables " + " ".join(tvars) + " : Type.")
    for d, t in ctx.defaults:
        out.append(f"Variable {d} : {t}.")
    for ext, ats, rt, names in ctx.externals:
        out.append(f"(* {ext}: arguments as written in the call: {', '.join(names)} *)")
        out.append(f"Variable {ext} : " + " -> ".join([sub(a) if ' ' not in a else '(' + sub(a) + ')' for a in ats] + [sub(rt)]) + ".")
    out.append("")
    binder = " ".join(f"({p_} : {ctx.ty[p_]})" for p_ in params)
    out.append(f"Definition solve {binder} : {sub(rty)} :=")
    out += [sub(l) for l in lines]
    out.append("End Solve.")
    meta = {"params": params, "list_params": sorted(ctx.list_params), "carried": carried,
            "externals": [(e[0], e[3]) for e in ctx.externals]}
    return "\n".join(out), meta


def translate_scp(fn: ast.FunctionDef):
    """solve_continuous_problem: how spacemap is called, and with which arguments the mapped function"""
    body = [st for st in fn.body if not is_docstring(st)]
    if len(body) != 3:
        fail(fn, "solve_continuous_problem has not exactly three statements")
    a, b, r = body
    if not (isinstance(a, ast.Assign) and isinstance(a.value, ast.Call) and isinstance(a.value.func, ast.Name)
            and a.value.func.id == "spacemap" and not a.value.args):
        fail(a, "first statement is not `x = spacemap(keywords...)`")
    kws = {k.arg: k.value for k in a.value.keywords}
    if set(kws) != {"func", "dense_vars", "sparse_vars", "put_dense_first"}:
        fail(a, f"spacemap keywords {sorted(kws)}")
    if not same(kws["func"], "compute_ccv"):
        fail(a, "spacemap func is not compute_ccv")
    if not same(kws["dense_vars"], "list(state_choice_space.dense_vars)"):
        fail(a, "dense_vars is not list(state_choice_space.dense_vars)")
    if not same(kws["sparse_vars"], "list(state_choice_space.sparse_vars)"):
        fail(a, "sparse_vars is not list(state_choice_space.sparse_vars)")
    pdf = kws["put_dense_first"]
    if not (isinstance(pdf, ast.Constant) and isinstance(pdf.value, bool)):
        fail(a, "put_dense_first is not a boolean literal")
    mapped = a.targets[0].id
    if not (isinstance(b, ast.Assign) and same(b.value, f"jax.jit({mapped})")):
        fail(b, "second statement is not `y = jax.jit(x)`")
    jitted = b.targets[0].id
    if not (isinstance(r, ast.Return) and isinstance(r.value, ast.Call) and isinstance(r.value.func, ast.Name)
            and r.value.func.id == jitted and not r.value.args):
        fail(r, "return is not a keyword-only call of the jitted function")
    star, named = [], []
    for k in r.value.keywords:
        if k.arg is None:
            if isinstance(k.value, ast.Name):
                star.append(k.value.id)
            elif isinstance(k.value, ast.Attribute) and isinstance(k.value.value, ast.Name):
                star.append(f"{k.value.value.id}.{k.value.attr}")
            else:
                fail(k.value, "** argument")
        else:
            if not (isinstance(k.value, ast.Name) and k.value.id == k.arg):
                fail(k.value, f"keyword {k.arg} is not passed through unchanged")
            named.append(k.arg)
    want_star = ["state_choice_space.dense_vars", "continuous_choice_grids", "state_choice_space.sparse_vars", "state_indexers"]
    if sorted(star) != sorted(want_star):
        fail(r, f"** arguments {star}")
    if sorted(named) != ["params", "vf_arr"]:
        fail(r, f"named arguments {named}")
    out = ["(* solve_continuous_problem: spacemap(func=compute_ccv, dense_vars=names of the space's dense variables,",
           "   sparse_vars=names of its sparse variables, put_dense_first=...); the mapped function is called with the",
           "   dense grids, the continuous choice grids, the sparse columns and the state indexers by name, and with",
           "   vf_arr and params passed through *)",
           f"Definition scp_put_dense_first : bool := {'true' if pdf.value else 'false'}.",
           "Definition scp_mapped_over : list string := [\"dense_vars\"; \"sparse_vars\"]%string.",
           "Definition scp_passed_through : list string := [" + "; ".join(f'"{n}"' for n in sorted(named)) + "]%string."]
    return "\n".join(out)


HEADER = """(* GENERATED by translator/py2coq_loop.py from src/lcm/solve_brute.py — do not edit. *)
From Coq Require Import List String.
Import ListNotations.
"""


def main():
    src, outdir = Path(sys.argv[1]), Path(sys.argv[2])
    status = 0
    try:
        tree = ast.parse((src / "solve_brute.py").read_text())
        solve_txt, meta = translate_solve(find_func(tree, "solve"))
        scp_txt = translate_scp(find_func(tree, "solve_continuous_problem"))
        text = HEADER + "\n" + scp_txt + "\n\n" + solve_txt + "\n"
        print(f"SolveBrute.v: solve ({len(meta['params'])} parameters, loop state {meta['carried']}, "
              f"externals {[e[0] for e in meta['externals']]}), solve_continuous_problem")
    except (TranslationError, SyntaxError, OSError) as e:
        status = 3
        print(f"TRANSLATION-REFUSED SolveBrute.v: {e}")
        text = f"(* translation refused: {str(e).replace('*)', '* )').replace('(*', '( *')} *)\nDefinition translation_refused : True := 0.\n"
    path = outdir / "SolveBrute.v"
    if not path.exists() or path.read_text() != text:
        path.write_text(text)
    return status


if __name__ == "__main__":
    sys.exit(main())

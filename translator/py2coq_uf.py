#!/usr/bin/env python3
"""Fail-closed Python-ast -> Gallina translator for the Bellman operator of lcm/model_functions.py:
the non-last-period `u_and_f` built by get_utility_and_feasibility_function, and get_multiply_weights.

Emits Gen/ModelFunctions.v over the L0 vocabulary of Model/Dispatchers.v (productmap on named
arguments) and Model/QOps.v (elementwise product, total sum, product of scalars):
  * the plumbing statements (binding of *args/**kwargs by name, selection of the states / choices /
    value-function arguments out of kwargs, the calls of the concatenated model functions with
    `**states, **choices, _period=period, params=kwargs["params"]`) are accepted only in exactly the
    form they had when this translator was written and become `select ... kwargs` / applications of
    Section variables;
  * the arithmetic — `productmap(scalar_value_function, variables=[next_<stochastic>...])`,
    `multiply_weights(**weights)`, `(ccvs_at_nodes * node_weights).sum()`,
    `u + kwargs["params"]["beta"] * ccv`, `jnp.prod(jnp.array(args))` — is translated expression by
    expression; any other operator, method or argument raises TranslationError."""
from __future__ import annotations

import ast
import sys
from pathlib import Path

sys.path.insert(0, str(Path(__file__).resolve().parent))
from py2coq import TranslationError, fail, is_docstring, find_func  # noqa: E402

CALL_ARGS = "**states, **choices, _period=period, params=kwargs['params']"
MODEL_CALLS = {"current_u_and_f", "next_state", "next_weights"}


def unp(node):
    return ast.unparse(node)


def expr(node, env):
    """arithmetic on scalars / arrays -> (code, type) with type in {Q, qarr}"""
    if isinstance(node, ast.Name):
        if node.id not in env:
            fail(node, f"name {node.id} not in scope")
        return node.id, env[node.id]
    if unp(node) == "kwargs['params']['beta']":
        return "(beta_of params)", "Q"
    if isinstance(node, ast.BinOp) and isinstance(node.op, (ast.Add, ast.Mult)):
        a, ta = expr(node.left, env)
        b, tb = expr(node.right, env)
        if ta == tb == "Q":
            return f"({a} {'+' if isinstance(node.op, ast.Add) else '*'} {b})", "Q"
        if ta == tb == "qarr" and isinstance(node.op, ast.Mult):
            return f"(qmul_arr {a} {b})", "qarr"
        fail(node, f"operator on {ta}, {tb}")
    if isinstance(node, ast.Call) and isinstance(node.func, ast.Attribute) and node.func.attr == "sum" \
            and not node.args and not node.keywords:
        a, ta = expr(node.func.value, env)
        if ta != "qarr":
            fail(node, ".sum() of a non-array")
        return f"(qsum_all {a})", "Q"
    fail(node, "expression")


def translate_u_and_f(outer: ast.FunctionDef):
    # the `else:` branch of the final `if is_last_period:` defines the non-last-period function
    inner = None
    for st in outer.body:
        if isinstance(st, ast.If) and unp(st.test) == "is_last_period" and st.orelse:
            for s2 in st.orelse:
                if isinstance(s2, ast.FunctionDef) and s2.name == "u_and_f":
                    inner = s2
    if inner is None:
        fail(outer, "no `else:` branch defining u_and_f")
    if [unp(d) for d in inner.decorator_list] != ["with_signature(args=arg_names)"]:
        fail(inner, "decorators of u_and_f")
    lines = []
    env = {}
    body = [s for s in inner.body if not is_docstring(s)]
    if not body or unp(body[0]) != "kwargs = all_as_kwargs(args, kwargs, arg_names=arg_names)":
        fail(inner, "first statement is not the by-name binding of the arguments")
    for st in body[1:]:
        src = unp(st)
        if src == "states = {k: v for k, v in kwargs.items() if k in state_variables}":
            lines.append("  let states := select state_variables kwargs in")
            env["states"] = "kw"
        elif src == "choices = {k: v for k, v in kwargs.items() if k in choice_variables}":
            lines.append("  let choices := select choice_variables kwargs in")
            env["choices"] = "kw"
        elif isinstance(st, ast.Assign) and isinstance(st.value, ast.Call) and isinstance(st.value.func, ast.Name) \
                and st.value.func.id in MODEL_CALLS:
            f = st.value.func.id
            if not {"states", "choices"} <= set(env):
                fail(st, "model function called before states / choices are selected")
            if unp(st.value) != f"{f}({CALL_ARGS})":
                fail(st, f"{f} is not called with ({CALL_ARGS})")
            tgt = st.targets[0]
            if f == "current_u_and_f":
                if unp(tgt) != "(u, f)":
                    fail(st, "result of current_u_and_f is not unpacked into u, f")
                lines.append("  let '(u, f) := current_u_and_f (states ++ choices) period params in")
                env["u"], env["f"] = "Q", "F"
            else:
                if not isinstance(tgt, ast.Name):
                    fail(st, "target")
                lines.append(f"  let {tgt.id} := {f} (states ++ choices) period params in")
                env[tgt.id] = "kw"
        elif src == "value_function = productmap(scalar_value_function, variables=[f'next_{var}' for var in stochastic_variables])":
            lines.append('  let value_function := productmap scalar_value_function '
                         '(map (fun var => ("next_" ++ var)%string) stochastic_variables) in')
            env["value_function"] = "kw->qarr"
        elif isinstance(st, ast.Assign) and isinstance(st.value, ast.Call) and isinstance(st.value.func, ast.Name) \
                and st.value.func.id == "value_function":
            if env.get("value_function") != "kw->qarr" or env.get("_next_state") != "kw":
                fail(st, "value_function / _next_state not available")
            if unp(st.value) != "value_function(**_next_state, **{k: v for k, v in kwargs.items() if k in value_function_arguments})":
                fail(st, "arguments of value_function")
            x = st.targets[0].id
            lines.append(f"  let {x} := value_function (_next_state ++ select value_function_arguments kwargs) in")
            env[x] = "qarr"
        elif isinstance(st, ast.Assign) and isinstance(st.value, ast.Call) and isinstance(st.value.func, ast.Name) \
                and st.value.func.id == "multiply_weights":
            if unp(st.value) != "multiply_weights(**weights)" or env.get("weights") != "kw":
                fail(st, "arguments of multiply_weights")
            x = st.targets[0].id
            lines.append(f"  let {x} := get_multiply_weights stochastic_variables weights in")
            env[x] = "qarr"
        elif isinstance(st, ast.Assign) and len(st.targets) == 1 and isinstance(st.targets[0], ast.Name):
            c, t = expr(st.value, env)
            x = st.targets[0].id
            lines.append(f"  let {x} := {c} in")
            env[x] = t
        elif isinstance(st, ast.Return):
            if not (isinstance(st.value, ast.Tuple) and len(st.value.elts) == 2):
                fail(st, "return value is not a pair")
            a, ta = expr(st.value.elts[0], env)
            b, tb = expr(st.value.elts[1], env)
            if (ta, tb) != ("Q", "F"):
                fail(st, f"returns ({ta}, {tb}), expected (value, feasibility)")
            lines.append(f"  ({a}, {b}).")
        else:
            fail(st, f"statement: {src[:90]}")
    if not lines or not lines[-1].endswith(")."):
        fail(inner, "no return")
    # how multiply_weights is obtained in the enclosing function
    outer_src = [unp(s) for s in ast.walk(outer) if isinstance(s, ast.Assign)]
    if "multiply_weights = get_multiply_weights(stochastic_variables)" not in outer_src:
        fail(outer, "multiply_weights is not get_multiply_weights(stochastic_variables)")
    if "stochastic_variables = model.variable_info.query('is_stochastic').index.tolist()" not in outer_src:
        fail(outer, "stochastic_variables")
    return lines


def translate_u_and_f_last(outer: ast.FunctionDef):
    """the `if is_last_period:` branch: u_and_f returns current_u_and_f at the states and choices"""
    inner = None
    for st in outer.body:
        if isinstance(st, ast.If) and unp(st.test) == "is_last_period" and st.orelse:
            for s2 in st.body:
                if isinstance(s2, ast.FunctionDef) and s2.name == "u_and_f":
                    inner = s2
    if inner is None:
        fail(outer, "no `if is_last_period:` branch defining u_and_f")
    if [unp(d) for d in inner.decorator_list] != ["with_signature(args=arg_names)"]:
        fail(inner, "decorators of the last-period u_and_f")
    body = [unp(s) for s in inner.body if not is_docstring(s)]
    expected = ["kwargs = all_as_kwargs(args, kwargs, arg_names=arg_names)",
                "states = {k: v for k, v in kwargs.items() if k in state_variables}",
                "choices = {k: v for k, v in kwargs.items() if k in choice_variables}",
                f"return current_u_and_f({CALL_ARGS})"]
    if body != expected:
        fail(inner, "the last-period u_and_f is not `return current_u_and_f(**states, **choices, ...)`")
    return ["  let states := select state_variables kwargs in",
            "  let choices := select choice_variables kwargs in",
            "  current_u_and_f (states ++ choices) period params."]


def translate_multiply_weights(fn: ast.FunctionDef):
    body = [s for s in fn.body if not is_docstring(s)]
    if len(body) != 3:
        fail(fn, "get_multiply_weights has not exactly three statements")
    a, d, r = body
    if unp(a) != "arg_names = [f'weight_next_{var}' for var in stochastic_variables]":
        fail(a, "arg_names")
    if not (isinstance(d, ast.FunctionDef) and [unp(x) for x in d.decorator_list] == ["with_signature(args=arg_names)"]):
        fail(d, "inner function / its signature")
    ib = [s for s in d.body if not is_docstring(s)]
    if len(ib) != 2 or unp(ib[0]) != "args = all_as_args(args, kwargs, arg_names=arg_names)":
        fail(d, "inner function does not bind its arguments positionally in signature order")
    ret = ib[1]
    if not isinstance(ret, ast.Return):
        fail(ret, "inner return")
    if unp(ret.value) == "jnp.prod(jnp.array(args))":
        outer_code = "qprod_scalars args"
    else:
        fail(ret, "inner function is not jnp.prod(jnp.array(args))")
    if unp(r) != f"return productmap({d.name}, variables=arg_names)":
        fail(r, "return is not productmap(<inner>, variables=arg_names)")
    return outer_code


HEADER = """(* GENERATED by translator/py2coq_uf.py from src/lcm/model_functions.py — do not edit. *)
From LCM Require Import Base.Prelude Base.Arr Base.ArrOps Model.Dispatchers Model.QOps.
Local Open Scope Q_scope.
"""


def main():
    src, outdir = Path(sys.argv[1]), Path(sys.argv[2])
    status = 0
    try:
        tree = ast.parse((src / "model_functions.py").read_text())
        lines = translate_u_and_f(find_func(tree, "get_utility_and_feasibility_function"))
        last_lines = translate_u_and_f_last(find_func(tree, "get_utility_and_feasibility_function"))
        outer_code = translate_multiply_weights(find_func(tree, "get_multiply_weights"))
        text = HEADER + f"""
(* get_multiply_weights(stochastic_variables) *)
Definition multiply_weights_arg_names (stochastic_variables : list string) : list string :=
  map (fun var => ("weight_next_" ++ var)%string) stochastic_variables.
Definition multiply_weights_outer (arg_names : list string) : func :=
  mkFunc arg_names (fun args => {outer_code}).
Definition get_multiply_weights (stochastic_variables : list string) : list (string * qarr) -> qarr :=
  let arg_names := multiply_weights_arg_names stochastic_variables in
  productmap (multiply_weights_outer arg_names) arg_names.

(* the function built by get_utility_and_feasibility_function for a period that is not the last *)
Section UAndF.
Variables (P F : Type).
Variable beta_of : P -> Q.                    (* params["beta"] *)
Variable current_u_and_f : list (string * qarr) -> nat -> P -> Q * F.
Variable next_state : list (string * qarr) -> nat -> P -> list (string * qarr).
Variable next_weights : list (string * qarr) -> nat -> P -> list (string * qarr).
Variable scalar_value_function : func.
Variables (state_variables choice_variables stochastic_variables value_function_arguments : list string).
Variable period : nat.

Definition select (names : list string) (kw : list (string * qarr)) : list (string * qarr) :=
  filter (fun kv => mem_str (fst kv) names) kw.

Definition u_and_f (kwargs : list (string * qarr)) (params : P) : Q * F :=
""" + "\n".join(lines) + """

(* the function built for the last period *)
Definition u_and_f_last (kwargs : list (string * qarr)) (params : P) : Q * F :=
""" + "\n".join(last_lines) + "\nEnd UAndF.\n"
        print("ModelFunctions.v: u_and_f (not last period), u_and_f (last period), get_multiply_weights")
    except (TranslationError, SyntaxError, OSError) as e:
        status = 3
        print(f"TRANSLATION-REFUSED ModelFunctions.v: {e}")
        text = f"(* translation refused: {str(e).replace('*)', '* )').replace('(*', '( *')} *)\nDefinition translation_refused : True := 0.\n"
    path = outdir / "ModelFunctions.v"
    if not path.exists() or path.read_text() != text:
        path.write_text(text)
    return status


if __name__ == "__main__":
    sys.exit(main())

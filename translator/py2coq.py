#!/usr/bin/env python3
"""Fail-closed Python-ast -> Gallina translator for lcm's straight-line kernels.

Usage: py2coq.py <repo_src_lcm_dir> <out_dir>      (writes <out_dir>/*.v)

Every construct outside the accepted subset raises TranslationError naming the
construct; the caller treats the affected Gen file as not generated.  The
translation is type directed: each expression is translated to (code, type) with
types  num | int | bool | arr | varr | seg | oseg | oaxes | axes | pyval | rbool |
pairs | numlist | scale.
"""
from __future__ import annotations

import ast
import sys
from fractions import Fraction
from pathlib import Path


class TranslationError(Exception):
    pass


def fail(node, why):
    line = getattr(node, "lineno", "?")
    raise TranslationError(f"line {line}: {why}: {ast.dump(node)[:200]}")


def dotted(node):
    """a.b.c -> 'a.b.c' or None"""
    parts = []
    while isinstance(node, ast.Attribute):
        parts.append(node.attr)
        node = node.value
    if isinstance(node, ast.Name):
        parts.append(node.id)
        return ".".join(reversed(parts))
    return None


class Ctx:
    def __init__(self, domain, env, known_funcs, module_consts):
        self.domain = domain          # 'Q' | 'R' | 'V' (val arrays) | 'P' (pyval validator)
        self.env = dict(env)          # name -> type
        self.known = known_funcs      # name -> (coq name, [param types], ret type)
        self.consts = module_consts   # module level constant name -> (code, type)


# ---------------------------------------------------------------------------------
# numeric rendering
# ---------------------------------------------------------------------------------


def num_const(ctx, value):
    if isinstance(value, bool):
        raise TranslationError("bool constant in numeric context")
    fr = Fraction(value)
    if ctx.domain == "Q":
        return f"({fr.numerator} # {fr.denominator})"
    if ctx.domain == "R":
        if fr.denominator == 1:
            return f"(IZR ({fr.numerator}))"
        return f"(IZR ({fr.numerator}) / IZR {fr.denominator})"
    raise TranslationError("numeric constant outside Q/R domain")


def coerce_num(ctx, code, ty, node):
    if ty == "num":
        return code
    if ty == "int":
        return f"(inject_Z {code})" if ctx.domain == "Q" else f"(IZR {code})"
    fail(node, f"expected a number, got {ty}")


NUM_OPS = {ast.Add: "+", ast.Sub: "-", ast.Mult: "*", ast.Div: "/"}
INT_OPS = {ast.Add: "+", ast.Sub: "-", ast.Mult: "*"}


RESERVED = {"exp", "ln", "in", "fix", "fun", "let", "match", "end", "with", "max", "min",
            "sum", "out", "at", "as", "if", "then", "else", "return", "Type", "Prop", "Set"}


def cn(name):
    """Coq identifier for a Python local name"""
    return name + "_v" if name in RESERVED else name


def tr(ctx, node):
    """translate expression -> (code, type)"""
    if isinstance(node, ast.Name):
        if node.id in ctx.env:
            return cn(node.id), ctx.env[node.id]
        if node.id in ctx.consts:
            return ctx.consts[node.id]
        fail(node, "unknown name")
    if isinstance(node, ast.Constant):
        v = node.value
        if isinstance(v, bool) or v is None or isinstance(v, str):
            fail(node, "unsupported constant")
        if isinstance(v, int):
            if ctx.domain == "P":
                return f"(PInt ({v})%Z)", "pyval"
            return f"({v})%Z", "int"
        if isinstance(v, float):
            return num_const(ctx, v), "num"
        fail(node, "unsupported constant")
    if isinstance(node, ast.UnaryOp):
        if isinstance(node.op, ast.USub):
            c, t = tr(ctx, node.operand)
            if t == "pyval":
                return f"(py_neg {c})", "pyval"
            if t == "num":
                return f"(- {c})", "num"
            if t == "int":
                return f"(- {c})%Z", "int"
            fail(node, f"negation of {t}")
        fail(node, "unsupported unary operator")
    if isinstance(node, ast.BinOp):
        return tr_binop(ctx, node)
    if isinstance(node, ast.Call):
        return tr_call(ctx, node)
    if isinstance(node, ast.Subscript):
        return tr_subscript(ctx, node)
    if isinstance(node, ast.List):
        return tr_list(ctx, node)
    fail(node, "unsupported expression")


def tr_binop(ctx, node):
    a, ta = tr(ctx, node.left)
    b, tb = tr(ctx, node.right)
    op = type(node.op)
    if ta == "int" and tb == "int" and op in INT_OPS:
        return f"({a} {INT_OPS[op]} {b})%Z", "int"
    if ta in ("num", "int") and tb in ("num", "int") and op in NUM_OPS:
        return (
            f"({coerce_num(ctx, a, ta, node)} {NUM_OPS[op]} {coerce_num(ctx, b, tb, node)})",
            "num",
        )
    if ta == "arr" and tb in ("num", "scale") and op is ast.Div:
        return f"(r_div_s {a} {b})", "arr"
    if ta in ("num", "scale") and tb == "arr" and op is ast.Mult:
        return f"(r_s_mul {a} {b})", "arr"
    if ta == "arr" and tb == "arr" and op is ast.Sub:
        return f"(r_sub {a} {b})", "arr"
    if ta == "arr" and tb == "arr" and op is ast.Add:
        return f"(r_add {a} {b})", "arr"
    fail(node, f"unsupported operand types {ta}, {tb}")


def kw(node, name):
    for k in node.keywords:
        if k.arg == name:
            return k.value
    return None


def splat(node):
    s = [k.value for k in node.keywords if k.arg is None]
    return s[0] if len(s) == 1 else None


def tr_segment_call(ctx, node, which):
    data = kw(node, "data")
    sp = splat(node)
    sorted_kw = kw(node, "indices_are_sorted")
    allowed = {"data", "indices_are_sorted", None}
    if data is None or sp is None or {k.arg for k in node.keywords} - allowed or node.args:
        fail(node, f"segment_{which}: expected (data=..., indices_are_sorted=True, **info)")
    if not (isinstance(sorted_kw, ast.Constant) and sorted_kw.value is True):
        fail(node, "segment op: indices_are_sorted must be the constant True")
    d, td = tr(ctx, data)
    s, ts = tr(ctx, sp)
    if ts != "seg":
        fail(node, f"segment op: splat of {ts}")
    if td == "arr":
        return f"(r_segment_{which} {d} (segment_ids {s}) (num_segments {s}))", "arr"
    if td == "varr" and which == "max":
        return f"(segment_max_val {d} (segment_ids {s}) (num_segments {s}))", "varr"
    fail(node, f"segment_{which} of {td}")


def tr_call(ctx, node):
    fname = dotted(node.func)
    # method calls on translated values ------------------------------------------
    if (
        isinstance(node.func, ast.Attribute)
        and node.func.attr in ("astype", "max")
        and dotted(node.func.value) not in ("jnp", "jax", "np")
    ):
        recv, tr_ = tr(ctx, node.func.value)
        if node.func.attr == "astype":
            if len(node.args) != 1 or dotted(node.args[0]) != "jnp.int32" or node.keywords:
                fail(node, "astype: only .astype(jnp.int32)")
            if tr_ == "num" and ctx.domain == "Q":
                return f"(Qastype_int {recv})", "num"
            fail(node, f"astype of {tr_} in domain {ctx.domain}")
        if node.func.attr == "max":
            ax = kw(node, "axis")
            if tr_ == "varr" and ax is not None and not node.args and len(node.keywords) == 1:
                a, ta = tr(ctx, ax)
                if ta != "axes":
                    fail(node, f"max(axis=...) of {ta}")
                return f"(amax_axes {recv} {a})", "varr"
            fail(node, "unsupported .max call")
        fail(node, "unsupported method")
    if fname in ("jnp.log", "jnp.exp"):
        if len(node.args) != 1 or node.keywords:
            fail(node, "log/exp arity")
        a, ta = tr(ctx, node.args[0])
        if ctx.domain != "R":
            fail(node, "log/exp outside the real domain")
        f = {"jnp.log": ("ln", "r_log"), "jnp.exp": ("exp", "r_exp")}[fname]
        if ta in ("num", "int"):
            return f"({f[0]} {coerce_num(ctx, a, ta, node)})", "num"
        if ta == "arr":
            return f"({f[1]} {a})", "arr"
        fail(node, f"log/exp of {ta}")
    if fname == "jnp.floor":
        if len(node.args) != 1 or node.keywords:
            fail(node, "floor arity")
        a, ta = tr(ctx, node.args[0])
        f = {"Q": "Qfloor_q", "R": "Rfloor"}.get(ctx.domain)
        if f is None or ta != "num":
            fail(node, f"floor of {ta}")
        return f"({f} {a})", "num"
    if fname == "jnp.clip":
        if len(node.args) != 3 or node.keywords:
            fail(node, "clip arity")
        xs = [tr(ctx, x) for x in node.args]
        f = {"Q": "Qclip", "R": "Rclip"}.get(ctx.domain)
        if f is None:
            fail(node, "clip outside Q/R")
        args = " ".join(coerce_num(ctx, c, t, node) for c, t in xs)
        return f"({f} {args})", "num"
    if fname in ("jax.ops.segment_max", "segment_max"):
        return tr_segment_call(ctx, node, "max")
    if fname in ("jax.ops.segment_sum", "segment_sum"):
        return tr_segment_call(ctx, node, "sum")
    if fname == "jax.scipy.special.logsumexp":
        ax = kw(node, "axis")
        if len(node.args) != 1 or ax is None or len(node.keywords) != 1:
            fail(node, "logsumexp: expected (x, axis=...)")
        a, ta = tr(ctx, node.args[0])
        x, tx = tr(ctx, ax)
        if ta != "arr" or tx != "axes":
            fail(node, f"logsumexp of {ta} over {tx}")
        return f"(r_logsumexp {a} {x})", "arr"
    if fname == "functools.reduce":
        if len(node.args) != 2 or node.keywords:
            fail(node, "reduce arity")
        op = dotted(node.args[0])
        a, ta = tr(ctx, node.args[1])
        if ta != "numlist" or op not in ("operator.mul", "operator.add") or ctx.domain != "Q":
            fail(node, "reduce: only operator.mul/add over a list of numbers")
        return f"(reduce1 {'Qmult' if op == 'operator.mul' else 'Qplus'} {a})", "num"
    if fname == "isinstance":
        if len(node.args) != 2 or node.keywords:
            fail(node, "isinstance arity")
        a, ta = tr(ctx, node.args[0])
        if ta != "pyval":
            fail(node, f"isinstance of {ta}")
        cls = node.args[1]
        if isinstance(cls, ast.Name) and cls.id == "int":
            return f"(py_isinstance_int {a})", "bool"
        if (
            isinstance(cls, ast.BinOp)
            and isinstance(cls.op, ast.BitOr)
            and {getattr(cls.left, "id", None), getattr(cls.right, "id", None)} == {"int", "float"}
        ):
            return f"(py_isinstance_int_float {a})", "bool"
        fail(node, "isinstance: only int and int | float")
    if fname in ctx.known:
        coqname, ptypes, rtype = ctx.known[fname]
        if node.keywords:
            fail(node, "call of a translated function with keywords")
        if len(node.args) != len(ptypes):
            fail(node, "call of a translated function: arity")
        args = []
        for a, pt in zip(node.args, ptypes):
            c, t = tr(ctx, a)
            if pt == "num":
                c = coerce_num(ctx, c, t, node)
            elif t != pt:
                fail(node, f"argument type {t}, expected {pt}")
            args.append(c)
        return f"({coqname} {' '.join(args)})", rtype
    fail(node, f"call of unknown function {fname}")


def tr_subscript(ctx, node):
    # params["additive_utility_shock"]["scale"]
    if (
        isinstance(node.value, ast.Subscript)
        and isinstance(node.value.value, ast.Name)
        and ctx.env.get(node.value.value.id) == "scale_params"
        and isinstance(node.value.slice, ast.Constant)
        and node.value.slice.value == "additive_utility_shock"
        and isinstance(node.slice, ast.Constant)
        and node.slice.value == "scale"
    ):
        return f"(shock_scale {cn(node.value.value.id)})", "scale"
    # seg["segment_ids"]
    if isinstance(node.slice, ast.Constant) and node.slice.value == "segment_ids":
        s, ts = tr(ctx, node.value)
        if ts == "seg":
            return f"(segment_ids {s})", "ids"
        fail(node, f'["segment_ids"] of {ts}')
    a, ta = tr(ctx, node.value)
    i, ti = tr(ctx, node.slice)
    if ta == "arr" and ti == "ids":
        return f"(r_take {a} {i})", "arr"
    fail(node, f"unsupported subscript {ta}[{ti}]")


def tr_list(ctx, node):
    """[(a, b), (c, d)] -> list of pairs of numbers"""
    items = []
    for e in node.elts:
        if not (isinstance(e, ast.Tuple) and len(e.elts) == 2):
            fail(node, "list literal: only lists of 2-tuples")
        cs = []
        for x in e.elts:
            c, t = tr(ctx, x)
            cs.append(coerce_num(ctx, c, t, node))
        items.append(f"({cs[0]}, {cs[1]})")
    return "[" + "; ".join(items) + "]", "pairs"


# ---------------------------------------------------------------------------------
# monadic boolean conditions (validator domain 'P')
# ---------------------------------------------------------------------------------

CMP = {ast.Lt: "py_lt", ast.LtE: "py_le", ast.Gt: "py_gt", ast.GtE: "py_ge"}


def tr_cond(ctx, node):
    """expression -> code of type res bool"""
    if isinstance(node, ast.BoolOp):
        parts = [tr_cond(ctx, v) for v in node.values]
        code = parts[-1]
        for p in reversed(parts[:-1]):
            if isinstance(node.op, ast.And):
                code = f"(rbind {p} (fun b_0 => if b_0 then {code} else ROk false))"
            else:
                code = f"(rbind {p} (fun b_0 => if b_0 then ROk true else {code}))"
        return code
    if isinstance(node, ast.UnaryOp) and isinstance(node.op, ast.Not):
        return f"(rbind {tr_cond(ctx, node.operand)} (fun b_0 => ROk (negb b_0)))"
    if isinstance(node, ast.Compare):
        operands = [node.left, *node.comparators]
        cs = []
        for x in operands:
            c, t = tr(ctx, x)
            if t != "pyval":
                fail(node, f"comparison of {t}")
            cs.append(c)
        parts = []
        for op, a, b in zip(node.ops, cs, cs[1:]):
            if type(op) not in CMP:
                fail(node, "unsupported comparison operator")
            parts.append(f"({CMP[type(op)]} {a} {b})")
        code = parts[-1]
        for p in reversed(parts[:-1]):
            code = f"(rbind {p} (fun b_0 => if b_0 then {code} else ROk false))"
        return code
    c, t = tr(ctx, node)
    if t == "bool":
        return f"(ROk {c})"
    if t == "msgs":
        return f"(ROk (py_truthy_list {c}))"
    fail(node, f"condition of type {t}")


# ---------------------------------------------------------------------------------
# statements
# ---------------------------------------------------------------------------------


def is_docstring(stmt):
    return (
        isinstance(stmt, ast.Expr)
        and isinstance(stmt.value, ast.Constant)
        and isinstance(stmt.value.value, str)
    )


def tr_body(ctx, stmts):
    """straight-line body ending in return -> (code, type)"""
    lines = []
    for i, st in enumerate(stmts):
        if is_docstring(st):
            continue
        if isinstance(st, ast.Assign):
            if len(st.targets) != 1 or not isinstance(st.targets[0], ast.Name):
                fail(st, "only single-name assignment")
            c, t = tr(ctx, st.value)
            name = st.targets[0].id
            ctx.env[name] = t
            lines.append(f"let {cn(name)} := {c} in")
            continue
        if isinstance(st, ast.If):
            # if <x> is not None: <y> = <expr>
            t_ = st.test
            ok = (
                isinstance(t_, ast.Compare)
                and len(t_.ops) == 1
                and isinstance(t_.ops[0], ast.IsNot)
                and isinstance(t_.left, ast.Name)
                and isinstance(t_.comparators[0], ast.Constant)
                and t_.comparators[0].value is None
                and not st.orelse
                and len(st.body) == 1
                and isinstance(st.body[0], ast.Assign)
                and len(st.body[0].targets) == 1
                and isinstance(st.body[0].targets[0], ast.Name)
            )
            if not ok:
                fail(st, "only `if x is not None: y = e`")
            x = t_.left.id
            tx = ctx.env.get(x)
            inner = {"oaxes": "axes", "oseg": "seg"}.get(tx)
            if inner is None:
                fail(st, f"`is not None` test of {tx}")
            y = st.body[0].targets[0].id
            if y not in ctx.env:
                fail(st, "conditional assignment to a new name")
            sub = Ctx(ctx.domain, ctx.env, ctx.known, ctx.consts)
            sub.env[x] = inner
            c, t = tr(sub, st.body[0].value)
            if t != ctx.env[y]:
                fail(st, f"conditional assignment changes type {ctx.env[y]} -> {t}")
            lines.append(
                f"let {cn(y)} := match {cn(x)} with Some {cn(x)} => {c} | None => {cn(y)} end in"
            )
            continue
        if isinstance(st, ast.Return):
            if i != len(stmts) - 1 or st.value is None:
                fail(st, "return must be the last statement and return a value")
            c, t = tr(ctx, st.value)
            lines.append(c)
            return "\n  ".join(lines), t
        fail(st, "unsupported statement")
    raise TranslationError("function body does not end in return")


def tr_validator_body(ctx, stmts):
    """_validate_continuous_grid-style body -> code of type res bool (True = accepted)"""
    lines = []
    closers = 0
    n_msg = 0
    msgs = None
    stmts = [s for s in stmts if not is_docstring(s)]
    for i, st in enumerate(stmts):
        last = i == len(stmts) - 1
        if (
            isinstance(st, ast.Assign)
            and len(st.targets) == 1
            and isinstance(st.targets[0], ast.Name)
            and isinstance(st.value, ast.List)
            and not st.value.elts
        ):
            if msgs is not None:
                fail(st, "second message list")
            msgs = st.targets[0].id
            ctx.env[msgs] = "msgs"
            lines.append(f"let {msgs} := @nil nat in")
            continue
        if isinstance(st, ast.Assign):
            if len(st.targets) != 1 or not isinstance(st.targets[0], ast.Name):
                fail(st, "only single-name assignment")
            c, t = tr(ctx, st.value)
            ctx.env[st.targets[0].id] = t
            lines.append(f"let {st.targets[0].id} := {c} in")
            continue
        if isinstance(st, ast.If) and not st.orelse:
            body = st.body
            # if cond: msgs.append(...)
            if (
                len(body) == 1
                and isinstance(body[0], ast.Expr)
                and isinstance(body[0].value, ast.Call)
                and dotted(body[0].value.func) == f"{msgs}.append"
                and not last
            ):
                cond = tr_cond(ctx, st.test)
                lines.append(
                    f"rbind {cond} (fun c_0 =>\n  let {msgs} := "
                    f"if c_0 then ({msgs} ++ [{n_msg}%nat])%list else {msgs} in"
                )
                closers += 1
                n_msg += 1
                continue
            # if msgs: msg = format_messages(msgs); raise GridInitializationError(msg)
            if (
                last
                and isinstance(st.test, ast.Name)
                and st.test.id == msgs
                and isinstance(body[-1], ast.Raise)
                and isinstance(body[-1].exc, ast.Call)
                and dotted(body[-1].exc.func) == "GridInitializationError"
                and all(isinstance(b, (ast.Assign, ast.Raise)) for b in body)
            ):
                lines.append(f"ROk (negb (py_truthy_list {msgs}))")
                return "\n  ".join(lines) + ")" * closers, n_msg
        fail(st, "unsupported statement in validator")
    raise TranslationError("validator does not end in `if error_messages: raise`")


# ---------------------------------------------------------------------------------
# targets
# ---------------------------------------------------------------------------------

COQ_TYPES = {
    ("Q", "num"): "Q", ("R", "num"): "R", ("Q", "int"): "Z", ("R", "int"): "Z",
    ("Q", "pairs"): "list (Q * Q)", ("Q", "numlist"): "list Q",
    ("R", "arr"): "rarr", ("R", "scale"): "R", ("R", "scale_params"): "R",
    ("R", "seg"): "seginfo", ("R", "oseg"): "option seginfo",
    ("R", "oaxes"): "option (list nat)", ("R", "axes"): "list nat",
    ("V", "varr"): "arr val", ("V", "seg"): "seginfo", ("V", "oseg"): "option seginfo",
    ("V", "oaxes"): "option (list nat)", ("V", "unused"): "unit",
    ("P", "pyval"): "pyval", ("P", "bool"): "bool",
}


def find_func(tree, name):
    for n in tree.body:
        if isinstance(n, ast.FunctionDef) and n.name == name:
            return n
    raise TranslationError(f"function {name} not found")


def params_of(fn, spec):
    a = fn.args
    if a.vararg or a.kwarg or a.posonlyargs:
        fail(fn, "varargs / positional-only parameters")
    names = [x.arg for x in a.args] + [x.arg for x in a.kwonlyargs]
    if names != list(spec):
        raise TranslationError(
            f"{fn.name}: parameters {names} differ from the expected {list(spec)}"
        )
    # defaults: only constants False on kw-only bools
    for dflt in list(a.defaults) + [d for d in a.kw_defaults if d is not None]:
        if not (isinstance(dflt, ast.Constant) and dflt.value in (False, None)):
            fail(fn, "unsupported default value")
    return names


def emit_function(tree, pyname, coqname, domain, spec, known, consts, validator=False):
    fn = find_func(tree, pyname)
    if fn.decorator_list:
        fail(fn, "decorated function")
    names = params_of(fn, spec)
    ctx = Ctx(domain, spec, known, consts)
    binders = " ".join(f"({cn(n)} : {COQ_TYPES[(domain, spec[n])]})" for n in names)
    if validator:
        body, n_msg = tr_validator_body(ctx, fn.body)
        text = (
            f"Definition {coqname} {binders} : res bool :=\n  {body}.\n"
            f"Definition {coqname}_n_messages : nat := {n_msg}%nat.\n"
        )
        return text, "rbool"
    body, rtype = tr_body(ctx, fn.body)
    return f"Definition {coqname} {binders} : {COQ_TYPES[(domain, rtype)]} :=\n  {body}.\n", rtype


HEADER = "(* GENERATED by /verif/translator/py2coq.py from {src} -- do not edit *)\n"


def module_consts_grids(tree):
    """_FLOAT_MAX = sys.float_info.max"""
    consts = {}
    for n in tree.body:
        if (
            isinstance(n, ast.Assign)
            and len(n.targets) == 1
            and isinstance(n.targets[0], ast.Name)
            and dotted(n.value) == "sys.float_info.max"
        ):
            consts[n.targets[0].id] = ("py_float_max", "pyval")
    return consts


def generate(src: Path):
    out = {}
    gh = ast.parse((src / "grid_helpers.py").read_text())
    nd = ast.parse((src / "ndimage.py").read_text())
    gr = ast.parse((src / "grids.py").read_text())
    dp = ast.parse((src / "discrete_problem.py").read_text())

    coord_spec = {"value": "num", "start": "num", "stop": "num", "n_points": "int"}

    def attempt(fname, builder):
        try:
            out[fname] = builder()
        except TranslationError as e:
            out[fname] = e

    # --- Gen/GridHelpersQ.v --------------------------------------------------------
    def b1():
        t, _ = emit_function(gh, "get_linspace_coordinate", "get_linspace_coordinate",
                             "Q", coord_spec, {}, {})
        return (HEADER.format(src="src/lcm/grid_helpers.py")
                + "From LCM Require Import Base.Prelude Base.QKernel.\n"
                + "Local Open Scope Q_scope.\n\n" + t)
    attempt("GridHelpersQ.v", b1)

    # --- Gen/GridHelpersR.v --------------------------------------------------------
    def b2():
        t1, r1 = emit_function(gh, "get_linspace_coordinate", "get_linspace_coordinate",
                               "R", coord_spec, {}, {})
        known = {"get_linspace_coordinate":
                 ("get_linspace_coordinate", ["num", "num", "num", "int"], r1)}
        t2, _ = emit_function(gh, "get_logspace_coordinate", "get_logspace_coordinate",
                              "R", coord_spec, known, {})
        return (HEADER.format(src="src/lcm/grid_helpers.py")
                + "From Coq Require Import Reals.\n"
                + "From LCM Require Import Base.Prelude Base.RBase.\n"
                + "Local Open Scope R_scope.\n\n" + t1 + "\n" + t2)
    attempt("GridHelpersR.v", b2)

    # --- Gen/NdimageKernel.v -------------------------------------------------------
    def b3():
        t1, _ = emit_function(nd, "_compute_indices_and_weights", "compute_indices_and_weights",
                              "Q", {"coordinate": "num", "input_size": "int"}, {}, {})
        t2, _ = emit_function(nd, "_multiply_all", "multiply_all", "Q", {"arrs": "numlist"}, {}, {})
        t3, _ = emit_function(nd, "_sum_all", "sum_all", "Q", {"arrs": "numlist"}, {}, {})
        return (HEADER.format(src="src/lcm/ndimage.py")
                + "From LCM Require Import Base.Prelude Base.QKernel.\n"
                + "Local Open Scope Q_scope.\n\n" + "\n".join([t1, t2, t3]))
    attempt("NdimageKernel.v", b3)

    # --- Gen/GridValidate.v --------------------------------------------------------
    def b4():
        consts = module_consts_grids(gr)
        t, _ = emit_function(
            gr, "_validate_continuous_grid", "validate_continuous_grid", "P",
            {"start": "pyval", "stop": "pyval", "n_points": "pyval", "positive_start": "bool"},
            {}, consts, validator=True)
        return (HEADER.format(src="src/lcm/grids.py")
                + "From LCM Require Import Base.Prelude Base.PyVal.\n\n" + t)
    attempt("GridValidate.v", b4)

    # --- Gen/SegLSE.v ---------------------------------------------------------------
    def b5():
        t1, r1 = emit_function(dp, "_segment_logsumexp", "segment_logsumexp", "R",
                               {"a": "arr", "segment_info": "seg"}, {}, {})
        known = {"_segment_logsumexp": ("segment_logsumexp", ["arr", "seg"], r1)}
        t2, r2 = emit_function(dp, "_segment_extreme_value_emax_over_first_axis",
                               "segment_extreme_value_emax_over_first_axis", "R",
                               {"a": "arr", "scale": "scale", "segment_info": "seg"}, known, {})
        known["_segment_extreme_value_emax_over_first_axis"] = (
            "segment_extreme_value_emax_over_first_axis", ["arr", "scale", "seg"], r2)
        t3, _ = emit_function(dp, "_calculate_emax_extreme_value_shocks",
                              "calculate_emax_extreme_value_shocks", "R",
                              {"values": "arr", "choice_axes": "oaxes",
                               "choice_segments": "oseg", "params": "scale_params"}, known, {})
        return (HEADER.format(src="src/lcm/discrete_problem.py")
                + "From Coq Require Import Reals.\n"
                + "From LCM Require Import Base.Prelude Base.Arr Base.ArrOps Base.RBase.\n"
                + "Local Open Scope R_scope.\n\n"
                + "Definition shock_scale (params : R) : R := params.\n\n"
                + "\n".join([t1, t2, t3]))
    attempt("SegLSE.v", b5)

    # --- Gen/DiscreteNoShocks.v -----------------------------------------------------
    def b6():
        t, _ = emit_function(dp, "_solve_discrete_problem_no_shocks",
                             "solve_discrete_problem_no_shocks", "V",
                             {"cc_values": "varr", "choice_axes": "oaxes",
                              "choice_segments": "oseg", "params": "unused"}, {}, {})
        return (HEADER.format(src="src/lcm/discrete_problem.py")
                + "From LCM Require Import Base.Prelude Base.Arr Base.ArrOps.\n\n" + t)
    attempt("DiscreteNoShocks.v", b6)
    return out


def main(argv):
    src, outdir = Path(argv[1]), Path(argv[2])
    outdir.mkdir(parents=True, exist_ok=True)
    res = generate(src)
    status = 0
    for fname, text in res.items():
        path = outdir / fname
        if isinstance(text, TranslationError):
            status = 3
            print(f"TRANSLATION-REFUSED {fname}: {text}")
            # a file that cannot compile: dependants are then not established
            text = f"(* translation refused: {str(text).replace('*)', '* )')} *)\nDefinition translation_refused : True := 0.\n"
        old = path.read_text() if path.exists() else None
        if old != text:
            path.write_text(text)
    return status


if __name__ == "__main__":
    sys.exit(main(sys.argv))

#!/usr/bin/env python3
"""Fail-closed Python-ast -> Gallina translator for lcm/state_space.py:create_indexers_and_segments and
create_combination_grid (the numpy array programs that turn the filter mask into the stored
combinations, the state indexer and the choice segments).

Emits Gen/IndexersGen.v over the numpy vocabulary of Model/StateSpace.v (any over the trailing choice
axes, count_nonzero, scatter of arange into a full(-1) array at the True positions, boolean row
selection, per-row counts, np.repeat of arange, meshgrid('ij') + boolean selection).  Statement by
statement; the unused second return value (the state-choice indexer) is translated as dead code and
dropped."""
from __future__ import annotations

import ast
import sys
from pathlib import Path

sys.path.insert(0, str(Path(__file__).resolve().parent))
from py2coq import TranslationError, fail, is_docstring, find_func  # noqa: E402


def unp(n):
    return ast.unparse(n)


def main():
    src, outdir = Path(sys.argv[1]), Path(sys.argv[2])
    status = 0
    try:
        tree = ast.parse((src / "state_space.py").read_text())
        fn = find_func(tree, "create_indexers_and_segments")
        if [a.arg for a in fn.args.args] != ["mask", "n_sparse_states", "fill_value"] or unp(fn.args.defaults[0]) != "-1":
            fail(fn, "signature of create_indexers_and_segments")
        s = [unp(x) for x in fn.body if not is_docstring(x)]
        table = [
            ("mask = np.array(mask)", None),
            ("choice_axes = tuple(range(n_sparse_states, mask.ndim))", None),     # the trailing axes
            ("is_feasible_state = mask.any(axis=choice_axes)", "let is_feasible_state := StateSpace.is_feasible_state mask n_sparse_states in"),
            ("n_feasible_states = np.count_nonzero(is_feasible_state)", "let n_feasible_states := count_true is_feasible_state in"),
            ("state_indexer = np.full(is_feasible_state.shape, fill_value)", None),
            ("state_indexer[is_feasible_state] = np.arange(n_feasible_states)",
             "let state_indexer := mkArr (state_shape_of mask n_sparse_states) (ranks is_feasible_state 0) in"),
            ("reduced_mask = mask[is_feasible_state]", None),
            ("counter = reduced_mask.cumsum().reshape(reduced_mask.shape) - 1", None),
            ("state_choice_indexer = np.full(reduced_mask.shape, fill_value)", None),
            ("state_choice_indexer[reduced_mask] = counter[reduced_mask]", None),
            ("new_choice_axes = tuple(range(1, mask.ndim - n_sparse_states + 1))", None),
            ("n_choices = np.count_nonzero(reduced_mask, new_choice_axes)", "let n_choices := StateSpace.n_choices mask n_sparse_states in"),
            ("segments = np.repeat(np.arange(n_feasible_states), n_choices)", "let segments := repeat_each 0 n_choices in"),
            ("return (jnp.array(state_indexer), jnp.array(state_choice_indexer), {'segment_ids': jnp.array(segments), 'num_segments': n_feasible_states})",
             "mkIdx state_indexer segments n_feasible_states."),
        ]
        if s != [t[0] for t in table]:
            for k, (a, b) in enumerate(zip(s, [t[0] for t in table])):
                if a != b:
                    fail(fn, f"statement {k} changed: {a[:100]}")
            fail(fn, "number of statements")
        lines = ["  " + t[1] for t in table if t[1]]
        fn2 = find_func(tree, "create_combination_grid")
        s2 = [unp(x) for x in fn2.body if not is_docstring(x)]
        want2 = ["_subset = list(grids) if subset is None else subset",
                 "_axis_names = [name for name in grids if name in _subset]",
                 "_grids = {name: jnp.array(grids[name]) for name in _axis_names}",
                 "_mask_np = np.array(_combine_masks(masks))",
                 "_all_combis = jnp.meshgrid(*_grids.values(), indexing='ij')",
                 "return {name: arr[_mask_np] for name, arr in zip(_axis_names, _all_combis, strict=True)}"]
        if s2 != want2:
            fail(fn2, "create_combination_grid: " + " | ".join(x[:60] for x in s2))
        # ---- create_filter_mask: which axes, in which order ------------------------------------------------
        fn3 = find_func(tree, "create_filter_mask")
        s3 = [unp(x) for x in fn3.body if not is_docstring(x)]
        want3 = ["if subset is None:\n    subset = model.variable_info.query('is_sparse').index.tolist()",
                 "fixed_inputs = {} if fixed_inputs is None else fixed_inputs",
                 "_axis_names = [name for name in model.grids if name in subset]",
                 "_filter_names = model.function_info.query('is_filter').index.tolist()",
                 "_scalar_filter = concatenate_functions(functions=model.functions, targets=_filter_names, aggregator=jnp.logical_and)",
                 "_filter = productmap(_scalar_filter, variables=_axis_names)",
                 "_valid_args = set(inspect.signature(_filter).parameters.keys())",
                 "_potential_kwargs = {**model.grids, **fixed_inputs}",
                 "kwargs = {k: v for k, v in _potential_kwargs.items() if k in _valid_args}",
                 "if jit_filter:\n    _filter = jax.jit(_filter)",
                 "return _filter(**kwargs)"]
        if s3 != want3:
            for k, (a, b) in enumerate(zip(s3, want3)):
                if a != b:
                    fail(fn3, f"create_filter_mask: statement {k} changed: {a[:100]}")
            fail(fn3, "create_filter_mask: number of statements")
        text = """(* GENERATED by translator/py2coq_idx.py from src/lcm/state_space.py — do not edit. *)
From LCM Require Import Base.Prelude Base.Arr Base.ArrOps Model.StateSpace.
Local Open Scope nat_scope.

(* create_indexers_and_segments(mask, n_sparse_states, fill_value=-1) *)
Definition gen_create_indexers_and_segments (mask : arr bool) (n_sparse_states : nat) : indexer_result :=
""" + "\n".join(lines) + """

(* create_combination_grid(grids, masks, subset): the grids of the subset in the order of `grids`, one mask;
   meshgrid(indexing="ij")[j][idx] = grids[j][idx[j]]; x[mask] keeps the True positions in row-major order *)
Definition gen_create_combination_grid (grids : list (list Q)) (mask : arr bool) : list (list Q) :=
  let all_combis := map (fun jg : nat * list Q => fun idx : list nat => nth (nth (fst jg) idx 0) (snd jg) 0%Q)
                        (combine (seq 0 (length grids)) grids) in
  map (fun arr => map arr (true_positions mask)) all_combis.

(* the axes of the filter mask (create_filter_mask: the conjunction of all filters, product-mapped over
   `_axis_names`, evaluated at the grids and the fixed inputs) and the axes of the meshgrid that
   create_combination_grid indexes with that mask: both `[name for name in <grids> if name in <subset>]` *)
Definition gen_filter_mask_axis_names (grid_names subset : list string) : list string :=
  filter (fun name => mem_str name subset) grid_names.
Definition gen_combination_grid_axis_names (grid_names subset : list string) : list string :=
  filter (fun name => mem_str name subset) grid_names.
"""
        print("IndexersGen.v: create_indexers_and_segments, create_combination_grid")
    except (TranslationError, SyntaxError, OSError) as e:
        status = 3
        print(f"TRANSLATION-REFUSED IndexersGen.v: {e}")
        text = f"(* translation refused: {str(e).replace('*)', '* )').replace('(*', '( *')} *)\nDefinition translation_refused : True := 0.\n"
    path = outdir / "IndexersGen.v"
    if not path.exists() or path.read_text() != text:
        path.write_text(text)
    return status


if __name__ == "__main__":
    sys.exit(main())

#!/usr/bin/env python3
"""Fail-closed Python-ast -> Gallina translator for the index kernels of lcm/simulate.py that turn
arg-max positions into reported choices: retrieve_non_sparse_choices, filter_ccv_policy,
determine_discrete_dense_choice_axes and the inner _calculate_discrete_argmax.

Emits Gen/SimulateKernels.v over Base/Arr.v (`unravel` = jnp.unravel_index for in-range positions),
Gen/Argmax.v (argmax, segment_argmax) and Gen/ChoiceAxes.v (varinfo, pandas queries)."""
from __future__ import annotations

import ast
import sys
from pathlib import Path

sys.path.insert(0, str(Path(__file__).resolve().parent))
from py2coq import TranslationError, fail, is_docstring, find_func  # noqa: E402
from py2coq_axes import query  # noqa: E402


def unp(n):
    return ast.unparse(n)


def body_of(fn):
    return [s for s in fn.body if not is_docstring(s)]


def main():
    src, outdir = Path(sys.argv[1]), Path(sys.argv[2])
    status = 0
    try:
        tree = ast.parse((src / "simulate.py").read_text())
        # ---- retrieve_non_sparse_choices -------------------------------------------------------
        fn = find_func(tree, "retrieve_non_sparse_choices")
        if [a.arg for a in fn.args.args] != ["indices", "grids", "grid_shape"]:
            fail(fn, "signature of retrieve_non_sparse_choices")
        b = body_of(fn)
        if not (len(b) == 2 and isinstance(b[0], ast.If) and unp(b[0].test) == "indices is None" and unp(b[1]) == "return out"):
            fail(fn, "shape of retrieve_non_sparse_choices")
        if [unp(s) for s in b[0].body] != ["out = {}"]:
            fail(b[0], "the None branch")
        eb = [unp(s) for s in b[0].orelse]
        if eb != ["indices = vmapped_unravel_index(indices, grid_shape)",
                  "out = {name: grid[index] for (name, grid), index in zip(grids.items(), indices, strict=True)}"]:
            fail(b[0], "the else branch: " + " | ".join(eb))
        vu = [unp(s) for s in tree.body if isinstance(s, ast.Assign) and unp(s.targets[0]) == "vmapped_unravel_index"]
        if vu != ["vmapped_unravel_index = vmap(jnp.unravel_index, in_axes=(0, None))"]:
            fail(fn, "vmapped_unravel_index: " + " | ".join(vu))
        # ---- filter_ccv_policy ---------------------------------------------------------------------
        fn = find_func(tree, "filter_ccv_policy")
        if [unp(d) for d in fn.decorator_list] != ["partial(vmap_1d, variables=['ccv_policy', 'dense_argmax'])"]:
            fail(fn, "decorator of filter_ccv_policy")
        if [a.arg for a in fn.args.args] != ["ccv_policy", "dense_argmax", "dense_vars_grid_shape"]:
            fail(fn, "signature of filter_ccv_policy")
        b = body_of(fn)
        if not (len(b) == 2 and isinstance(b[0], ast.If) and unp(b[0].test) == "dense_argmax is None" and unp(b[1]) == "return out"):
            fail(fn, "shape of filter_ccv_policy")
        if [unp(s) for s in b[0].body] != ["out = ccv_policy"] or [unp(s) for s in b[0].orelse] != [
                "indices = jnp.unravel_index(dense_argmax, shape=dense_vars_grid_shape)", "out = ccv_policy[indices]"]:
            fail(b[0], "branches of filter_ccv_policy")
        # ---- determine_discrete_dense_choice_axes ------------------------------------------------------
        fn = find_func(tree, "determine_discrete_dense_choice_axes")
        b = body_of(fn)
        s = [unp(x) for x in b]
        if len(b) != 4:
            fail(fn, "determine_discrete_dense_choice_axes: number of statements")
        q1 = b[0].value
        if not (unp(b[0].targets[0]) == "discrete_dense_choice_vars" and unp(q1.func).endswith(".index.tolist")
                and unp(q1.func.value.value.func) == "variable_info.query"):
            fail(b[0], "discrete_dense_choice_vars")
        ddc = f"map vname (filter {query(q1.func.value.value.args[0].value, b[0])} variable_info)"
        if s[1] != "choice_vars = set(variable_info.query('is_choice').index.tolist())":
            fail(b[1], "choice_vars")
        if s[2] != "choice_indices = [i + 1 for i, ax in enumerate(discrete_dense_choice_vars) if ax in choice_vars]":
            fail(b[2], "choice_indices (positions shifted by the leading data axis)")
        if s[3] != "return None if not choice_indices else tuple(choice_indices)":
            fail(b[3], "return")
        # ---- _calculate_discrete_argmax ---------------------------------------------------------------------
        fn = find_func(tree, "get_discrete_policy_calculator")
        b = body_of(fn)
        if not (len(b) == 3 and unp(b[0]) == "choice_axes = determine_discrete_dense_choice_axes(variable_info)"
                and isinstance(b[1], ast.FunctionDef) and b[1].name == "_calculate_discrete_argmax"
                and unp(b[2]) == "return partial(_calculate_discrete_argmax, choice_axes=choice_axes)"):
            fail(fn, "get_discrete_policy_calculator")
        ib = [unp(x) for x in body_of(b[1])]
        want = ["_max = values",
                "if choice_axes is not None:\n    dense_argmax, _max = argmax(_max, axis=choice_axes)\nelse:\n    dense_argmax = None",
                "if choice_segments is not None:\n    sparse_argmax, _max = segment_argmax(_max, **choice_segments)\nelse:\n    sparse_argmax = None",
                "return (dense_argmax, sparse_argmax, _max)"]
        if ib != want:
            fail(b[1], "_calculate_discrete_argmax: " + " | ".join(x[:60] for x in ib))
        text = f"""(* GENERATED by translator/py2coq_simk.py from src/lcm/simulate.py — do not edit. *)
From LCM Require Import Base.Prelude Base.Arr Base.ArrOps Gen.Argmax Gen.ChoiceAxes.
Local Open Scope Q_scope.

(* retrieve_non_sparse_choices(indices, grids, grid_shape): indices holds one flat position per row;
   vmapped_unravel_index = vmap(jnp.unravel_index, in_axes=(0, None)); grid[index] per variable *)
Definition retrieve_non_sparse_choices (indices : option (list nat)) (grids : list (string * list Q)) (grid_shape : list nat)
  : list (string * list Q) :=
  match indices with
  | None => []
  | Some indices =>
      let indices := map (unravel grid_shape) indices in
      map (fun gj : (string * list Q) * nat =>
             (fst (fst gj), map (fun idx => nth (nth (snd gj) idx 0%nat) (snd (fst gj)) 0) indices))
          (combine grids (seq 0 (length grids)))
  end.

(* filter_ccv_policy for ONE row (the function is vmap_1d-mapped over ccv_policy and dense_argmax) *)
Definition filter_ccv_policy_row (ccv_policy : arr nat) (dense_argmax : option nat) (dense_vars_grid_shape : list nat) : arr nat :=
  match dense_argmax with
  | None => ccv_policy
  | Some dense_argmax =>
      let indices := unravel dense_vars_grid_shape dense_argmax in
      subarr 0%nat ccv_policy indices
  end.

(* determine_discrete_dense_choice_axes: positions shifted by one (axis 0 is the data axis) *)
Definition determine_discrete_dense_choice_axes (variable_info : list varinfo) : option (list nat) :=
  let discrete_dense_choice_vars := {ddc} in
  let choice_vars := map vname (filter (fun v => is_choice v) variable_info) in
  let choice_indices := map (fun iax : nat * string => (fst iax + 1)%nat)
                            (filter (fun iax => mem_str (snd iax) choice_vars)
                                    (combine (seq 0 (length discrete_dense_choice_vars)) discrete_dense_choice_vars)) in
  match choice_indices with [] => None | _ => Some choice_indices end.

(* _calculate_discrete_argmax(values, choice_axes, choice_segments) *)
Definition calculate_discrete_argmax (values : arr val) (choice_axes : option (list nat)) (choice_segments : option (list nat * nat))
  : option (arr nat) * option (arr nat) * arr val :=
  let _max := values in
  let '(dense_argmax, _max) :=
    match choice_axes with
    | Some axes => let r := argmax _max (Some axes) None None in (Some (fst r), snd r)
    | None => (None, _max)
    end in
  let '(sparse_argmax, _max) :=
    match choice_segments with
    | Some seg => let r := segment_argmax _max (fst seg) (snd seg) in (Some (fst r), snd r)
    | None => (None, _max)
    end in
  (dense_argmax, sparse_argmax, _max).

(* get_discrete_policy_calculator(variable_info) = partial(_calculate_discrete_argmax, choice_axes=determine_discrete_dense_choice_axes(variable_info)) *)
Definition get_discrete_policy_calculator (variable_info : list varinfo) (values : arr val) (choice_segments : option (list nat * nat))
  : option (arr nat) * option (arr nat) * arr val :=
  calculate_discrete_argmax values (determine_discrete_dense_choice_axes variable_info) choice_segments.
"""
        print("SimulateKernels.v: retrieve_non_sparse_choices, filter_ccv_policy, determine_discrete_dense_choice_axes, _calculate_discrete_argmax")
    except (TranslationError, SyntaxError, OSError, IndexError, AttributeError) as e:
        status = 3
        print(f"TRANSLATION-REFUSED SimulateKernels.v: {e}")
        text = f"(* translation refused: {str(e).replace('*)', '* )').replace('(*', '( *')} *)\nDefinition translation_refused : True := 0.\n"
    path = outdir / "SimulateKernels.v"
    if not path.exists() or path.read_text() != text:
        path.write_text(text)
    return status


if __name__ == "__main__":
    sys.exit(main())

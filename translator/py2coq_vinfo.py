#!/usr/bin/env python3
"""Fail-closed Python-ast -> Gallina translator for lcm/input_processing/util.py: get_variable_info (which variable is a state,
continuous, filter-restricted ..., and — the part the axis layout rests on — the ORDER of the rows).

Emits Gen/VariableInfo.v over Model/PyVocab.v: the DataFrame `info` is the list of its rows (records `varinfo` of
Gen/ChoiceAxes.v), a column assigned from a list over `variables` or from other columns is a function of the variable;
`model.states | model.choices` is dict union (`dict_set`); `info.query("...")` is translated by py2coq_axes.query;
`info.loc[order]` looks rows up by name.  dags' get_ancestors enters through its results (auxiliary_variables,
filtered_variables), function_info through `is_stochastic_next`.  Parametric: the right-hand side of every column (negation of a
column, membership in the states / choices / a name list), the order of the dict union, every query of `order`."""
from __future__ import annotations

import ast
import sys
from pathlib import Path

sys.path.insert(0, str(Path(__file__).resolve().parent))
from py2coq import TranslationError, fail, is_docstring, find_func  # noqa: E402
from py2coq_axes import query  # noqa: E402

COLS = ["is_state", "is_choice", "is_continuous", "is_discrete", "is_stochastic", "is_auxiliary", "is_sparse", "is_dense"]


def unp(n):
    return ast.unparse(n)


def col_expr(rhs, defined, st):
    s = unp(rhs)
    if isinstance(rhs, ast.UnaryOp) and isinstance(rhs.op, ast.Invert) and isinstance(rhs.operand, ast.Subscript) \
            and unp(rhs.operand.value) == "info" and isinstance(rhs.operand.slice, ast.Constant):
        c = rhs.operand.slice.value
        if c not in defined:
            fail(st, f"column {c} used before it is defined")
        return f"negb (c_{c} var)"
    if s == "info.index.isin(model.states)":
        return "mem_str (fst var) (map fst states)"
    if s == "info.index.isin(model.choices)":
        return "mem_str (fst var) (map fst choices)"
    if s == "[isinstance(spec, ContinuousGrid) for spec in variables.values()]":
        return "snd var"
    if s == "[var in model.states and function_info.loc[f'next_{var}', 'is_stochastic_next'] for var in variables]":
        return 'mem_str (fst var) (map fst states) && is_stochastic_next ("next_" ++ fst var)'
    for name in ("auxiliary_variables", "filtered_variables"):
        if s == f"[var in {name} for var in variables]":
            return f"mem_str (fst var) {name}"
    fail(st, "right-hand side of a column: " + s[:100])


def order_piece(node, st):
    """info.query('...').index.tolist()"""
    if isinstance(node, ast.Call) and unp(node.func).endswith(".index.tolist") and not node.args:
        q = node.func.value.value
        if isinstance(q, ast.Call) and unp(q.func) == "info.query" and len(q.args) == 1 and isinstance(q.args[0], ast.Constant):
            return f"map vname (filter {query(q.args[0].value, st)} info)"
    fail(st, "expected info.query('...').index.tolist()")


def main():
    src, outdir = Path(sys.argv[1]), Path(sys.argv[2])
    status = 0
    try:
        tree = ast.parse((src / "input_processing" / "util.py").read_text())
        fn = find_func(tree, "get_variable_info")
        if [a.arg for a in fn.args.args] != ["model"]:
            fail(fn, "signature of get_variable_info")
        body = [x for x in fn.body if not is_docstring(x)]
        k = 0

        def nxt():
            nonlocal k
            if k >= len(body):
                fail(fn, "get_variable_info ends early")
            k += 1
            return body[k - 1]
        st = nxt()
        if unp(st) != "function_info = get_function_info(model)":
            fail(st, "function_info")
        st = nxt()
        u = unp(st)
        union = {"variables = model.states | model.choices": ("states", "choices"), "variables = model.choices | model.states": ("choices", "states")}
        if u not in union:
            fail(st, "variables")
        first, second = union[u]
        st = nxt()
        if unp(st) != "info = pd.DataFrame(index=list(variables))":
            fail(st, "info")
        lets, defined, order = [], [], []
        seen_aux = seen_filtered = False
        while k < len(body):
            st = body[k]
            u = unp(st)
            if isinstance(st, ast.Assign) and isinstance(st.targets[0], ast.Subscript) and unp(st.targets[0].value) == "info" \
                    and isinstance(st.targets[0].slice, ast.Constant):
                c = st.targets[0].slice.value
                if c not in COLS or c in defined or order:
                    fail(st, f"column {c}")
                e = col_expr(st.value, defined, st)
                if "auxiliary_variables" in e and not seen_aux or "filtered_variables" in e and not seen_filtered:
                    fail(st, "name list used before it is computed")
                lets.append(f"  let c_{c} := fun var : string * bool => {e} in")
                defined.append(c)
            elif u == "auxiliary_variables = _get_auxiliary_variables(state_variables=info.query('is_state').index.tolist(), function_info=function_info, user_functions=model.functions)":
                if "is_state" not in defined:
                    fail(st, "auxiliary variables before is_state")
                seen_aux = True
            elif u == "filter_names = function_info.query('is_filter').index.tolist()":
                pass
            elif u == "filtered_variables: set[str] = set()":
                pass
            elif u == "for name in filter_names:\n    filtered_variables.update(get_ancestors(model.functions, name))":
                seen_filtered = True
            elif isinstance(st, ast.Assign) and unp(st.targets[0]) == "order":
                if order or set(defined) != set(COLS):
                    fail(st, "order")
                order.append(order_piece(st.value, st))
            elif isinstance(st, ast.AugAssign) and unp(st.target) == "order" and isinstance(st.op, ast.Add):
                if not order:
                    fail(st, "order += before order =")
                order.append(order_piece(st.value, st))
            else:
                break
            k += 1
        st = nxt()
        if unp(st) != "if set(order) != set(info.index):\n    raise ValueError('Order and index do not match.')":
            fail(st, "the check of order against the index")
        st = nxt()
        if unp(st) != "return info.loc[order]" or k != len(body):
            fail(st, "return")
        if not order:
            fail(fn, "no order")
        for name, want in (("get_gridspecs", ["variable_info = get_variable_info(model)", "raw_variables = model.states | model.choices",
                                                "order = variable_info.index.tolist()", "return {k: raw_variables[k] for k in order}"]),
                           ("get_grids", ["variable_info = get_variable_info(model)", "gridspecs = get_gridspecs(model)",
                                            "grids = {name: spec.to_jax() for name, spec in gridspecs.items()}",
                                            "order = variable_info.index.tolist()", "return {k: grids[k] for k in order}"])):
            g = find_func(tree, name)
            got = [unp(x) for x in g.body if not is_docstring(x)]
            if [a.arg for a in g.args.args] != ["model"] or got != want:
                fail(g, f"{name}: " + " | ".join(x[:70] for x in got))
        fields = " ".join(f"(c_{c} var)" for c in COLS)
        order_txt = "\n             ++ ".join(order)
        nl = "\n"
        text = f"""(* GENERATED by translator/py2coq_vinfo.py from src/lcm/input_processing/util.py — do not edit. *)
From LCM Require Import Base.Prelude Model.PyVocab Gen.ChoiceAxes.
Local Open Scope string_scope.

Section VariableInfo.
(* model.states / model.choices: name -> isinstance(spec, ContinuousGrid), in declaration order; the DataFrame `info` is the list of its
   rows, a column assigned from a list over `variables` is a function of the variable; dags' get_ancestors enters through its results *)
Variable is_stochastic_next : string -> bool.     (* function_info.loc[name, "is_stochastic_next"] *)
Variable auxiliary_variables : list string.       (* _get_auxiliary_variables(...) *)
Variable filtered_variables : list string.        (* the union of get_ancestors(model.functions, name) over the filter names *)

Definition loc (info : list varinfo) (name : string) : varinfo :=
  match find (fun r => String.eqb (vname r) name) info with Some r => r | None => mkVarinfo name false false false false false false false false end.

(* get_variable_info(model); None: ValueError("Order and index do not match.") *)
Definition get_variable_info (states choices : list (string * bool)) : option (list varinfo) :=
  let variables := fold_left (fun d kv => dict_set d (fst kv) (snd kv)) {second} (fold_left (fun d kv => dict_set d (fst kv) (snd kv)) {first} []) in
{nl.join(lets)}
  let info := map (fun var => mkVarinfo (fst var) {fields}) variables in
  let order := ({order_txt})%list in
  if negb (set_eqb order (map vname info)) then None else Some (map (loc info) order).

(* {{k: d[k] for k in order}}; None: KeyError *)
Definition reorder {{G}} (d : list (string * G)) (order : list string) : option (list (string * G)) :=
  omap (fun k => match assoc k d with Some g => Some (k, g) | None => None end) order.

(* get_gridspecs(model) and get_grids(model): the grid specifications / the grids as arrays, in the order of variable_info;
   `is_cont spec` is isinstance(spec, ContinuousGrid), `to_jax spec` is spec.to_jax() *)
Definition get_gridspecs {{G}} (is_cont : G -> bool) (states choices : list (string * G)) : option (list (string * G)) :=
  match get_variable_info (map (fun sg => (fst sg, is_cont (snd sg))) states) (map (fun sg => (fst sg, is_cont (snd sg))) choices) with
  | None => None
  | Some variable_info =>
      let raw_variables := fold_left (fun d kv => dict_set d (fst kv) (snd kv)) choices (fold_left (fun d kv => dict_set d (fst kv) (snd kv)) states []) in
      let order := map vname variable_info in
      reorder raw_variables order
  end.
Definition get_grids {{G A}} (is_cont : G -> bool) (to_jax : G -> A) (states choices : list (string * G)) : option (list (string * A)) :=
  match get_variable_info (map (fun sg => (fst sg, is_cont (snd sg))) states) (map (fun sg => (fst sg, is_cont (snd sg))) choices),
        get_gridspecs is_cont states choices with
  | Some variable_info, Some gridspecs =>
      let grids := map (fun ns => (fst ns, to_jax (snd ns))) gridspecs in
      let order := map vname variable_info in
      reorder grids order
  | _, _ => None
  end.
End VariableInfo.
"""
        print("VariableInfo.v: get_variable_info")
    except (TranslationError, SyntaxError, OSError, AttributeError, IndexError) as e:
        status = 3
        print(f"TRANSLATION-REFUSED VariableInfo.v: {e}")
        text = f"(* translation refused: {str(e).replace('*)', '* )').replace('(*', '( *')} *)\nDefinition translation_refused : True := 0.\n"
    path = outdir / "VariableInfo.v"
    if not path.exists() or path.read_text() != text:
        path.write_text(text)
    return status


if __name__ == "__main__":
    sys.exit(main())

#!/usr/bin/env python3
"""Fail-closed Python-ast -> Gallina translator for the glue of lcm/state_space.py:
create_state_choice_space — WHICH variables go where: the subsets handed to _create_value_grid,
create_filter_mask, create_combination_grid, the period the filters are evaluated at, the number of
sparse states handed to create_indexers_and_segments, when a state indexer exists, and the axis /
lookup / interpolation names of the space info.  The array work itself (mask, combination grid,
indexer, segments) is Model/StateSpace.v (C17).

variable_info is a list of `varinfo` records (Gen/ChoiceAxes.v) in index order; queries are
translated by translator/py2coq_axes.query."""
from __future__ import annotations

import ast
import sys
from pathlib import Path

sys.path.insert(0, str(Path(__file__).resolve().parent))
from py2coq import TranslationError, fail, is_docstring, find_func  # noqa: E402
from py2coq_axes import query  # noqa: E402


def unp(n):
    return ast.unparse(n)


def names_of(node):
    """vi.query("...").index.tolist() -> code"""
    if isinstance(node, ast.Call) and unp(node.func).endswith(".index.tolist") and not node.args:
        q = node.func.value.value
        if isinstance(q, ast.Call) and unp(q.func) == "vi.query" and len(q.args) == 1 and isinstance(q.args[0], ast.Constant):
            return f"map vname (filter {query(q.args[0].value, node)} vi)"
    fail(node, "expected vi.query(...).index.tolist()")


def main():
    src, outdir = Path(sys.argv[1]), Path(sys.argv[2])
    status = 0
    try:
        tree = ast.parse((src / "state_space.py").read_text())
        fn = find_func(tree, "create_state_choice_space")
        body = [s for s in fn.body if not is_docstring(s)]
        srcs = [unp(s) for s in body]
        F = {}
        i = 0

        def expect(k, text):
            if srcs[k] != text:
                fail(body[k], f"statement {k} changed: {srcs[k][:100]}")
        expect(0, "vi = model.variable_info")
        expect(1, "if is_last_period:\n    vi = vi.query('~is_auxiliary')")
        expect(2, "has_sparse_states = (vi.is_sparse & vi.is_state).any()")
        expect(3, "has_sparse_vars = vi.is_sparse.any()")
        # 4: value grid
        st = body[4]
        if not (isinstance(st, ast.Assign) and unp(st.targets[0]) == "_value_grid" and isinstance(st.value, ast.Call)
                and unp(st.value.func) == "_create_value_grid"):
            fail(st, "_value_grid")
        kws = {k.arg: k.value for k in st.value.keywords}
        if set(kws) != {"grids", "subset"} or unp(kws["grids"]) != "model.grids":
            fail(st, "arguments of _create_value_grid")
        F["dense_subset"] = names_of(kws["subset"])
        # 5: filter mask + combination grid
        st = body[5]
        if not (isinstance(st, ast.If) and unp(st.test) == "has_sparse_vars" and len(st.body) == 2
                and [unp(s) for s in st.orelse] == ["_combination_grid = {}"]):
            fail(st, "the has_sparse_vars block")
        fm, cg = st.body
        if not (isinstance(fm, ast.Assign) and unp(fm.targets[0]) == "_filter_mask" and unp(fm.value.func) == "create_filter_mask"):
            fail(fm, "_filter_mask")
        kws = {k.arg: k.value for k in fm.value.keywords}
        if set(kws) != {"model", "subset", "fixed_inputs", "jit_filter"} or unp(kws["model"]) != "model" \
                or unp(kws["jit_filter"]) != "jit_filter":
            fail(fm, "arguments of create_filter_mask")
        if unp(kws["fixed_inputs"]) != "{'_period': period}":
            fail(fm, "the filters are not evaluated with _period = period")
        F["mask_subset"] = names_of(kws["subset"])
        if not (isinstance(cg, ast.Assign) and unp(cg.targets[0]) == "_combination_grid" and unp(cg.value.func) == "create_combination_grid"):
            fail(cg, "_combination_grid")
        kws = {k.arg: k.value for k in cg.value.keywords}
        if set(kws) != {"grids", "masks", "subset"} or unp(kws["grids"]) != "model.grids" or unp(kws["masks"]) != "_filter_mask":
            fail(cg, "arguments of create_combination_grid")
        F["grid_subset"] = names_of(kws["subset"])
        expect(6, "state_choice_space = Space(sparse_vars=_combination_grid, dense_vars=_value_grid)")
        # 7: indexers and segments
        st = body[7]
        if not (isinstance(st, ast.If) and unp(st.test) == "has_sparse_vars" and len(st.body) == 1
                and [unp(s) for s in st.orelse] == ["_state_indexer = None", "choice_segments = None"]):
            fail(st, "the indexer block")
        ix = st.body[0]
        if not (isinstance(ix, ast.Assign) and unp(ix.targets[0]) == "(_state_indexer, _, choice_segments)"
                and unp(ix.value.func) == "create_indexers_and_segments"):
            fail(ix, "create_indexers_and_segments")
        kws = {k.arg: k.value for k in ix.value.keywords}
        if set(kws) != {"mask", "n_sparse_states"} or unp(kws["mask"]) != "_filter_mask":
            fail(ix, "arguments of create_indexers_and_segments")
        n = kws["n_sparse_states"]
        if not (isinstance(n, ast.Call) and unp(n.func) == "len" and isinstance(n.args[0], ast.Call) and unp(n.args[0].func) == "vi.query"):
            fail(ix, "n_sparse_states")
        F["n_sparse_states"] = f"length (filter {query(n.args[0].args[0].value, n)} vi)"
        expect(8, "state_indexers = {'state_indexer': _state_indexer} if has_sparse_states else {}")
        st = body[9]
        if not (isinstance(st, ast.Assign) and unp(st.targets[0]) == "axis_names"):
            fail(st, "axis_names")
        F["dense_state_axes"] = names_of(st.value)
        expect(10, "if has_sparse_states:\n    axis_names = ['state_index', *axis_names]")
        st = body[11]
        if not (isinstance(st, ast.Assign) and unp(st.targets[0]) == "_discrete_states" and unp(st.value.func) == "set"):
            fail(st, "_discrete_states")
        F["lookup"] = names_of(st.value.args[0])
        expect(12, "lookup_info = {k: v for k, v in model.gridspecs.items() if k in _discrete_states}")
        st = body[13]
        if not (isinstance(st, ast.Assign) and unp(st.targets[0]) == "_cont_states" and unp(st.value.func) == "set"):
            fail(st, "_cont_states")
        F["interp"] = names_of(st.value.args[0])
        expect(14, "interpolation_info = {k: v for k, v in model.gridspecs.items() if k in _cont_states}")
        st = body[15]
        if not (isinstance(st, ast.If) and unp(st.test) == "has_sparse_states" and [unp(s) for s in st.orelse] == ["indexer_infos = []"]):
            fail(st, "indexer_infos")
        info = st.body[0].value
        if not (isinstance(info, ast.List) and len(info.elts) == 1 and unp(info.elts[0].func) == "IndexerInfo"):
            fail(st, "IndexerInfo")
        kws = {k.arg: k.value for k in info.elts[0].keywords}
        if set(kws) != {"axis_names", "name", "out_name"} or unp(kws["name"]) != "'state_indexer'" or unp(kws["out_name"]) != "'state_index'":
            fail(st, "IndexerInfo arguments")
        F["indexer_axes"] = names_of(kws["axis_names"])
        expect(16, "space_info = SpaceInfo(axis_names=axis_names, lookup_info=lookup_info, interpolation_info=interpolation_info, indexer_infos=indexer_infos)")
        expect(17, "return (state_choice_space, space_info, state_indexers, choice_segments)")
        if len(body) != 18:
            fail(fn, "number of statements")
        text = f"""(* GENERATED by translator/py2coq_space.py from src/lcm/state_space.py — do not edit. *)
From LCM Require Import Base.Prelude Gen.ChoiceAxes.
Local Open Scope string_scope.

Record space_plan := mkPlan {{
  dense_subset : list string;                (* _create_value_grid(subset=...) *)
  sparse_subset : option (list string);      (* create_filter_mask / create_combination_grid(subset=...); None: no sparse variables *)
  grid_subset : option (list string);
  filters_at_period : nat;                   (* fixed_inputs = {{"_period": period}} *)
  n_sparse_states : option nat;              (* create_indexers_and_segments(n_sparse_states=...) *)
  has_state_indexer : bool;                  (* state_indexers is non-empty *)
  axis_names : list string;                  (* SpaceInfo.axis_names *)
  lookup_names : list string;                (* SpaceInfo.lookup_info keys *)
  interpolation_names : list string;         (* SpaceInfo.interpolation_info keys *)
  indexer_axis_names : option (list string)  (* IndexerInfo(axis_names=..., name="state_indexer", out_name="state_index") *)
}}.

Definition create_state_choice_space_plan (variable_info : list varinfo) (period : nat) (is_last_period : bool) : space_plan :=
  let vi := variable_info in
  let vi := if is_last_period then filter (fun v => negb (is_auxiliary v)) vi else vi in
  let has_sparse_states := existsb (fun v => is_sparse v && is_state v) vi in
  let has_sparse_vars := existsb is_sparse vi in
  let dense_state_axes := {F['dense_state_axes']} in
  mkPlan ({F['dense_subset']})
         (if has_sparse_vars then Some ({F['mask_subset']}) else None)
         (if has_sparse_vars then Some ({F['grid_subset']}) else None)
         period
         (if has_sparse_vars then Some ({F['n_sparse_states']}) else None)
         has_sparse_states
         (if has_sparse_states then "state_index" :: dense_state_axes else dense_state_axes)
         ({F['lookup']})
         ({F['interp']})
         (if has_sparse_states then Some ({F['indexer_axes']}) else None).
"""
        print("StateSpaceGlue.v: create_state_choice_space (which variables go where)")
    except (TranslationError, SyntaxError, OSError, IndexError) as e:
        status = 3
        print(f"TRANSLATION-REFUSED StateSpaceGlue.v: {e}")
        text = f"(* translation refused: {str(e).replace('*)', '* )').replace('(*', '( *')} *)\nDefinition translation_refused : True := 0.\n"
    path = outdir / "StateSpaceGlue.v"
    if not path.exists() or path.read_text() != text:
        path.write_text(text)
    return status


if __name__ == "__main__":
    sys.exit(main())

#!/usr/bin/env python3
"""Fail-closed Python-ast -> Gallina translator for lcm/simulate.py: create_data_scs and dict_product (the data state-choice
space of the simulation: which rows exist, what their columns hold, which agent a row belongs to).

Emits Gen/DataSCS.v over Model/PyVocab.v: dicts are association lists in insertion order (`d[k] = v` is `dict_set`), 1-d arrays are lists,
`jnp.repeat(x, repeats=k)` is `np_repeat`, `jnp.tile(x, reps=k)` is `np_tile`, `x[mask]` is `select_true` (Gen/ChoiceSegments.v),
`vmap_1d` is Model/Dispatchers.v's (proved equal to the regenerated dispatchers in C19), `vi.query("...")` is translated by
py2coq_axes.query.  The concatenated filter function (dags) enters as its signature and its value at scalar arguments.
Parametric: every query string, which dict each loop runs over, repeat/tile and their counts, the fixed inputs, the name
excluded from vmapping, the arguments of Space and of create_choice_segments.  Everything else must match textually."""
from __future__ import annotations

import ast
import sys
from pathlib import Path

sys.path.insert(0, str(Path(__file__).resolve().parent))
from py2coq import TranslationError, fail, is_docstring, find_func  # noqa: E402
from py2coq_axes import query  # noqa: E402


def unp(n):
    return ast.unparse(n)


def vi_query(node):
    """vi.query('...') -> filter code"""
    if isinstance(node, ast.Call) and unp(node.func) == "vi.query" and len(node.args) == 1 and not node.keywords \
            and isinstance(node.args[0], ast.Constant) and isinstance(node.args[0].value, str):
        return f"filter {query(node.args[0].value, node)} vi"
    fail(node, "expected vi.query('...')")


def names_of(node):
    """vi.query('...').index.tolist() | vi.query('...').index -> names"""
    s = unp(node)
    if isinstance(node, ast.Call) and s.endswith(".index.tolist()"):
        return f"map vname ({vi_query(node.func.value.value)})"
    if isinstance(node, ast.Attribute) and node.attr == "index":
        return f"map vname ({vi_query(node.value)})"
    fail(node, "expected vi.query('...').index[.tolist()]")


COUNTS = {"n_sc_product_combinations", "n_states"}


def grid_subset(st, name):
    """name = {name: grid for name, grid in model.grids.items() if name in <names>}"""
    v = st.value if isinstance(st, ast.Assign) else None
    if not (v is not None and unp(st.targets[0]) == name and isinstance(v, ast.DictComp) and unp(v.key) == "name"
            and unp(v.value) == "grid" and len(v.generators) == 1):
        fail(st, name)
    g = v.generators[0]
    if not (unp(g.target) == "(name, grid)" and unp(g.iter) == "model.grids.items()" and len(g.ifs) == 1
            and isinstance(g.ifs[0], ast.Compare) and unp(g.ifs[0].left) == "name" and isinstance(g.ifs[0].ops[0], ast.In)):
        fail(st, name + ": comprehension")
    return f"filter (fun ng => mem_str (fst ng) ({names_of(g.ifs[0].comparators[0])})) grids"


def loop(st):
    """for name, X in D.items(): _combination_grid[name] = jnp.repeat|tile(X, repeats|reps=V)"""
    if not (isinstance(st, ast.For) and isinstance(st.target, ast.Tuple) and len(st.target.elts) == 2 and not st.orelse
            and unp(st.target.elts[0]) == "name" and isinstance(st.iter, ast.Call) and unp(st.iter.func).endswith(".items")
            and len(st.body) == 1 and isinstance(st.body[0], ast.Assign) and unp(st.body[0].targets[0]) == "_combination_grid[name]"):
        fail(st, "loop filling _combination_grid")
    var = unp(st.target.elts[1])
    d = unp(st.iter.func)[:-len(".items")]
    if d not in ("states", "sc_product"):
        fail(st, "loop over " + d)
    call = st.body[0].value
    if not (isinstance(call, ast.Call) and len(call.args) == 1 and unp(call.args[0]) == var and len(call.keywords) == 1):
        fail(st, "loop body")
    f, kw = unp(call.func), call.keywords[0]
    if (f, kw.arg) not in (("jnp.repeat", "repeats"), ("jnp.tile", "reps")) or unp(kw.value) not in COUNTS:
        fail(st, "loop body: " + unp(call))
    op = "np_repeat" if f == "jnp.repeat" else "np_tile"
    return f"fold_left (fun d nx => dict_set d (fst nx) ({op} (snd nx) {unp(kw.value)})) {d}"


def main():
    src, outdir = Path(sys.argv[1]), Path(sys.argv[2])
    status = 0
    try:
        tree = ast.parse((src / "simulate.py").read_text())
        # ---- dict_product ----------------------------------------------------------------------------------
        fn = find_func(tree, "dict_product")
        if [a.arg for a in fn.args.args] != ["d"]:
            fail(fn, "signature of dict_product")
        s = [unp(x) for x in fn.body if not is_docstring(x)]
        want = ["arrays = list(d.values())",
                "grid = jnp.meshgrid(*arrays, indexing='ij')",
                "stacked = jnp.stack(grid, axis=-1).reshape(-1, len(arrays))",
                "return (dict(zip(d.keys(), list(stacked.T), strict=True)), len(stacked))"]
        if s != want:
            fail(fn, "dict_product: " + " | ".join(x[:80] for x in s))
        # ---- create_data_scs -------------------------------------------------------------------------------
        fn = find_func(tree, "create_data_scs")
        if [a.arg for a in fn.args.args] != ["states", "model", "period"]:
            fail(fn, "signature of create_data_scs")
        body = [x for x in fn.body if not is_docstring(x)]
        srcs = [unp(x) for x in body]
        if len(body) != 11:
            fail(fn, "number of statements of create_data_scs")

        def expect(node, text, what):
            if unp(node) != text:
                fail(node, f"{what} changed: {unp(node)[:100]}")
        expect(body[0], "vi = model.variable_info", "statement 0")
        st = body[1]
        if not (isinstance(st, ast.Assign) and unp(st.targets[0]) == "has_sparse_choice_vars" and isinstance(st.value, ast.Compare)
                and isinstance(st.value.ops[0], ast.Gt) and unp(st.value.comparators[0]) == "0"
                and isinstance(st.value.left, ast.Call) and unp(st.value.left.func) == "len"):
            fail(st, "has_sparse_choice_vars")
        has_sparse = f"Nat.ltb 0 (length ({vi_query(st.value.left.args[0])}))"
        expect(body[2], "n_states = len(next(iter(states.values())))", "n_states")
        st = body[3]
        if not (isinstance(st, ast.Assign) and unp(st.targets[0]) == "state_names" and isinstance(st.value, ast.Call)
                and unp(st.value.func) == "set" and len(st.value.args) == 1):
            fail(st, "state_names")
        state_names = names_of(st.value.args[0])
        st = body[4]
        if not (isinstance(st, ast.If) and unp(st.test) == "state_names != set(states.keys())" and not st.orelse
                and isinstance(st.body[-1], ast.Raise) and unp(st.body[-1].exc.func) == "ValueError"):
            fail(st, "the check of the provided states")
        sparse_choices = grid_subset(body[5], "sparse_choices")
        dense_choices = grid_subset(body[6], "dense_choices")
        st = body[7]
        if not (isinstance(st, ast.If) and unp(st.test) == "has_sparse_choice_vars"
                and [unp(x) for x in st.orelse] == ["combination_grid = states", "data_choice_segments = None"]
                and len(st.body) == 14):
            fail(st, "the has_sparse_choice_vars block")
        b = st.body
        expect(b[0], "sc_product, n_sc_product_combinations = dict_product(sparse_choices)", "dict_product call")
        expect(b[1], "_combination_grid = {}", "_combination_grid")
        loop1, loop2 = loop(b[2]), loop(b[3])
        expect(b[4], "filter_names = model.function_info.query('is_filter').index.tolist()", "filter_names")
        expect(b[5], "scalar_filter = concatenate_functions(functions=model.functions, targets=filter_names, aggregator=jnp.logical_and)",
               "scalar_filter")
        fi = b[6]
        if not (isinstance(fi, ast.Assign) and unp(fi.targets[0]) == "fixed_inputs" and isinstance(fi.value, ast.Dict)
                and all(isinstance(k, ast.Constant) and isinstance(k.value, str) for k in fi.value.keys)
                and all(unp(v) == "period" for v in fi.value.values)):
            fail(fi, "fixed_inputs")
        fixed = "[" + "; ".join(f'("{k.value}", scalar (Qofnat period))' for k in fi.value.keys) + "]"
        pk = unp(b[7])
        arrays = "(map (fun kv : string * list Q => (fst kv, vec (snd kv))) _combination_grid)"
        if pk == "potential_kwargs = _combination_grid | fixed_inputs":
            potential = f"fold_left (fun d kv => dict_set d (fst kv) (snd kv)) fixed_inputs {arrays}"
        elif pk == "potential_kwargs = fixed_inputs | _combination_grid":
            potential = f"fold_left (fun d kv => dict_set d (fst kv) (snd kv)) {arrays} fixed_inputs"
        else:
            fail(b[7], "potential_kwargs")
        expect(b[8], "parameters = list(inspect.signature(scalar_filter).parameters)", "parameters")
        expect(b[9], "kwargs = {k: v for k, v in potential_kwargs.items() if k in parameters}", "kwargs")
        vp = b[10]
        ok = isinstance(vp, ast.Assign) and unp(vp.targets[0]) == "vmapped_parameters" and isinstance(vp.value, ast.ListComp)
        if ok:
            g = vp.value.generators[0]
            ok = unp(vp.value.elt) == "p" and unp(g.target) == "p" and unp(g.iter) == "parameters" and len(g.ifs) == 1 \
                and isinstance(g.ifs[0], ast.Compare) and unp(g.ifs[0].left) == "p" and isinstance(g.ifs[0].ops[0], ast.NotEq) \
                and isinstance(g.ifs[0].comparators[0], ast.Constant) and isinstance(g.ifs[0].comparators[0].value, str)
        if not ok:
            fail(vp, "vmapped_parameters")
        excluded = vp.value.generators[0].ifs[0].comparators[0].value
        expect(b[11], "_filter = vmap_1d(scalar_filter, variables=vmapped_parameters)", "_filter")
        expect(b[12], "mask = _filter(**kwargs)", "mask")
        expect(b[13], "combination_grid = {name: grid[mask] for name, grid in _combination_grid.items()}", "combination_grid")
        sp = body[8]
        if not (isinstance(sp, ast.Assign) and unp(sp.targets[0]) == "data_scs" and isinstance(sp.value, ast.Call)
                and unp(sp.value.func) == "Space" and not sp.value.args
                and {k.arg for k in sp.value.keywords} == {"sparse_vars", "dense_vars"}
                and all(unp(k.value) in ("combination_grid", "dense_choices") for k in sp.value.keywords)):
            fail(sp, "Space(...)")
        space = {k.arg: unp(k.value) for k in sp.value.keywords}
        cs = body[9]
        if not (isinstance(cs, ast.If) and unp(cs.test) == "has_sparse_choice_vars" and [unp(x) for x in cs.orelse] == ["data_choice_segments = None"]
                and len(cs.body) == 1 and isinstance(cs.body[0], ast.Assign) and unp(cs.body[0].targets[0]) == "data_choice_segments"
                and unp(cs.body[0].value.func) == "create_choice_segments" and not cs.body[0].value.args):
            fail(cs, "create_choice_segments call")
        ckw = {k.arg: unp(k.value) for k in cs.body[0].value.keywords}
        if set(ckw) != {"mask", "n_sparse_states"} or ckw["mask"] != "mask" or ckw["n_sparse_states"] not in COUNTS:
            fail(cs, "arguments of create_choice_segments")
        expect(body[10], "return (data_scs, data_choice_segments)", "return")
        # Space(...) in the two branches
        sv_sparse = {"combination_grid": "combination_grid", "dense_choices": "dense_choices"}
        sv_plain = {"combination_grid": "states", "dense_choices": "dense_choices"}
        text = f"""(* GENERATED by translator/py2coq_datascs.py from src/lcm/simulate.py — do not edit. *)
From LCM Require Import Base.Prelude Base.Arr Model.Dispatchers Model.PyVocab Gen.ChoiceAxes Gen.ChoiceSegments.
Local Open Scope string_scope.

(* dict_product(d): meshgrid of the arrays with indexing="ij", stacked on a last axis and reshaped to (-1, len(arrays)): row r is the
   r-th index tuple in row-major order, column j holds arrays[j][idx[j]]; second component: the number of rows *)
Definition dict_product (d : list (string * list Q)) : list (string * list Q) * nat :=
  let arrays := map snd d in
  let shp := map (@length Q) arrays in
  (map (fun jd : nat * (string * list Q) => (fst (snd jd), map (fun idx => nth (nth (fst jd) idx 0%nat) (snd (snd jd)) 0%Q) (indices shp)))
       (combine (seq 0 (length d)) d),
   length (indices shp)).

Record data_scs := mkDataSCS {{
  ds_sparse_vars : list (string * list Q);          (* Space.sparse_vars *)
  ds_dense_vars : list (string * list Q);           (* Space.dense_vars *)
  ds_choice_segments : option (list nat * nat) }}.   (* segment_ids, num_segments; None: no filter-restricted choices *)

Section CreateDataSCS.
Variable filter_signature : list string.      (* inspect.signature(scalar_filter).parameters *)
Variable scalar_filter : list qarr -> qarr.   (* the conjunction of all filters (dags) at scalar arguments in signature order; nonzero = True *)

(* create_data_scs(states, model, period); None: ValueError (the provided states are not exactly the model's states) *)
Definition create_data_scs (states : list (string * list Q)) (variable_info : list varinfo) (grids : list (string * list Q)) (period : nat)
  : option data_scs :=
  let vi := variable_info in
  let has_sparse_choice_vars := {has_sparse} in
  let n_states := length (snd (hd ("", []) states)) in
  let state_names := {state_names} in
  if negb (set_eqb state_names (map fst states)) then None else
  let sparse_choices := {sparse_choices} in
  let dense_choices := {dense_choices} in
  if has_sparse_choice_vars then
    let sc_product := fst (dict_product sparse_choices) in
    let n_sc_product_combinations := snd (dict_product sparse_choices) in
    let _combination_grid := {loop1} [] in
    let _combination_grid := {loop2} _combination_grid in
    let fixed_inputs := {fixed} in
    let potential_kwargs := {potential} in
    let parameters := filter_signature in
    let kwargs := filter (fun kv => mem_str (fst kv) parameters) potential_kwargs in
    let vmapped_parameters := filter (fun p => negb (String.eqb p "{excluded}")) parameters in
    let mask := map truthy (data (vmap_1d_named (mkFunc parameters scalar_filter) vmapped_parameters kwargs)) in
    let combination_grid := map (fun ng => (fst ng, select_true mask (snd ng))) _combination_grid in
    Some (mkDataSCS {sv_sparse[space['sparse_vars']]} {sv_sparse[space['dense_vars']]} (Some (create_choice_segments mask {ckw['n_sparse_states']})))
  else
    Some (mkDataSCS {sv_plain[space['sparse_vars']]} {sv_plain[space['dense_vars']]} None).
End CreateDataSCS.
"""
        print("DataSCS.v: dict_product, create_data_scs")
    except (TranslationError, SyntaxError, OSError, AttributeError, IndexError) as e:
        status = 3
        print(f"TRANSLATION-REFUSED DataSCS.v: {e}")
        text = f"(* translation refused: {str(e).replace('*)', '* )').replace('(*', '( *')} *)\nDefinition translation_refused : True := 0.\n"
    path = outdir / "DataSCS.v"
    if not path.exists() or path.read_text() != text:
        path.write_text(text)
    return status


if __name__ == "__main__":
    sys.exit(main())

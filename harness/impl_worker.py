"""impl_worker.py — runs cases against the real lcm (imported from /repo/src via
PYTHONPATH).  One JSON case per stdin line; one line '@@<json>' per case on stdout."""
import json
import sys
import math
import traceback
from fractions import Fraction

import jax

jax.config.update("jax_enable_x64", True)

import impl_handlers as H  # noqa: E402


def main():
    for line in sys.stdin:
        line = line.strip()
        if not line:
            continue
        case = json.loads(line)
        try:
            fn = getattr(H, "h_" + case["fn"])
            out = fn(case)
        except Exception as e:  # noqa: BLE001
            out = {"error": H.classify(e), "detail": (type(e).__name__ + ": " + str(e))[:300]}
        sys.stdout.write("@@" + json.dumps(out, separators=(",", ":")) + "\n")
        sys.stdout.flush()


if __name__ == "__main__":
    main()

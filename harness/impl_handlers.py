"""impl_handlers.py — one handler per case kind; calls the real lcm functions."""
import math
from fractions import Fraction

import numpy as np
import jax
import jax.numpy as jnp


def classify(e):
    n = type(e).__name__
    if n in ("GridInitializationError", "ModelInitilizationError", "ValueError", "TypeError"):
        return n
    return "other:" + n


def fq(j):
    """wire number -> python float/int (exact for dyadics)"""
    if isinstance(j, dict):
        return j["q"][0] / j["q"][1]
    return j


def to_wire(x):
    """python/numpy/jax scalar -> wire number, exactly"""
    if isinstance(x, (bool, np.bool_)):
        return bool(x)
    if isinstance(x, (int, np.integer)):
        return int(x)
    x = float(x)
    if math.isnan(x):
        return "nan"
    if math.isinf(x):
        return "inf" if x > 0 else "-inf"
    n, d = x.as_integer_ratio()
    return n if d == 1 else {"q": [n, d]}


def arr_wire(a):
    a = np.asarray(a)
    return {"shape": list(a.shape), "data": [to_wire(v) for v in a.reshape(-1).tolist()]}


def wire_arr(j, dtype=float):
    data = [fq(v) if v not in ("-inf", "inf", "nan") else float(v) for v in j["data"]]
    return np.array(data, dtype=dtype).reshape(j["shape"])


# ---- C15 ---------------------------------------------------------------------------
def h_lin_coord(c):
    from lcm import grid_helpers
    return to_wire(grid_helpers.get_linspace_coordinate(
        jnp.asarray(fq(c["value"]), dtype=float), fq(c["start"]), fq(c["stop"]), c["n"]))


def h_log_coord(c):
    from lcm import grid_helpers
    vals = [fq(v) for v in c["values"]]
    out = [grid_helpers.get_logspace_coordinate(jnp.asarray(v, dtype=float), fq(c["start"]), fq(c["stop"]), c["n"]) for v in vals]
    grid = grid_helpers.logspace(fq(c["start"]), fq(c["stop"]), c["n"])
    return {"coords": [to_wire(o) for o in out], "grid": [to_wire(g) for g in np.asarray(grid)]}


def h_indices_weights(c):
    from lcm import ndimage
    r = ndimage._compute_indices_and_weights(jnp.asarray(fq(c["coordinate"]), dtype=float), c["size"])
    return [[to_wire(i), to_wire(w)] for i, w in r]


def h_map_coordinates(c):
    from lcm import ndimage
    a = jnp.asarray(wire_arr(c["input"]))
    if c.get("batched"):
        coords = [jnp.asarray([fq(x) for x in col], dtype=float) for col in c["coordinates"]]
        out = ndimage.map_coordinates(a, coords)
        return [to_wire(v) for v in np.asarray(out)]
    coords = [jnp.asarray(fq(x), dtype=float) for x in c["coordinates"]]
    return to_wire(ndimage.map_coordinates(a, coords))


# ---- C16 ---------------------------------------------------------------------------
def pyval(j):
    t = j["t"]
    if t == "int":
        return int(j["v"])
    if t == "bool":
        return bool(j["v"])
    if t == "float":
        v = j["v"]
        if isinstance(v, str):
            return float(v)
        return float(fq(v)) if not isinstance(v, int) else float(v)
    if t == "npfloat64":
        return np.float64(fq(j["v"]))
    if t == "str":
        return "abc"
    if t == "none":
        return None
    if t == "npfloat32":
        return np.float32(1.5)
    if t == "npint":
        return np.int64(3)
    if t == "list":
        return (1.0,)
    raise ValueError("unknown pyval " + t)


def h_validate_continuous(c):
    """-> {"outcome": accept|reject|typeerror|other:<cls>, "grid": [...]|None, "to_jax_error": ...}"""
    from lcm.grids import LinspaceGrid, LogspaceGrid
    from lcm.exceptions import GridInitializationError
    cls = LogspaceGrid if c["positive_start"] else LinspaceGrid
    a, b, n = pyval(c["start"]), pyval(c["stop"]), pyval(c["n_points"])
    try:
        g = cls(start=a, stop=b, n_points=n)
    except GridInitializationError:
        return {"outcome": "reject"}
    except TypeError as e:
        return {"outcome": "typeerror", "detail": str(e)[:200]}
    except Exception as e:  # noqa: BLE001
        return {"outcome": "other:" + type(e).__name__, "detail": str(e)[:200]}
    out = {"outcome": "accept"}
    if c.get("materialise"):
        try:
            arr = np.asarray(g.to_jax())
            out["grid"] = [to_wire(v) for v in arr.tolist()]
        except Exception as e:  # noqa: BLE001
            out["to_jax_error"] = type(e).__name__ + ": " + str(e)[:200]
    return out


def h_validate_discrete(c):
    import dataclasses
    from lcm.grids import DiscreteGrid
    from lcm.exceptions import GridInitializationError
    vals = [pyval(v) for v in c["values"]]
    ns = {f"f{i}": v for i, v in enumerate(vals) if not c.get("no_default", {}).get(str(i))}
    ann = {f"f{i}": object for i in range(len(vals))}
    cls = type("Cat", (), {**ns, "__annotations__": ann})
    if c["is_dataclass"]:
        # fields without default must precede fields with default only for __init__;
        # build with init=False to allow any pattern
        cls = dataclasses.dataclass(init=False)(cls)
    try:
        g = DiscreteGrid(cls)
    except GridInitializationError:
        return {"outcome": "reject"}
    except Exception as e:  # noqa: BLE001
        return {"outcome": "other:" + type(e).__name__, "detail": str(e)[:200]}
    out = {"outcome": "accept"}
    try:
        out["codes"] = [to_wire(v) for v in np.asarray(g.to_jax()).tolist()]
        out["codes_attr"] = [to_wire(v) for v in g.codes]
    except Exception as e:  # noqa: BLE001
        out["to_jax_error"] = type(e).__name__ + ": " + str(e)[:200]
    return out


def h_lin_points(c):
    from lcm import grid_helpers
    return [to_wire(v) for v in np.asarray(grid_helpers.linspace(fq(c["start"]), fq(c["stop"]), c["n"])).tolist()]


# ---- C20 ---------------------------------------------------------------------------
def h_emax(c):
    """values (array), scale, axes (list|None), segment_ids (list|None), dtype"""
    from lcm import discrete_problem as dp
    dt = jnp.float32 if c.get("dtype") == "f32" else jnp.float64
    vals = jnp.asarray(wire_arr(c["values"]), dtype=dt)
    scale = fq(c["scale"])
    axes = tuple(c["axes"]) if c.get("axes") is not None else None
    seg = None
    if c.get("segment_ids") is not None:
        seg = {"segment_ids": jnp.asarray(c["segment_ids"], dtype=jnp.int32), "num_segments": c["num_segments"]}
    params = {"additive_utility_shock": {"scale": scale}}
    out = dp._calculate_emax_extreme_value_shocks(vals, axes, seg, params)
    res = {"emax": arr_wire(out)}
    if seg is not None and axes is None:
        res["seg_lse"] = arr_wire(dp._segment_logsumexp(vals, seg))
    if c.get("shift") is not None:
        out2 = dp._calculate_emax_extreme_value_shocks(vals + fq(c["shift"]), axes, seg, params)
        res["shifted"] = arr_wire(out2)
    return res


# ---- C18 ---------------------------------------------------------------------------
def _val_arr(j):
    data = [(-np.inf if v == "-inf" else (np.nan if v is None else fq(v))) for v in j["data"]]
    return np.array(data, dtype=float).reshape(j["shape"])


def h_argmax(c):
    from lcm.argmax import argmax
    a = jnp.asarray(_val_arr(c["a"]))
    axis = tuple(c["axis"]) if c.get("axis") is not None else None
    kwargs = {}
    if "initial" in c:
        kwargs["initial"] = -jnp.inf if c["initial"] == "-inf" else fq(c["initial"])
    where = None
    if "where" in c:
        where = jnp.asarray(np.array(c["where"]["data"], dtype=bool).reshape(c["where"]["shape"]))
    mode = c.get("mode", "eager")
    if mode == "eager":
        i, m = argmax(a, axis=axis, where=where, **kwargs)
    elif mode == "jit":
        f = jax.jit(lambda a_, w_: argmax(a_, axis=axis, where=w_, **kwargs))
        i, m = f(a, where)
    else:  # fused: the array is produced inside the same jitted computation (exact integer ops)
        def g(x, w_):
            y = x * 2.0 + 1.0
            y = (y - 1.0) / 2.0
            return argmax(y, axis=axis, where=w_, **kwargs)
        i, m = jax.jit(g)(a, where)
    return {"argmax": arr_wire(np.asarray(i)), "max": arr_wire(np.asarray(m))}


def h_segment_argmax(c):
    from lcm.argmax import segment_argmax
    a = jnp.asarray(_val_arr(c["data"]))
    ids = jnp.asarray(c["segment_ids"], dtype=jnp.int32)
    n = c["num_segments"]
    mode = c.get("mode", "eager")
    if mode == "eager":
        i, m = segment_argmax(a, ids, n)
    elif mode == "jit":
        i, m = jax.jit(segment_argmax, static_argnums=2)(a, ids, n)
    else:
        def g(x, s):
            y = (x * 2.0 + 1.0 - 1.0) / 2.0
            return segment_argmax(y, s, n)
        i, m = jax.jit(g)(a, ids)
    return {"argmax": arr_wire(np.asarray(i)), "max": arr_wire(np.asarray(m))}


def h_discrete_no_shocks(c):
    from lcm.discrete_problem import _solve_discrete_problem_no_shocks
    a = jnp.asarray(_val_arr(c["values"]))
    axes = tuple(c["axes"]) if c.get("axes") is not None else None
    seg = None
    if c.get("segment_ids") is not None:
        seg = {"segment_ids": jnp.asarray(c["segment_ids"], dtype=jnp.int32), "num_segments": c["num_segments"]}
    out = _solve_discrete_problem_no_shocks(a, axes, seg, {})
    return arr_wire(np.asarray(out))


def h_fused_real(c):
    """argmax of a real-valued array produced by fused transcendental ops inside one jit;
    returns the positions, the max, and the array as computed outside the jit"""
    from lcm.argmax import argmax
    x = jnp.asarray(_val_arr(c["a"]), dtype=jnp.float32 if c.get("dtype") == "f32" else jnp.float64)
    axis = tuple(c["axis"])
    where = jnp.asarray(np.array(c["where"]["data"], dtype=bool).reshape(c["where"]["shape"]))

    def prod(x):
        return jnp.log1p(jnp.exp(x * 0.37)) * 1.7 + jnp.sin(x) * x

    def g(x, w):
        return argmax(prod(x), axis=axis, where=w, initial=-jnp.inf)
    i, m = jax.jit(g)(x, where)
    return {"argmax": arr_wire(np.asarray(i)), "max": arr_wire(np.asarray(m, dtype=float)),
            "a": arr_wire(np.asarray(prod(x), dtype=float))}


# ---- C19 ---------------------------------------------------------------------------
def _make_func(sig):
    """sig: [[name, kind]], kinds po (positional-only) / pk / ko; returns dict name -> value"""
    po = [n for n, k in sig if k == "po"]
    pk = [n for n, k in sig if k == "pk"]
    ko = [n for n, k in sig if k == "ko"]
    parts = list(po)
    if po:
        parts.append("/")
    parts += pk
    if ko:
        parts.append("*")
        parts += ko
    body = "{" + ", ".join(f"'{n}': {n}" for n, _ in sig) + "}"
    ns = {}
    exec(f"def f({', '.join(parts)}):\n    return {body}\n", ns)  # noqa: S102
    return ns["f"]


def h_wrapper(c):
    from lcm import functools as lf
    f = _make_func(c["sig"])
    w = c["wrapper"]
    g = {"allow_only_kwargs": lf.allow_only_kwargs, "allow_args": lf.allow_args, "direct": lambda x: x}[w](f)
    try:
        out = g(*c["args"], **dict((k, v) for k, v in c["kwargs"]))
    except ValueError:
        return {"err": "ValueError"}
    except TypeError:
        return {"err": "TypeError"}
    return {"ok": [[n, out[n]] for n, _ in c["sig"]]}


def _make_poly(sig, coeffs):
    po = [n for n, k in sig if k == "po"]
    pk = [n for n, k in sig if k == "pk"]
    ko = [n for n, k in sig if k == "ko"]
    parts = list(po)
    if po:
        parts.append("/")
    parts += pk
    if ko:
        parts.append("*")
        parts += ko
    names = [n for n, _ in sig]
    c = [fq(x) for x in coeffs]
    lin = " + ".join(f"({c[j + 1]!r}) * {n}" for j, n in enumerate(names))
    prod = " * ".join(names)
    ns = {}
    exec(f"def f({', '.join(parts)}):\n    return ({c[0]!r}) + {lin} + ({c[-1]!r}) * {prod}\n", ns)  # noqa: S102
    return ns["f"]


def h_dispatch(c):
    from lcm import dispatchers as d
    f = _make_poly(c["sig"], c["coeffs"])
    kw = {k: jnp.asarray(wire_arr(v)) for k, v in c["kwargs"]}
    try:
        if c["which"] == "productmap":
            g = d.productmap(f, c["variables"])
        elif c["which"] == "vmap_1d":
            g = d.vmap_1d(f, c["variables"])
        else:
            g = d.spacemap(f, c["variables"], c["sparse"], put_dense_first=c["put_dense_first"])
    except ValueError:
        return {"err": "ValueError"}
    if c.get("jit"):
        g = jax.jit(g)
    out = g(**kw)
    return arr_wire(np.asarray(out))


def h_dispatch_pytree(c):
    """pytree output: {'u': poly, 'v': (poly2, vector-valued)}; compared with nested loops by the harness"""
    from lcm import dispatchers as d
    f = _make_poly(c["sig"], c["coeffs"])
    f2 = _make_poly(c["sig"], c["coeffs2"])
    names = [n for n, _ in c["sig"]]

    def tree(*args, **kwargs):
        a = f(*args, **kwargs)
        b = f2(*args, **kwargs)
        return {"u": a, "v": (b, jnp.stack([a, b, a - b]))}
    import inspect
    tree.__signature__ = inspect.signature(f)
    kw = {k: jnp.asarray(wire_arr(v)) for k, v in c["kwargs"]}
    if c["which"] == "productmap":
        g = d.productmap(tree, c["variables"])
    elif c["which"] == "vmap_1d":
        g = d.vmap_1d(tree, c["variables"])
    else:
        g = d.spacemap(tree, c["variables"], c["sparse"], put_dense_first=c["put_dense_first"])
    out = g(**kw)
    return {"u": arr_wire(np.asarray(out["u"])), "v0": arr_wire(np.asarray(out["v"][0])),
            "v1": arr_wire(np.asarray(out["v"][1]))}


# ---- end-to-end: whole models ---------------------------------------------------------
_MODEL_CACHE = {}


def _build_model(c):
    src = c["py"]
    if src not in _MODEL_CACHE:
        ns = {}
        exec(compile(src, "<generated model>", "exec"), ns)  # noqa: S102
        _MODEL_CACHE.clear()
        _MODEL_CACHE[src] = ns["MODEL"]
    return _MODEL_CACHE[src]


def _build_params(c, template, leaf="jax"):
    p = c["params"]
    conv = {"jax": lambda x: jnp.asarray(x), "float": float, "numpy": lambda x: np.float64(x)}[leaf]
    out = {"beta": conv(fq(p["beta"]))}
    fpar = {fn: {pn: fq(v) for pn, v in ps} for fn, ps in p["fpar"]}
    for k, v in template.items():
        if k in ("beta", "shocks"):
            continue
        out[k] = {pn: conv(fpar.get(k, {}).get(pn, 0.0)) for pn in v}
    if "shocks" in template:
        sh = {s: wire_arr(a) for s, a in p["shocks"]}
        out["shocks"] = {s: jnp.asarray(sh[s]) for s in template["shocks"]}
    return out


def _val_wire_arr(a):
    a = np.asarray(a, dtype=float)
    return {"shape": list(a.shape), "data": [None if math.isnan(v) else to_wire(v) for v in a.reshape(-1).tolist()]}


def h_solve_spec(c):
    """solve the generated model with the real lcm; -> list of value arrays (nan -> null)"""
    from lcm.entry_point import get_lcm_function
    model = _build_model(c)
    solve, template = get_lcm_function(model, targets="solve", jit=c.get("jit", True))
    params = _build_params(c, template, c.get("leaf", "jax"))
    sol = solve(params)
    out = [_val_wire_arr(v) for v in sol]
    if c.get("template"):
        return {"solution": out, "template": _template_wire(template)}
    return out


def _template_wire(template):
    t = {}
    for k, v in template.items():
        if k == "shocks":
            t[k] = {s: list(np.asarray(a).shape) for s, a in v.items()}
        elif isinstance(v, dict):
            t[k] = list(v.keys())
        else:
            t[k] = None
    return {"keys": list(template.keys()), "entries": t}


def h_simulate(c):
    """solve_and_simulate (or simulate with solved arrays); -> panel as dict of columns"""
    from lcm.entry_point import get_lcm_function
    model = _build_model(c)
    target = c.get("target", "solve_and_simulate")
    jit = c.get("jit", True)
    from lcm.grids import DiscreteGrid as _DG
    init = {k: (jnp.asarray([int(fq(x)) for x in v])
                if isinstance(model.states.get(k), _DG) or (c.get("int_arrays") and all(float(fq(x)).is_integer() for x in v))
                else jnp.asarray([fq(x) for x in v], dtype=float))
            for k, v in c["initial_states"]}
    kwargs = {"initial_states": init}
    if "seed" in c:
        kwargs["seed"] = c["seed"]
    if c.get("additional_targets"):
        kwargs["additional_targets"] = c["additional_targets"]
    if target == "solve_and_simulate":
        f, template = get_lcm_function(model, targets="solve_and_simulate", jit=jit)
        params = _build_params(c, template)
        df = f(params, **kwargs)
        sol = None
    else:
        solve, template = get_lcm_function(model, targets="solve", jit=jit)
        params = _build_params(c, template)
        sol = solve(params)
        sim, _ = get_lcm_function(model, targets="simulate", jit=jit)
        df = sim(params, vf_arr_list=sol, **kwargs)
    out = {"columns": {}, "index": [list(map(int, ix)) for ix in df.index.tolist()],
           "index_names": list(df.index.names), "n_rows": int(len(df))}
    for col in df.columns:
        vals = np.asarray(df[col], dtype=float)
        out["columns"][col] = [None if math.isnan(x) else to_wire(x) for x in vals.tolist()]
    if c.get("with_solution"):
        if sol is None:
            solve, _ = get_lcm_function(model, targets="solve", jit=jit)
            sol = solve(params)
        out["solution"] = [_val_wire_arr(v) for v in sol]
    return out


# ---- C04 ---------------------------------------------------------------------------------
def h_choice(c):
    """same key: the uniform consumed by jax.random.choice and the label lcm.random_choice draws"""
    from lcm.random_choice import random_choice
    p = jnp.asarray([fq(x) for x in c["p"]], dtype=float)
    n = c.get("n", 1)
    key = jax.random.PRNGKey(c["seed"])
    probs = jnp.tile(p, (n, 1))
    labels = jnp.arange(len(c["p"]))
    drawn = random_choice(key, probs=probs, labels=labels)
    keys = jax.random.split(key, n)
    us = [float(jax.random.uniform(k, (), dtype=probs.dtype)) for k in keys]
    return {"drawn": [int(x) for x in np.asarray(drawn)], "uniforms": [to_wire(u) for u in us]}


def h_replay_draws(c):
    """replay lcm.simulate's key discipline outside lcm: for period t, stochastic variable j
    (order of the stochastic next functions in the model's functions dict) and agent i the label
    drawn from the given row with the key split(keys_t[1 + j], n_agents)[i]"""
    n_ids, n_agents, T = c["n_ids"], c["n_agents"], c["n_periods"]
    key = jax.random.PRNGKey(c["seed"])
    out = []
    for t in range(T):
        keys = jax.random.split(key, num=n_ids + 1)
        key = keys[0]
        per_var = []
        for j in range(n_ids):
            agent_keys = jax.random.split(keys[1 + j], n_agents)
            labs = []
            for i in range(n_agents):
                row = c["rows"][t][j][i]
                if row is None:
                    labs.append(None)
                    continue
                p = jnp.asarray([fq(x) for x in row], dtype=float)
                labs.append(int(jax.random.choice(agent_keys[i], a=jnp.arange(len(row)), p=p)))
            per_var.append(labs)
        out.append(per_var)
    return out


def h_simulate_stats(c):
    """large-batch simulation of a model; returns per (t, state) the joint counts needed for
    frequency tests: counts[(dependency labels..., next label)]"""
    from lcm.entry_point import get_lcm_function
    model = _build_model(c)
    f, template = get_lcm_function(model, targets="solve_and_simulate", jit=True)
    params = _build_params(c, template)
    init = {k: (jnp.asarray([int(fq(x)) for x in v])) if c["discrete"][k] else jnp.asarray([fq(x) for x in v], dtype=float)
            for k, v in c["initial_states"]}
    df = f(params, initial_states=init, seed=c["seed"])
    cols = {col: np.asarray(df[col], dtype=float).tolist() for col in df.columns}
    return {"columns": {k: [to_wire(x) for x in v] for k, v in cols.items()}, "n_rows": len(df)}


# ---- C17 ---------------------------------------------------------------------------------
def h_indexers_and_segments(c):
    from lcm.state_space import create_indexers_and_segments, create_combination_grid
    mask = np.array(c["mask"]["data"], dtype=bool).reshape(c["mask"]["shape"])
    si, _, seg = create_indexers_and_segments(jnp.asarray(mask), c["n_sparse_states"])
    grids = {f"v{k}": jnp.arange(n) for k, n in enumerate(c["mask"]["shape"])}
    combo = create_combination_grid(grids, jnp.asarray(mask))
    cols = [np.asarray(combo[f"v{k}"]).tolist() for k in range(len(c["mask"]["shape"]))]
    n = len(cols[0]) if cols else 0
    return {"state_indexer": arr_wire(np.asarray(si)),
            "segment_ids": [int(x) for x in np.asarray(seg["segment_ids"])],
            "num_segments": int(seg["num_segments"]),
            "combinations": [[int(col[r]) for col in cols] for r in range(n)]}


def h_state_space(c):
    from lcm.input_processing import process_model
    from lcm.state_space import create_state_choice_space
    model = _build_model(c)
    mod = process_model(model)
    t = c["period"]
    sc, info, indexers, segments = create_state_choice_space(model=mod, period=t, is_last_period=(t == mod.n_periods - 1), jit_filter=False)
    out = {"sparse_names": list(sc.sparse_vars), "dense_names": list(sc.dense_vars),
           "sparse_vars": [[to_wire(x) for x in np.asarray(v).tolist()] for v in sc.sparse_vars.values()]}
    if indexers:
        out["state_indexer"] = arr_wire(np.asarray(indexers["state_indexer"]))
    else:
        out["state_indexer"] = None
    if segments is not None:
        out["segment_ids"] = [int(x) for x in np.asarray(segments["segment_ids"])]
        out["num_segments"] = int(segments["num_segments"])
    else:
        out["segment_ids"] = None
        out["num_segments"] = None
    return out


def _model_inputs(mod):
    """what create_filter_mask / create_data_scs read off the processed model: variable_info rows, grids, signature of the concatenated filter"""
    import inspect
    from dags import concatenate_functions
    vi = mod.variable_info
    cols = ["is_state", "is_choice", "is_continuous", "is_discrete", "is_stochastic", "is_auxiliary", "is_sparse", "is_dense"]
    filter_names = mod.function_info.query("is_filter").index.tolist()
    sig = []
    if filter_names:
        sf = concatenate_functions(functions=mod.functions, targets=filter_names, aggregator=jnp.logical_and)
        sig = list(inspect.signature(sf).parameters)
    return {"variable_info": [[str(n), [bool(vi.loc[n, k]) for k in cols]] for n in vi.index],
            "grids": [[str(k), [to_wire(x) for x in np.asarray(v).tolist()]] for k, v in mod.grids.items()],
            "sig": sig}


def h_variable_info(c):
    """lcm.input_processing.util.get_variable_info on a user model, with the declarations and what dags reports about them"""
    from dags import get_ancestors
    from lcm.grids import ContinuousGrid
    from lcm.input_processing.util import get_variable_info, get_function_info, _get_auxiliary_variables, get_grids, get_gridspecs
    model = _build_model(c)
    vi = get_variable_info(model)
    cols = ["is_state", "is_choice", "is_continuous", "is_discrete", "is_stochastic", "is_auxiliary", "is_sparse", "is_dense"]
    fi = get_function_info(model)
    filtered = set()
    for name in fi.query("is_filter").index.tolist():
        filtered.update(get_ancestors(model.functions, name))
    aux = _get_auxiliary_variables(state_variables=list(model.states), function_info=fi, user_functions=model.functions)
    return {"rows": [[str(n), [bool(vi.loc[n, k]) for k in cols]] for n in vi.index],
            "grid_names": [str(k) for k in get_grids(model)], "gridspec_names": [str(k) for k in get_gridspecs(model)],
            "inputs": {"states": [[str(k), isinstance(v, ContinuousGrid)] for k, v in model.states.items()],
                       "choices": [[str(k), isinstance(v, ContinuousGrid)] for k, v in model.choices.items()],
                       "stochastic_next": [str(n) for n in fi.index if bool(fi.loc[n, "is_stochastic_next"])],
                       "auxiliary_variables": sorted(str(x) for x in aux),
                       "filtered_variables": sorted(str(x) for x in filtered)}}


def h_filter_mask(c):
    """lcm.state_space.create_filter_mask on a processed model, with the inputs it read off the model"""
    from lcm.input_processing import process_model
    from lcm.state_space import create_filter_mask
    mod = process_model(_build_model(c))
    if not mod.function_info.query("is_filter").index.tolist():
        return {"no_filters": True}        # lcm builds no mask for such a model (create_state_choice_space: has_sparse_vars is False)
    mask = create_filter_mask(model=mod, subset=c.get("subset"), fixed_inputs={"_period": c["period"]}, jit_filter=bool(c.get("jit")))
    mask = np.asarray(mask)
    return {"shape": list(mask.shape), "data": [bool(x) for x in mask.reshape(-1).tolist()], "inputs": _model_inputs(mod)}


def h_data_scs(c):
    """lcm.simulate.create_data_scs on a processed model; also reports the inputs it read off the model (variable_info, grids,
    the signature of the concatenated filter) so that the regenerated create_data_scs runs on the same inputs"""
    import inspect
    from dags import concatenate_functions
    from lcm.input_processing import process_model
    from lcm.simulate import create_data_scs
    mod = process_model(_build_model(c))
    states = {k: jnp.asarray(np.array([fq(x) for x in v], dtype=float)) for k, v in c["states"]}
    scs, seg = create_data_scs(states=states, model=mod, period=c["period"])
    vi = mod.variable_info
    cols = ["is_state", "is_choice", "is_continuous", "is_discrete", "is_stochastic", "is_auxiliary", "is_sparse", "is_dense"]
    filter_names = mod.function_info.query("is_filter").index.tolist()
    sig = []
    if filter_names:
        sf = concatenate_functions(functions=mod.functions, targets=filter_names, aggregator=jnp.logical_and)
        sig = list(inspect.signature(sf).parameters)
    out = {"sparse_names": list(scs.sparse_vars), "dense_names": list(scs.dense_vars),
           "sparse_vars": [[to_wire(x) for x in np.asarray(v).tolist()] for v in scs.sparse_vars.values()],
           "dense_vars": [[to_wire(x) for x in np.asarray(v).tolist()] for v in scs.dense_vars.values()],
           "segment_ids": None if seg is None else [int(x) for x in np.asarray(seg["segment_ids"])],
           "num_segments": None if seg is None else int(seg["num_segments"]),
           "inputs": {"variable_info": [[str(n), [bool(vi.loc[n, k]) for k in cols]] for n in vi.index],
                      "grids": [[str(k), [to_wire(x) for x in np.asarray(v).tolist()]] for k, v in mod.grids.items()],
                      "sig": sig}}
    return out


# ---- C14 ---------------------------------------------------------------------------------
def _disc_grid(n, name="C"):
    from dataclasses import make_dataclass, field
    from lcm import DiscreteGrid
    return DiscreteGrid(make_dataclass(name, [(f"c{i}", int, field(default=i)) for i in range(n)]))


def h_funrep(c):
    from lcm.function_representation import get_function_representation
    from lcm.interfaces import IndexerInfo, SpaceInfo
    from lcm import LinspaceGrid, LogspaceGrid
    vf = jnp.asarray(wire_arr(c["vf_arr"]))
    rnames, dnames, cnames = c["restricted_names"], c["dense_names"], c["cont_names"]
    axis_names = (["state_index"] if c["indexer"] is not None else []) + dnames + cnames
    if c.get("axis_names_override"):
        axis_names = c["axis_names_override"]
    lookup_info = {}
    if c["indexer"] is not None:
        for nm, n in zip(rnames, c["indexer"]["shape"]):
            lookup_info[nm] = _disc_grid(n)
    off = 1 if c["indexer"] is not None else 0
    for k, nm in enumerate(dnames):
        lookup_info[nm] = _disc_grid(c["vf_arr"]["shape"][off + k])
    interp = {}
    for nm, (a, b, n, v) in zip(cnames, c["conts"]):
        cls = LogspaceGrid if c.get("log") else LinspaceGrid
        interp[nm] = cls(start=float(fq(a)), stop=float(fq(b)), n_points=n)
    if c.get("interp_order"):
        interp = {k: interp[k] for k in c["interp_order"]}
    infos = [IndexerInfo(axis_names=rnames, name="state_indexer", out_name="state_index")] if c["indexer"] is not None else []
    info = SpaceInfo(axis_names=axis_names, lookup_info=lookup_info, interpolation_info=interp, indexer_infos=infos)
    f = get_function_representation(info, "vf_arr", input_prefix="next_")
    kw = {"vf_arr": vf}
    if c["indexer"] is not None:
        kw["state_indexer"] = jnp.asarray(np.array(c["indexer"]["data"], dtype=int).reshape(c["indexer"]["shape"]))
        for nm, l in zip(rnames, c["restricted_labels"]):
            kw["next_" + nm] = jnp.asarray(l)
    for nm, l in zip(dnames, c["dense_labels"]):
        kw["next_" + nm] = jnp.asarray(l)
    for nm, (a, b, n, v) in zip(cnames, c["conts"]):
        kw["next_" + nm] = jnp.asarray(fq(v), dtype=float)
    if c.get("jit"):
        f = jax.jit(f)
    return to_wire(f(**kw))


# ---- C07 ---------------------------------------------------------------------------------
def h_template(c):
    from lcm.entry_point import get_lcm_function
    model = _build_model(c)
    _, template = get_lcm_function(model, targets="solve")
    t = _template_wire(template)
    return {"keys": t["keys"], "entries": {k: v for k, v in t["entries"].items() if k not in ("beta", "shocks")},
            "shocks": t["entries"].get("shocks", {}) or {},
            "beta_is_nan": bool(np.isnan(np.asarray(template["beta"])))}


# ---- C09 ---------------------------------------------------------------------------------
def _leaves_equal(a, b):
    if isinstance(a, dict):
        return isinstance(b, dict) and list(a) == list(b) and all(_leaves_equal(a[k], b[k]) for k in a)
    x, y = np.asarray(a), np.asarray(b)
    return x.shape == y.shape and x.dtype == y.dtype and bool(np.array_equal(x, y, equal_nan=True)) and type(a) is type(b)


def _frame_wire(df):
    out = {}
    for col in df.columns:
        vals = np.asarray(df[col], dtype=float)
        out[col] = [None if math.isnan(x) else to_wire(x) for x in vals.tolist()]
    return {"columns": out, "index": [list(map(int, ix)) for ix in df.index.tolist()]}


def h_call_sequence(c):
    """One generated solve function and one generated simulate function are called repeatedly with
    interleaved arguments; every result is returned together with the result of freshly built
    functions for the same arguments, and the model / params objects are compared before/after."""
    import copy
    from lcm.entry_point import get_lcm_function
    _MODEL_CACHE.clear()
    model = _build_model(c)
    fkeys_before = list(model.functions)
    fobjs_before = [id(v) for v in model.functions.values()]
    solve, template = get_lcm_function(model, targets="solve")
    sim, template2 = get_lcm_function(model, targets="solve_and_simulate")
    results, fresh, notes = [], [], []
    if _template_wire(template) != _template_wire(template2):
        notes.append("two get_lcm_function calls on the same model return different templates")
    shared = None

    def _update_in_place(dst, src):
        for k in list(dst):
            if k not in src:
                del dst[k]
        for k, v in src.items():
            if isinstance(v, dict) and isinstance(dst.get(k), dict):
                _update_in_place(dst[k], v)
            else:
                dst[k] = v

    for call in c["calls"]:
        cc = {**c, "params": call["params"]}
        params = _build_params(cc, template, call.get("leaf", "jax"))
        if call.get("reuse_object") and shared is not None:
            # the caller keeps ONE params dict and updates it in place between calls (a parameter sweep)
            _update_in_place(shared, params)
            params = shared
        else:
            shared = params
        snapshot = copy.deepcopy(params)
        if call["kind"] == "solve":
            r = [_val_wire_arr(v) for v in solve(params)]
            f2, _ = get_lcm_function(model, targets="solve")
            r2 = [_val_wire_arr(v) for v in f2(_build_params(cc, template, "jax"))]
        else:
            from lcm.grids import DiscreteGrid as _DG
            init = {k: (jnp.asarray([int(fq(x)) for x in v]) if isinstance(model.states.get(k), _DG)
                        else jnp.asarray([fq(x) for x in v], dtype=float)) for k, v in call["initial_states"]}
            r = _frame_wire(sim(params, initial_states=init, seed=call["seed"]))
            f2, _ = get_lcm_function(model, targets="solve_and_simulate")
            r2 = _frame_wire(f2(_build_params(cc, template, "jax"), initial_states=init, seed=call["seed"]))
        if not _leaves_equal(params, snapshot):
            notes.append("params were modified by a call")
        results.append(r)
        fresh.append(r2)
    if list(model.functions) != fkeys_before:
        notes.append(f"model.functions keys changed: {fkeys_before} -> {list(model.functions)}")
    elif [id(v) for v in model.functions.values()] != fobjs_before:
        notes.append("model.functions values were replaced")
    return {"results": results, "fresh": fresh, "notes": notes}


# ---- C12 ---------------------------------------------------------------------------------
def h_validate_model(c):
    """raw spec: dict attributes may be None (not a dict), keys strings or other, values of the
    required kind or not"""
    from lcm import Model, LinspaceGrid
    from lcm.exceptions import ModelInitilizationError
    grid = LinspaceGrid(start=0.0, stop=1.0, n_points=2)

    def build(d, good):
        if d is None:
            return ["not", "a", "dict"]
        out = {}
        for k, (key, ok) in enumerate(d):
            kk = key if isinstance(key, str) else (k, "nonstring")
            out[kk] = good if ok else 3.14
        return out
    try:
        Model(n_periods=c["n_periods"], functions=build(c["functions"], (lambda: 0)),
              choices=build(c["choices"], grid), states=build(c["states"], grid))
    except ModelInitilizationError:
        return {"outcome": "reject"}
    except Exception as e:  # noqa: BLE001
        return {"outcome": "other:" + type(e).__name__, "detail": str(e)[:200]}
    return {"outcome": "accept"}


def h_creation_checks(c):
    """Model(...) must succeed; get_lcm_function must raise ValueError iff a creation rule is violated"""
    from lcm.entry_point import get_lcm_function
    try:
        model = _build_model(c)
    except Exception as e:  # noqa: BLE001
        return {"outcome": "model_rejected:" + type(e).__name__, "detail": str(e)[:200]}
    try:
        get_lcm_function(model, targets="solve")
    except ValueError as e:
        return {"outcome": "reject", "detail": str(e)[:200]}
    except Exception as e:  # noqa: BLE001
        return {"outcome": "other:" + type(e).__name__, "detail": str(e)[:200]}
    return {"outcome": "accept"}


def h_run_accepted(c):
    """an accepted specification must solve and simulate with template-following params"""
    from lcm.entry_point import get_lcm_function
    model = _build_model(c)
    stage = "get_lcm_function(solve)"
    try:
        solve, template = get_lcm_function(model, targets="solve")
        params = _build_params(c, template)
        stage = "solve"
        sol = solve(params)
        stage = "get_lcm_function(simulate)"
        sim, _ = get_lcm_function(model, targets="simulate")
        from lcm.grids import DiscreteGrid as _DG
        init = {k: (jnp.asarray([int(fq(x)) for x in v]) if isinstance(model.states.get(k), _DG)
                    else jnp.asarray([fq(x) for x in v], dtype=float)) for k, v in c["initial_states"]}
        stage = "simulate"
        kw = {}
        if c.get("additional_targets"):
            kw["additional_targets"] = c["additional_targets"]
        df = sim(params, initial_states=init, vf_arr_list=sol, **kw)
        return {"outcome": "ran", "n_rows": int(len(df))}
    except Exception as e:  # noqa: BLE001
        return {"outcome": "raised", "stage": stage, "class": type(e).__name__, "detail": str(e)[:300]}


def h_import_check(c):
    import subprocess, sys, os
    env = {k: v for k, v in os.environ.items()}
    r = subprocess.run([sys.executable, "-c", "import lcm.entry_point, lcm.simulate, lcm.ndimage; print('ok')"],
                       capture_output=True, text=True, env=env, cwd="/tmp")
    return {"ok": r.returncode == 0 and "ok" in r.stdout, "stderr": r.stderr[-300:]}


# ---- C08 ---------------------------------------------------------------------------------
def h_choice_segments(c):
    from lcm.simulate import create_choice_segments
    mask = jnp.asarray(np.array(c["mask"]["data"], dtype=bool))
    seg = create_choice_segments(mask, n_sparse_states=c["n_agents"])
    return {"segment_ids": [int(x) for x in np.asarray(seg["segment_ids"])], "num_segments": int(seg["num_segments"])}

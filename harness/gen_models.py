"""gen_models.py — random whole models (structure, grids, functions, parameters), their
rendering to Python source for lcm and to the JSON understood by the Coq runner."""
from fractions import Fraction

import exprlang as X


def json_dumps(e):
    return str(e)

STATE_NAMES = ["wealth", "health", "zeta", "age_grp", "kids", "lagged"]
CHOICE_NAMES = ["cons", "work", "alpha", "effort", "gift", "b_choice"]
PARAM_NAMES = ["a", "b", "scale"]


def gen_grid(rng, cont, used_sizes):
    if not cont:
        n = rng.choice([2, 2, 3, 3, 4])
        return {"d": n}
    for _ in range(10):
        # n - 1 a power of two and dyadic bounds: jnp.linspace is then exact, so comparisons of grid
        # values (constraints such as c <= w, c == d) are decided identically in floats and rationals
        n = rng.choice([2, 3, 3, 5, 5, 9])
        if n not in used_sizes:
            break
    used_sizes.add(n)
    a = Fraction(rng.randint(-8, 8), rng.choice([1, 2, 4]))
    step = Fraction(rng.choice([1, 2, 4, 8, 3, 5]), rng.choice([1, 2, 4]))
    return {"lin": [a, a + step * (n - 1), n]}


def gsize(g):
    return g["d"] if "d" in g else g["lin"][2]


def gpoints(g):
    if "d" in g:
        return [Fraction(i) for i in range(g["d"])]
    a, b, n = g["lin"]
    return [a + Fraction(i) * ((b - a) / (n - 1)) for i in range(n)]


def is_cont(g):
    return "lin" in g


def py_eval(mspec, params, env, name, depth=0):
    """evaluate a model function by name (Fractions); mirrors Spec.Lang.eval_fun"""
    f = next(x for x in mspec["functions"] if x["name"] == name)
    fnames = {x["name"] for x in mspec["functions"]}
    local = {}
    for a in f["args"]:
        if a in env:
            local[a] = env[a]
        elif a in fnames:
            local[a] = py_eval(mspec, params, env, a, depth + 1)
        else:
            local[a] = params["fpar"].get(name, {}).get(a, Fraction(0))
    return X.ev(f["body"], local)


def feasible_share(mspec, params):
    """share of (period, state) pairs with at least one admissible choice"""
    import itertools
    snames = [n for n, _ in mspec["states"]]
    cnames = [n for n, _ in mspec["choices"]]
    spts = [gpoints(g) for _, g in mspec["states"]]
    cpts = [gpoints(g) for _, g in mspec["choices"]]
    checks = [f["name"] for f in mspec["functions"] if f["name"].endswith(("_filter", "_constraint"))]
    tot = ok = 0
    for t in range(mspec["n_periods"]):
        for sv in itertools.product(*spts):
            tot += 1
            for cv in itertools.product(*cpts):
                env = dict(zip(snames, sv))
                env.update(zip(cnames, cv))
                env["_period"] = Fraction(t)
                if all(py_eval(mspec, params, env, c) != 0 for c in checks):
                    ok += 1
                    break
    return ok / max(tot, 1)


def excludes_states(mspec):
    """does some combination of the filter's state variables have no filter-passing choice in some period?"""
    import itertools
    flt = [f for f in mspec["functions"] if f["name"].endswith("_filter")]
    if not flt:
        return False
    grids = dict((n, g) for n, g in mspec["states"] + mspec["choices"])
    snames = {n for n, _ in mspec["states"]}
    names = sorted({a for f in flt for a in f["args"] if a != "_period"})
    sv = [n for n in names if n in snames]
    cv = [n for n in names if n not in snames]
    for t in range(mspec["n_periods"]):
        for scombo in itertools.product(*[gpoints(grids[n]) for n in sv]):
            ok = False
            for ccombo in itertools.product(*[gpoints(grids[n]) for n in cv]):
                env = dict(zip(sv, scombo))
                env.update(zip(cv, ccombo))
                env["_period"] = Fraction(t)
                if all(X.ev(f["body"], env) != 0 for f in flt):
                    ok = True
                    break
            if not ok:
                return True
    return False


def depends_on_variable(mspec, name, seen=()):
    """does the function (transitively) take a model variable or the period as argument?"""
    f = next(x for x in mspec["functions"] if x["name"] == name)
    fnames = {x["name"] for x in mspec["functions"]}
    variables = {n for n, _ in mspec["states"] + mspec["choices"]} | {"_period"}
    for a in f["args"]:
        if a in variables:
            return True
        if a in fnames and a not in seen and depends_on_variable(mspec, a, (*seen, name)):
            return True
    return False


def integralise(e):
    if e[0] == "c":
        return X.c(Fraction(round(X.ev(e, {}))))
    if e[0] == "v":
        return e
    return [e[0]] + [integralise(a) for a in e[1:]]


def gen_model(rng, *, min_share=0.7, allow_state_exclusion=True, **kw):
    """a random model in which at least min_share of the (period, state) pairs have an admissible choice;
    allow_state_exclusion=False: filters restrict choices only (every state keeps a passing choice)"""
    best = None
    for _ in range(40):
        mspec, params = gen_model_raw(rng, **kw)
        if not allow_state_exclusion and excludes_states(mspec):
            continue
        # transitions must depend on a model variable (a constant transition crashes lcm.simulate: C12)
        if any(f["name"].startswith("next_") and not f["stochastic"] and not depends_on_variable(mspec, f["name"])
               for f in mspec["functions"]):
            continue
        sh = feasible_share(mspec, params)
        if sh >= min_share:
            return mspec, params
        if best is None or sh > best[0]:
            best = (sh, mspec, params)
    if best is None:
        return gen_model(rng, min_share=0.0, allow_state_exclusion=allow_state_exclusion,
                         **{**kw, "allow_filter": False, "force": (kw.get("force") or set()) - {"filter", "period_filter"}})
    return best[1], best[2]


def gen_model_raw(rng, *, max_periods=3, allow_stochastic=True, allow_filter=True, force=None):
    """-> (mspec, params).  `force` may request features: set of {'filter','stochastic','constraint',
    'two_cont_choices','mixed_discrete_choices','period_filter'}"""
    force = force or set()
    T = rng.randint(1, max_periods)
    if {"stochastic", "two_stochastic"} & force:
        T = max(T, 2)
    if "period_filter" in force:
        T = max(T, min(max_periods, rng.choice([3, 3, 4])))      # interior periods exist
    ns, nc = rng.randint(1, 3), rng.randint(1, 3)
    snames = rng.sample(STATE_NAMES, ns)
    cnames = rng.sample(CHOICE_NAMES, nc)
    used = set()
    states, choices = [], []
    if "two_stochastic" in force and ns < 2:
        ns = 2
        snames = rng.sample(STATE_NAMES, ns)
    if "two_stochastic" in force:
        # names of which one is a suffix of the other (and whose next_ names sort the other way round): lookups of a
        # variable's own PRNG key, weights or grid by name must not confuse them
        rest = [n for n in snames[2:] if n not in ("health", "bad_health")]
        snames = ["health", "bad_health"] + rest
        ns = len(snames)
    eq_size = rng.choice([2, 3])
    for i, n in enumerate(snames):
        cont = rng.random() < 0.45
        if ({"filter", "period_filter"} & force) and i == 0:
            cont = False
        if {"all_discrete_states", "int_utility"} & force:       # every simulated row stays on the grid
            cont = False
        if "two_stochastic" in force and i < 2:
            states.append([n, {"d": eq_size}])      # two stochastic states of EQUAL size
            continue
        states.append([n, gen_grid(rng, cont, used)])
    for i, n in enumerate(cnames):
        cont = rng.random() < 0.5
        if "two_cont_choices" in force and i < 2:
            cont = True
        if "mixed_discrete_choices" in force and i < 2:
            cont = False
        if "int_utility" in force:
            cont = False
        choices.append([n, gen_grid(rng, cont, used)])
    if "two_cont_choices" in force and nc < 2:
        choices.append(["gift2", gen_grid(rng, True, used)])
    if "mixed_discrete_choices" in force and nc < 2:
        choices.append(["extra_d", gen_grid(rng, False, used)])
    dstates = [n for n, g in states if not is_cont(g)]
    dchoices = [n for n, g in choices if not is_cont(g)]
    allvars = [n for n, _ in states] + [n for n, _ in choices]
    grids = dict((n, g) for n, g in states + choices)
    funcs = []
    fpar = {}

    def add(name, args, body, stochastic=False, pars=()):
        args = list(args)
        rng.shuffle(args)
        funcs.append({"name": name, "args": args, "body": body, "stochastic": stochastic})
        fpar[name] = {p: Fraction(rng.choice([2, 3, 5, 7, 11, 13]), rng.choice([1, 2, 4])) for p in pars}

    def pick_pars():
        return rng.sample(PARAM_NAMES, rng.choice([0, 0, 1, 1, 2]))

    # ---- filters ----------------------------------------------------------------------
    restricted = set()
    want_filter = ("filter" in force or "period_filter" in force or
                   (allow_filter and dstates and rng.random() < 0.45))
    if want_filter and dstates:
        nf = 1 if rng.random() < (0.5 if "period_filter" in force else 0.8) else 2
        if "two_filters" in force:
            nf = 2
        for k in range(nf):
            fs = rng.sample(dstates, rng.randint(1, min(2, len(dstates))))
            fc = rng.sample(dchoices, rng.randint(0, min(1 if "mixed_discrete_choices" in force else 2, len(dchoices)))) if dchoices else []
            if "mixed_discrete_choices" in force and dchoices:
                fc = dchoices[:1]
            names = fs + fc
            use_period = ("period_filter" in force and k == 0) or ("period_filter" not in force and rng.random() < 0.3)
            for _ in range(30):
                body = X.gen_bool(rng, names + (["_period"] if use_period else []), 2)
                if use_period and rng.random() < 0.7:
                    # everything passes in ONE period, a non-trivial restriction applies in the others:
                    # the space of an interior period differs from the space of period 0
                    body = ["or", X.gen_bool(rng, names, 2), ["==", X.v("_period"), X.c(rng.choice([0, 0, 1]))]]
                used_names = X.names_in(body)
                if not set(fs) <= used_names or not set(fc) <= used_names:
                    continue
                if use_period and "_period" not in used_names:
                    continue
                # non-constant and leaves something in every period
                ok = True
                seen = set()
                for t in range(T):
                    any_pass = False
                    import itertools
                    for combo in itertools.product(*[gpoints(grids[n]) for n in names]):
                        env = dict(zip(names, combo))
                        env["_period"] = Fraction(t)
                        r = X.ev(body, env) != 0
                        seen.add(r)
                        any_pass = any_pass or r
                    ok = ok and any_pass
                if ok and len(seen) == 2:
                    break
            else:
                continue
            args = sorted(X.names_in(body))
            add(f"f{k}_filter" if k else "admissible_filter", args, body)
            restricted |= set(names)

    # ---- auxiliary functions ------------------------------------------------------------
    aux = []
    for k in range(0 if "int_utility" in force else rng.choice([0, 0, 1, 1, 2])):
        pars = pick_pars()
        pool = rng.sample(allvars, rng.randint(1, min(3, len(allvars)))) + aux + (["_period"] if rng.random() < 0.2 else [])
        body = X.gen_num(rng, pool + pars, 2)
        if rng.random() < 0.35:
            body = ["asum", body, X.gen_num(rng, pool + pars, 1)]
        name = ["income", "zz_aux", "helper"][k]
        add(name, sorted(X.names_in(body)), body, pars=[p for p in pars if p in X.names_in(body)])
        aux.append(name)

    # ---- constraints ---------------------------------------------------------------------
    ncons = rng.choice([0, 1, 1, 2]) if not ({"constraint", "int_utility", "dead_state"} & force) else rng.choice([1, 2])
    for k in range(ncons):
        pars = pick_pars()
        cvars = [n for n, g in choices]
        pool = rng.sample(cvars, rng.randint(1, min(2, len(cvars)))) + rng.sample([n for n, _ in states], rng.randint(0, min(2, ns)))
        if aux and rng.random() < 0.3:
            pool.append(rng.choice(aux))
        if rng.random() < 0.15:
            pool.append("_period")
        if ({"int_utility", "dead_state"} & force) and k == 0 and dchoices and dstates:
            # some states have no admissible choice at all: choice <= state - 1
            body = ["<=", X.v(dchoices[0]), ["+", X.v(dstates[0]), X.c(-1)]]
        elif rng.random() < 0.5 and len(pool) >= 2:
            # budget-like: x <= y + const
            body = ["<=", X.v(pool[0]), ["+", X.v(pool[1]), X.c(Fraction(rng.randint(-2, 6), 2))]]
        else:
            body = X.gen_bool(rng, pool + pars, 1)
            if not (X.names_in(body) & set(allvars)):        # a constraint must involve a model variable
                body = ["<=", X.v(pool[0]), ["+", X.v(pool[0]), X.c(Fraction(rng.randint(0, 3), 2))]]
        add(["budget_constraint", "upper_constraint"][k], sorted(X.names_in(body)), body,
            pars=[p for p in pars if p in X.names_in(body)])

    # ---- transitions -----------------------------------------------------------------------
    stoch = []
    for n, g in states:
        if (not is_cont(g)) and allow_stochastic and dstates and (
                ("stochastic" in force and not stoch) or ("two_stochastic" in force and len(stoch) < 2 and n in [x for x, _ in states[:2]])
                or rng.random() < 0.3):
            deps_pool = [d for d in dstates + dchoices]
            deps = rng.sample(deps_pool, rng.randint(1, min(2, len(deps_pool))))
            if rng.random() < 0.4:
                deps.append("_period")
            rng.shuffle(deps)
            funcs.append({"name": f"next_{n}", "args": deps, "body": X.c(0), "stochastic": True})
            fpar[f"next_{n}"] = {}
            stoch.append(n)
            continue
        pars = pick_pars()
        if is_cont(g):
            # lcm.simulate evaluates transitions on whole columns (known finding C03): transitions only
            # use auxiliary functions that are element-wise
            ew_aux = [a_ for a_ in aux if "asum" not in json_dumps(next(f for f in funcs if f["name"] == a_)["body"])
                      and all("asum" not in json_dumps(next(f for f in funcs if f["name"] == d)["body"])
                              for d in next(f for f in funcs if f["name"] == a_)["args"] if d in aux)]
            pool = [n] + rng.sample(allvars, rng.randint(0, min(2, len(allvars)))) + (ew_aux[:1] if ew_aux and rng.random() < 0.3 else [])
            if rng.random() < 0.2:
                pool.append("_period")
            a, b, npts = g["lin"]
            body = X.gen_num(rng, pool + pars, 2)
            if not (X.names_in(body) - set(pars)):
                body = ["+", body, X.v(n)]
            if rng.random() < 0.6:   # keep mostly near the grid
                body = ["clip", body, X.c(a - (b - a) / 2), X.c(b + (b - a) / 2)]
        else:
            pool = rng.sample(dstates + dchoices, rng.randint(1, min(3, len(dstates + dchoices))))
            if rng.random() < 0.25:
                pool.append("_period")
            terms = [X.v(x) for x in pool] + [X.c(rng.randint(-1, 1))]
            inner = X.sum_of(terms) if rng.random() < 0.7 else ["-", X.v(pool[0]), X.c(rng.randint(0, 1))]
            body = ["clip", inner, X.c(0), X.c(g["d"] - 1)]
            pars = []
        add(f"next_{n}", sorted(X.names_in(body)), body, pars=[p for p in pars if p in X.names_in(body)])

    # ---- utility: every state and choice must enter utility, a constraint or a filter -----
    mentioned = set()
    for f in funcs:
        if not f["name"].startswith("next_"):
            mentioned |= set(f["args"])
    pars = pick_pars()
    pool = rng.sample(allvars, rng.randint(1, min(3, len(allvars)))) + aux
    if rng.random() < 0.2:
        pool.append("_period")
    body = X.gen_num(rng, pool + pars, 3)
    # a function that takes the OUTPUT of a deterministic transition function as argument
    det_next = [f["name"] for f in funcs if f["name"].startswith("next_") and not f["stochastic"]]
    if det_next and ("next_arg" in force or rng.random() < 0.1):
        body = ["+", body, ["*", X.c(Fraction(rng.choice([1, 2, -1]), 2)), X.v(rng.choice(det_next))]]
    used_now = X.names_in(body) | mentioned
    for aname in aux:
        if aname not in used_now:
            body = ["+", body, X.v(aname)]
    used_now = X.names_in(body) | mentioned
    # aux functions only count if they are used; recompute reachability roughly: add missing vars directly
    missing = [x for x in allvars if x not in X.names_in(body) and x not in
               set().union(*[set(f["args"]) for f in funcs if f["name"].endswith(("_constraint", "_filter"))] or [set()])]
    for x in missing:
        body = ["+", body, ["*", X.c(Fraction(rng.choice([1, 3, 5, -2]), rng.choice([1, 2]))), X.v(x)]]
    if "separating" in force:
        # the value must tell the states apart (layout checks): a linear term with a different weight per state
        for i, (sn, _) in enumerate(states):
            body = ["+", body, ["*", X.c(Fraction(2 * i + 3, 8)), X.v(sn)]]
    if "int_utility" in force:
        # integer valued: discrete variables, integral constants, no parameters
        body = X.gen_num(rng, allvars, 3)
        for x in allvars:
            if x not in X.names_in(body):
                body = ["+", body, ["*", X.c(rng.choice([1, 3, -2])), X.v(x)]]
        body = integralise(body)
        pars = []
    elif "asum_utility" in force or rng.random() < 0.3:      # written as a reduction over a stacked array (not element-wise on columns)
        body = ["asum", body, X.c(Fraction(rng.randint(0, 3), 2))]
    add("utility", sorted(X.names_in(body)), body, pars=[p for p in pars if p in X.names_in(body)])

    # the filters together must leave something in every period; otherwise keep only the first
    flt = [f for f in funcs if f["name"].endswith("_filter")]
    if len(flt) > 1:
        import itertools
        names = sorted({a for f in flt for a in f["args"] if a != "_period"})
        for t in range(T):
            ok = False
            for combo in itertools.product(*[gpoints(grids[n]) for n in names]):
                env = dict(zip(names, combo))
                env["_period"] = Fraction(t)
                if all(X.ev(f["body"], env) != 0 for f in flt):
                    ok = True
                    break
            if not ok:
                funcs = [f for f in funcs if f not in flt[1:]]
                for f in flt[1:]:
                    fpar.pop(f["name"], None)
                # a variable that entered only a dropped filter must enter utility now (no auxiliary states)
                ufun = next(f for f in funcs if f["name"] == "utility")
                covered = set(X.names_in(ufun["body"])).union(
                    *[set(f["args"]) for f in funcs if f["name"].endswith(("_constraint", "_filter"))] or [set()])
                for x in allvars:
                    if x not in covered:
                        coef = X.c(rng.choice([1, 3, -2])) if "int_utility" in force else X.c(Fraction(rng.choice([1, 3, 5, -2]), 2))
                        ufun["body"] = ["+", ufun["body"], ["*", coef, X.v(x)]]
                        ufun["args"] = sorted(set(ufun["args"]) | {x})
                break

    # random declaration order of the functions
    rng.shuffle(funcs)
    mspec = {"n_periods": T, "states": states, "choices": choices, "functions": funcs}

    # ---- parameters -------------------------------------------------------------------------
    shocks = {}
    for s in stoch:
        f = next(x for x in funcs if x["name"] == f"next_{s}")
        dims = [T if d == "_period" else gsize(grids[d]) for d in f["args"]]
        n = gsize(grids[s])
        size = 1
        for d in dims:
            size *= d
        data = []
        for _ in range(size):
            r = rng.random()
            if r < 0.25:
                row = [Fraction(0)] * n
                row[rng.randrange(n)] = Fraction(1)
            else:
                cuts = sorted(rng.randint(0, 8) for _ in range(n - 1))
                row = [Fraction(b - a, 8) for a, b in zip([0] + cuts, cuts + [8])]
            data += row
        shocks[s] = {"shape": dims + [n], "data": data}
    params = {"beta": Fraction(rng.choice([1, 1, 3, 7, 15, 1]), rng.choice([1, 2, 4, 8, 16, 1])),
              "fpar": fpar, "shocks": shocks}
    if params["beta"] > 1:
        params["beta"] = Fraction(1, 2)
    return mspec, params


# ---------------------------------------------------------------------------------------------
# rendering
# ---------------------------------------------------------------------------------------------
def render_python(mspec):
    """Python source defining MODEL (an lcm Model)"""
    lines = ["import jax.numpy as jnp", "from dataclasses import make_dataclass, field", "import lcm",
             "from lcm import Model, DiscreteGrid, LinspaceGrid", ""]

    def grid_src(name, g):
        if "d" in g:
            flds = ", ".join(f"('c{i}', int, field(default={i}))" for i in range(g["d"]))
            return f"DiscreteGrid(make_dataclass('Cat_{name}', [{flds}]))"
        a, b, n = g["lin"]
        return f"LinspaceGrid(start={float(a)!r}, stop={float(b)!r}, n_points={n})"

    for f in mspec["functions"]:
        if f["stochastic"]:
            lines.append("@lcm.mark.stochastic")
            lines.append(f"def {f['name']}({', '.join(f['args'])}):\n    pass\n")
        else:
            lines.append(f"def {f['name']}({', '.join(f['args'])}):\n    return {X.to_py(f['body'])}\n")
    lines.append("MODEL = Model(")
    lines.append(f"    n_periods={mspec['n_periods']},")
    lines.append("    functions={" + ", ".join(f"'{f['name']}': {f['name']}" for f in mspec["functions"]) + "},")
    lines.append("    choices={" + ", ".join(f"'{n}': {grid_src(n, g)}" for n, g in mspec["choices"]) + "},")
    lines.append("    states={" + ", ".join(f"'{n}': {grid_src(n, g)}" for n, g in mspec["states"]) + "},")
    lines.append(")")
    return "\n".join(lines) + "\n"


def model_json(mspec, q):
    def gj(g):
        if "d" in g:
            return {"d": g["d"]}
        a, b, n = g["lin"]
        return {"lin": [q(a), q(b), n]}
    return {"n_periods": mspec["n_periods"],
            "states": [[n, gj(g)] for n, g in mspec["states"]],
            "choices": [[n, gj(g)] for n, g in mspec["choices"]],
            "functions": [{"name": f["name"], "args": f["args"], "body": X.to_json(f["body"], q),
                           "stochastic": f["stochastic"]} for f in mspec["functions"]]}


def params_json(params, q):
    return {"beta": q(params["beta"]),
            "fpar": [[fn, [[pn, q(v)] for pn, v in ps.items()]] for fn, ps in params["fpar"].items()],
            "shocks": [[s, {"shape": a["shape"], "data": [q(x) for x in a["data"]]}] for s, a in params["shocks"].items()]}


def mspec_to_wire(mspec, q):
    """JSON-safe copy of a model spec (Fractions -> wire numbers), for replay files"""
    return model_json(mspec, q)

"""meta.py — metamorphic rewritings of generated models (C10, C11) and helpers to compare the
solutions lcm returns for the original and the rewritten model."""
import copy
import itertools
from fractions import Fraction

import exprlang as X
import gen_models as G
from core import q, unq, close, run_model, run_impl


# ---------------------------------------------------------------------------------------------
# rewritings (all return (mspec', params'))
# ---------------------------------------------------------------------------------------------
def permute(rng, m, p):
    m2 = copy.deepcopy(m)
    rng.shuffle(m2["states"])
    rng.shuffle(m2["choices"])
    rng.shuffle(m2["functions"])
    for f in m2["functions"]:
        if not f["stochastic"]:           # the signature order of a stochastic transition fixes the array layout
            rng.shuffle(f["args"])
    return m2, copy.deepcopy(p)


def rename_expr(e, ren):
    if e[0] == "v":
        return ["v", ren.get(e[1], e[1])]
    if e[0] == "c":
        return e
    return [e[0]] + [rename_expr(a, ren) for a in e[1:]]


def rename(rng, m, p):
    """consistent renaming of states, choices and auxiliary functions (keeping next_/_filter/_constraint)"""
    pool = ["xa", "yb", "qq", "mm", "aa_first", "zz_last", "kk", "vv", "nn", "dd"]
    rng.shuffle(pool)
    ren = {}
    for n, _ in m["states"] + m["choices"]:
        ren[n] = pool.pop()
    fnames = {f["name"] for f in m["functions"]}
    for f in m["functions"]:
        n = f["name"]
        if n.startswith("next_"):
            ren[n] = "next_" + ren[n[5:]]
        elif n == "utility" or n.endswith(("_filter", "_constraint")):
            continue
        else:
            ren[n] = "fx_" + pool.pop()
    m2 = copy.deepcopy(m)
    m2["states"] = [[ren[n], g] for n, g in m["states"]]
    m2["choices"] = [[ren[n], g] for n, g in m["choices"]]
    for f in m2["functions"]:
        f["name"] = ren.get(f["name"], f["name"])
        f["args"] = [ren.get(a, a) for a in f["args"]]
        f["body"] = rename_expr(f["body"], ren)
    p2 = copy.deepcopy(p)
    p2["fpar"] = {ren.get(fn, fn): ps for fn, ps in p["fpar"].items()}
    p2["shocks"] = {ren.get(s, s): a for s, a in p["shocks"].items()}
    return m2, p2, ren


def add_true_restriction(rng, m, p):
    m2, p2 = copy.deepcopy(m), copy.deepcopy(p)
    dstates = [n for n, g in m["states"] if not G.is_cont(g)]
    as_filter = bool(dstates) and rng.random() < 0.5
    if as_filter:
        s = rng.choice(dstates)
        body = ["or", ["<=", X.c(0), X.v(s)], ["==", X.v(s), X.c(7)]]
        name, args = "always_filter", [s]
        # keep the set of restricted variables: use a state that is already restricted if there is one
        for f in m["functions"]:
            if f["name"].endswith("_filter"):
                cand = [a for a in f["args"] if a in dstates]
                if cand:
                    s = cand[0]
                    body = ["or", ["<=", X.c(0), X.v(s)], ["==", X.v(s), X.c(7)]]
                    args = [s]
                    break
        else:
            return None          # would change which variables are restricted (layout changes): skip
    else:
        v = rng.choice([n for n, _ in m["states"] + m["choices"]])
        body = ["or", ["<=", X.v(v), X.v(v)], ["<", X.v(v), X.c(0)]]
        name, args = "always_constraint", [v]
    m2["functions"].insert(rng.randint(0, len(m2["functions"])), {"name": name, "args": args, "body": body, "stochastic": False})
    p2["fpar"][name] = {}
    return m2, p2


def filter_to_constraint(rng, m, p):
    """declare the (parameter-free, discrete) filters as constraints instead"""
    flt = [f for f in m["functions"] if f["name"].endswith("_filter")]
    if not flt:
        return None
    m2, p2 = copy.deepcopy(m), copy.deepcopy(p)
    for f in m2["functions"]:
        if f["name"].endswith("_filter"):
            new = f["name"][:-7] + "_moved_constraint"
            p2["fpar"][new] = p2["fpar"].pop(f["name"], {})
            f["name"] = new
    return m2, p2


def affine_utility(rng, m, p):
    a = Fraction(rng.choice([2, 3, 1, 5]), rng.choice([1, 2, 4]))
    b = Fraction(rng.randint(-6, 6), 2)
    m2 = copy.deepcopy(m)
    for f in m2["functions"]:
        if f["name"] == "utility":
            f["body"] = ["+", ["*", X.c(a), f["body"]], X.c(b)]
    return m2, copy.deepcopy(p), a, b


def degenerate(rng, m, p):
    """make every transition row a unit vector and build the equivalent deterministic model"""
    stoch = [f for f in m["functions"] if f["stochastic"]]
    if not stoch:
        return None
    grids = dict((n, g) for n, g in m["states"] + m["choices"])
    p1 = copy.deepcopy(p)
    m2 = copy.deepcopy(m)
    for f in stoch:
        s = f["name"][5:]
        dims = [m["n_periods"] if d == "_period" else G.gsize(grids[d]) for d in f["args"]]
        n = G.gsize(grids[s])
        data, table = [], {}
        for combo in itertools.product(*[range(d) for d in dims]):
            k = rng.randrange(n)
            table[combo] = k
            data += [Fraction(int(j == k)) for j in range(n)]
        p1["shocks"][s] = {"shape": dims + [n], "data": data}
        # g(deps) as nested where-expressions
        body = X.c(0)
        for combo, k in table.items():
            cond = None
            for d, val in zip(f["args"], combo):
                cnd = ["==", X.v(d), X.c(val)]
                cond = cnd if cond is None else ["and", cond, cnd]
            body = ["where", cond, X.c(k), body] if cond is not None else X.c(k)
        for g in m2["functions"]:
            if g["name"] == f["name"]:
                g["stochastic"] = False
                g["body"] = body
    p2 = copy.deepcopy(p1)
    for f in stoch:
        p2["shocks"].pop(f["name"][5:], None)
    return p1, m2, p2


# ---------------------------------------------------------------------------------------------
# running and comparing
# ---------------------------------------------------------------------------------------------
def case_of(mspec, params, jit=True):
    return {"fn": "solve_spec", "model": G.model_json(mspec, q), "params": G.params_json(params, q),
            "py": G.render_python(mspec), "jit": jit}


def solve_all(cases):
    """lcm solutions and the documented position of every state (from the Spec's layout); entries that
    the Spec marks undefined (the model leaves the supported class there: a transition leads into a
    filter-excluded state, a -inf would be read back) are blanked out so that they are not compared"""
    ires = run_impl(cases)
    lres = run_model([{**c, "fn": "layout_map"} for c in cases])
    sres = run_model([{**c, "fn": "solve_spec"} for c in cases])
    out = []
    for i, s in zip(ires, sres):
        if isinstance(i, list) and isinstance(s, list) and len(i) == len(s):
            i = [{"shape": a["shape"], "data": [x if (k < len(b["data"]) and b["data"][k] is not None) else None
                                                for k, x in enumerate(a["data"])]} for a, b in zip(i, s)]
        out.append(i)
    return out, lres


def by_state(sol, lay, ren=None):
    """-> list over periods of dict { frozenset((state name, grid index)) : value }"""
    out = []
    for a, l in zip(sol, lay):
        d = {}
        for v, st in zip(a["data"], l["states"]):
            key = frozenset(((ren.get(n, n) if ren else n), i) for n, i in st)
            d[key] = v
        out.append(d)
    return out


def compare_by_state(va, vb, only_common=True, tol=1e-9, transform=None):
    """va, vb: outputs of by_state; returns None or a description of the first difference"""
    if len(va) != len(vb):
        return f"{len(va)} vs {len(vb)} periods"
    for t, (da, db) in enumerate(zip(va, vb)):
        keys = set(da) & set(db) if only_common else set(da) | set(db)
        if not only_common and set(da) != set(db):
            return f"period {t}: the two solutions store different sets of states"
        for k in keys:
            x, y = da[k], db[k]
            if x is None or y is None:
                continue
            if transform is not None:
                x = transform(t, x)
            if x is None:
                continue
            if close(x, y, tol) == "diff":
                return f"period {t}, state {sorted(k)}: {x} vs {y}"
    return None

"""e2e.py — end-to-end families shared by C01/C02/C03/C05/C06/C07/C08/C10/C11/C13:
random whole models solved / simulated by the real lcm and judged by the extracted Spec."""
import json
from fractions import Fraction

import gen_models as G
from core import Family, q, unq, close, run_model, run_impl, cmp_tree

FEATURES = [set(), {"filter"}, {"period_filter"}, {"stochastic"}, {"constraint"},
            {"two_cont_choices"}, {"mixed_discrete_choices", "filter"}, {"filter", "stochastic"},
            {"constraint", "two_cont_choices"}, {"two_stochastic"}, {"period_filter", "stochastic"},
            {"period_filter", "two_filters"}, set()]
# every second feature set additionally asks for a utility that tells all states apart
FEATURES = [f | {"separating"} if k % 2 == 0 else f for k, f in enumerate(FEATURES)]

TRUSTED = [
    "Spec/Lang.v, Spec/Bellman.v, Spec/Layout.v are the specification (hand-written, independent of lcm's array code); the runner evaluates them on the generated model",
    "harness/exprlang.py + gen_models.py render the same model to Python source for lcm and to the runner's JSON (trusted renderers)",
    "dags.concatenate_functions / get_ancestors: evaluation of the function DAG by name (third party), mirrored by Spec.Lang.eval_fun",
    "extraction ExtrOcamlBasic + ExtrOcamlNativeString, ocaml/driver.ml",
]
ASSUMPTIONS = [
    "exact rational arithmetic in the Spec; lcm's float64 results are compared exactly when all intermediate values are dyadic and within 1e-9 relative otherwise",
    "entries that the Spec marks undefined (a -inf or out-of-grid discrete value would be read back by lcm, producing nan or a silently wrapped index) are outside the domain and are not compared",
    "linear grids only in whole-model runs (log grids: C15)",
]


# Crashes of lcm on accepted models that are known findings of C12 (see known_findings.json): a
# simulation that dies with one of these is outside the domain of the other properties; any OTHER
# exception raised by lcm on a generated model is reported as a violation of the property under test.
KNOWN_CRASHES = [
    ("target_without_model_variable", ["vmap must have at least one non-None value in in_axes"]),
]


def known_crash(detail):
    for name, pats in KNOWN_CRASHES:
        if any(p in str(detail) for p in pats):
            return name
    return None


def describe(mspec, params):
    return {"T": mspec["n_periods"],
            "states": [("c" if G.is_cont(g) else "d") + str(G.gsize(g)) for _, g in mspec["states"]],
            "choices": [("c" if G.is_cont(g) else "d") + str(G.gsize(g)) for _, g in mspec["choices"]],
            "filters": sum(f["name"].endswith("_filter") for f in mspec["functions"]),
            "constraints": sum(f["name"].endswith("_constraint") for f in mspec["functions"]),
            "stochastic": sum(f["stochastic"] for f in mspec["functions"]),
            "aux": sum(not (f["name"].startswith("next_") or f["name"].endswith(("_filter", "_constraint")) or f["name"] == "utility") for f in mspec["functions"])}


def gen_cases(rng, n, fn="solve_spec", max_periods=3, features=None, **kw):
    cases = []
    for k in range(n):
        force = (features or FEATURES)[k % len(features or FEATURES)]
        mspec, params = G.gen_model(rng, max_periods=max_periods, force=force, **kw)
        cases.append({"fn": fn, "model": G.model_json(mspec, q), "params": G.params_json(params, q),
                      "py": G.render_python(mspec), "_mspec": mspec, "_params": params, "_force": sorted(force)})
    return cases


def wire(case):
    return {k: v for k, v in case.items() if not k.startswith("_")}


def slim(case):
    """replay-friendly copy of a case"""
    return wire(case)


def count_entries(arrs):
    defined = undefined = neginf = 0
    for a in arrs:
        for x in a["data"]:
            if x is None:
                undefined += 1
            elif x == "-inf":
                neginf += 1
            else:
                defined += 1
    return defined, undefined, neginf


def fam_solve(rng, n, *, name="solve_vs_spec", max_periods=3, jit_modes=(True, False), features=None, beta_zero=False):
    """lcm.solve vs the Spec's Bellman tables in the documented layout"""
    fam = Family(name,
                 "random whole models: 1-3 periods, 1-3 states and 1-3 choices (discrete 2-4 labels, linear "
                 "grids of 2-5 points, all sizes different), random expression functions (utility, 0-2 "
                 "auxiliary, 0-2 constraints, 0-2 filters incl. period-dependent ones, deterministic and "
                 "stochastic transitions with dyadic rows incl. zeros), colliding parameter names, shuffled "
                 "declaration order; features forced in rotation; solved with jit on and off; every defined "
                 "entry of every period's array compared with the Spec's value in the documented layout; "
                 "distinct = distinct model source + params; non-trivial = >= 2 periods or a filter/constraint")
    cases = gen_cases(rng, n, max_periods=max_periods, features=features)
    if beta_zero:
        for c in cases:
            c["_params"]["beta"] = Fraction(0)
            c["params"] = G.params_json(c["_params"], q)
    wcases = []
    for k, c in enumerate(cases):
        w = wire(c)
        w["jit"] = jit_modes[k % len(jit_modes)]
        wcases.append(w)
    sres = run_model(wcases)
    ires = run_impl(wcases)
    results = []
    for c, w, s, i in zip(cases, wcases, sres, ires):
        d = describe(c["_mspec"], c["_params"])
        nontrivial = d["T"] >= 2 or d["filters"] or d["constraints"]
        fam.count({"py": c["py"], "params": c["params"]}, nontrivial)
        for key in ("filters", "constraints", "stochastic", "aux"):
            if d[key]:
                fam.bump("with_" + key)
        fam.bump(f"periods={d['T']}")
        fam.bump("jit" if w["jit"] else "nojit")
        if isinstance(s, dict) and "error" in s:
            fam.disagreements.append({"case": slim(w), "spec": s, "what": "the runner could not evaluate the case"})
            results.append(None)
            continue
        if isinstance(i, dict) and "error" in i:
            fam.violations.append({"case": slim(w), "impl": i, "spec_shapes": [a["shape"] for a in s],
                                   "what": "lcm raised on a generated model: " + str(i.get("detail"))[:200]})
            results.append(None)
            continue
        dfn, undef, ninf = count_entries(s)
        fam.bump("entries_defined", dfn)
        fam.bump("entries_outside_domain", undef)
        fam.bump("entries_neginf", ninf)
        bad = None
        if len(i) != len(s):
            bad = f"{len(i)} arrays for {len(s)} periods"
        else:
            for t, (a, b) in enumerate(zip(i, s)):
                if a["shape"] != b["shape"]:
                    bad = f"period {t}: shape {a['shape']} but the documented layout gives {b['shape']}"
                    break
        worst = "exact"
        if not bad:
            for t, (a, b) in enumerate(zip(i, s)):
                for k_, (x, y) in enumerate(zip(a["data"], b["data"])):
                    if y is None:
                        continue
                    r = close(x, y) if x is not None else "diff"
                    if r == "diff":
                        bad = f"period {t}, flat position {k_}: lcm {x} but Bellman value {y}"
                        break
                    if r == "tolerant":
                        worst = "tolerant"
                if bad:
                    break
        if bad:
            fam.violations.append({"case": slim(w), "impl": i, "spec": s, "what": bad})
        elif worst == "exact":
            fam.exact += 1
        else:
            fam.tolerant += 1
        results.append((c, w, s, i))
    return fam, results


def panel_rows(case, panel):
    """rows of lcm's panel as inputs of the runner's row oracle"""
    m = case["_mspec"]
    cols = panel["columns"]
    n = panel["n_rows"]
    rows = []
    for r in range(n):
        rows.append({"t": panel["index"][r][0],
                     "states": [[s, cols[s][r]] for s, _ in m["states"]],
                     "choices": [[c_, cols[c_][r]] for c_, _ in m["choices"]]})
    return rows


def gen_initial_states(rng, mspec, n_agents, on_grid=False, integral=False):
    """integral=True: continuous states get integer values (passed to lcm as an integer array)"""
    init = []
    for s, g in mspec["states"]:
        pts = G.gpoints(g)
        vals = []
        for _ in range(n_agents):
            if G.is_cont(g) and integral:
                lo, hi = pts[0], pts[-1]
                vals.append(Fraction(rng.randint(int(lo) - 1, int(hi) + 1)))
            elif not G.is_cont(g) or on_grid or rng.random() < 0.4:
                vals.append(rng.choice(pts))
            else:
                lo, hi = pts[0], pts[-1]
                vals.append(lo + (hi - lo) * Fraction(rng.randint(-2, 18), 16))
        init.append([s, [q(v) for v in vals]])
    return init


# ---------------------------------------------------------------------------------------------
# simulation family
# ---------------------------------------------------------------------------------------------
def target_candidates(mspec):
    out = []
    for f in mspec["functions"]:
        if f["stochastic"]:
            continue
        out.append(f["name"])
    return [n for n in out if not n.endswith("_filter")]


def probe_cases():
    """Fixed simulate inputs in the territory of C12's known findings (lcm raises there on the unchanged tree, which is
    reported by C12's own check and counted as outside here).  If a change makes lcm return a panel instead, every row is
    judged like any other: a silent wrong answer in place of the error is a violation of the simulation properties."""
    from fractions import Fraction as F
    X = G.X
    out = []

    def case(mspec, params, initial_states, targets=None, tag=""):
        return {"fn": "simulate", "model": G.model_json(mspec, q), "params": G.params_json(params, q),
                "py": G.render_python(mspec), "_mspec": mspec, "_params": params, "_force": ["probe:" + tag],
                "_probe": {"initial_states": initial_states, "targets": targets}}

    # (1) agents whose filter-restricted state has no filter-passing choice (s = 0), in several positions of the batch
    m1 = {"n_periods": 2, "states": [["s", {"d": 3}]], "choices": [["c", {"d": 2}]],
          "functions": [{"name": "utility", "args": ["s", "c"], "body": ["+", ["+", X.v("s"), X.v("c")], X.c(F(1, 2))], "stochastic": False},
                        {"name": "next_s", "args": ["s"], "body": X.v("s"), "stochastic": False},
                        {"name": "ok_filter", "args": ["s", "c"], "body": ["and", ["<=", X.c(1), X.v("s")], ["<=", X.v("c"), X.v("s")]], "stochastic": False}]}
    p1 = {"beta": F(1), "fpar": {"utility": {}, "next_s": {}, "ok_filter": {}}, "shocks": {}}
    for init in ([0, 1, 2, 0], [0, 0, 1, 2], [2, 0, 1, 0, 0, 1]):
        out.append(case(m1, p1, [["s", [q(F(x)) for x in init]]], tag="no_admissible_restricted_choice"))
    # (2) no crash here: the filter removes the FIRST restricted-choice combination (the one the utility prefers) in most
    #     states; every agent keeps an admissible choice.  A data space that keeps or re-adds a rejected combination, or that
    #     mixes up the rows of different agents, reports an inadmissible choice or a wrong value.
    m2 = {"n_periods": 2, "states": [["s", {"d": 3}]], "choices": [["c", {"d": 2}]],
          "functions": [{"name": "utility", "args": ["s", "c"], "body": ["+", ["-", X.v("s"), X.v("c")], X.c(F(1, 2))], "stochastic": False},
                        {"name": "next_s", "args": ["s"], "body": X.v("s"), "stochastic": False},
                        {"name": "ok_filter", "args": ["s", "c"], "body": ["or", ["<=", X.c(1), X.v("c")], ["<=", X.c(2), X.v("s")]], "stochastic": False}]}
    for init in ([0, 1, 0, 1], [0, 0, 1, 1, 2, 0], [1, 2, 0]):
        out.append(case(m2, p1, [["s", [q(F(x)) for x in init]]], tag="first_combination_rejected"))
    return out


def fam_simulate(rng, n, *, name="simulate_vs_spec", max_periods=3, agents=(1, 6), judge=("C02", "C03", "C06", "C13"),
                 features=None, targets=True, on_grid_prob=0.3):
    """lcm solve_and_simulate on random models; every panel row judged by the Spec's row oracle.
    Returns (family, per-judgement violation lists are merged into family.violations with a tag)."""
    fam = Family(name,
                 "random whole models (as in solve_vs_spec) simulated with 1-6 agents whose initial states are "
                 "on and off the grid, random seeds, random additional targets; every (period, agent) row is "
                 "re-judged by the Spec: admissibility and maximality of the reported choice, the reported "
                 "value, the next states, the panel structure; distinct = distinct model+params+initial states; "
                 "non-trivial = >= 2 periods and >= 2 agents")
    # simulations: filters restrict choices only, so that no agent can reach a state without a
    # filter-passing choice (that crashes the whole batch: C12 known finding)
    cases = gen_cases(rng, n, fn="simulate", max_periods=max_periods, features=features, allow_state_exclusion=False)
    cases += probe_cases()           # fixed inputs on which lcm is known to raise (C12 findings); judged if it ever returns
    wcases = []
    for c in cases:
        m = c["_mspec"]
        if "_probe" in c:            # no random draws: the stream of the generated cases is unchanged
            w = wire(c)
            w.update(initial_states=c["_probe"]["initial_states"], int_arrays=False, seed=0, with_solution=True, jit=True)
            if c["_probe"].get("targets"):
                w["additional_targets"] = c["_probe"]["targets"]
            w["_n_agents"] = len(c["_probe"]["initial_states"][0][1])
            wcases.append(w)
            continue
        na = rng.randint(*agents)
        w = wire(c)
        integral = rng.random() < 0.25
        w["initial_states"] = gen_initial_states(rng, m, na, on_grid=rng.random() < on_grid_prob, integral=integral)
        w["int_arrays"] = integral      # integer valued continuous states are passed as integer arrays
        if rng.random() < 0.5:
            rng.shuffle(w["initial_states"])          # key order of the mapping is irrelevant
        w["seed"] = rng.randint(0, 10 ** 6)
        w["with_solution"] = True
        w["jit"] = True
        if targets and rng.random() < 0.6:
            cand = target_candidates(m)
            w["additional_targets"] = rng.sample(cand, rng.randint(1, min(3, len(cand))))
        if targets and "asum_utility" in c["_force"]:
            # a target that is a function of scalars but not element-wise on whole columns: must be evaluated row by row
            w["additional_targets"] = sorted(set(w.get("additional_targets", [])) | {"utility"})
        w["_n_agents"] = na
        wcases.append(w)
    ires = run_impl([wire(w) for w in wcases])
    # rows for the oracle
    rcases = []
    for c, w, i in zip(cases, wcases, ires):
        if isinstance(i, dict) and "error" in i:
            rcases.append(None)
            continue
        rcases.append({"fn": "rows", "model": w["model"], "params": w["params"],
                       "rows": panel_rows(c, i), "targets": w.get("additional_targets", [])})
    sres = run_model([r for r in rcases if r is not None])
    it = iter(sres)
    out = []
    for c, w, i, r in zip(cases, wcases, ires, rcases):
        m = c["_mspec"]
        T, na = m["n_periods"], w["_n_agents"]
        fam.count({"py": c["py"], "params": c["params"], "init": w["initial_states"]}, T >= 2 and na >= 2)
        fam.bump(f"periods={T}")
        fam.bump(f"agents={na}")
        d = describe(m, c["_params"])
        for key in ("filters", "constraints", "stochastic"):
            if d[key]:
                fam.bump("with_" + key)
        if r is None:
            kc = known_crash(i.get("detail"))
            if kc is None and "_probe" in c:
                kc = c["_force"][0]          # a probe in the territory of a C12 finding: that lcm raises is that finding
            item = {"tag": "C12", "case": slim(w), "impl": i, "known_crash": kc,
                    "what": "lcm raised while simulating a generated model: " + str(i.get("detail"))[:200]}
            if kc and "C12" not in judge:
                fam.outside.append(item)
                fam.bump("lcm_raised:" + kc + " (C12 known finding; outside this property's domain)")
            else:
                fam.violations.append(item)
            out.append(None)
            continue
        s = next(it)
        if isinstance(s, dict) and "error" in s:
            fam.disagreements.append({"case": slim(w), "spec": s, "what": "the runner could not evaluate the rows"})
            out.append(None)
            continue
        viol = judge_panel(m, w, i, s, fam)
        for tag, what, detail in viol:
            if tag in judge:
                fam.violations.append({"tag": tag, "case": slim(w), "what": what, "detail": detail})
        if not [v for v in viol if v[0] in judge]:
            fam.exact += 1
        out.append((c, w, i, s))
    return fam, out


def judge_panel(m, w, panel, oracle, fam):
    """-> list of (property tag, what, detail)"""
    viol = []
    T = m["n_periods"]
    na = w["_n_agents"]
    cols = panel["columns"]
    snames = [s for s, _ in m["states"]]
    cnames = [c_ for c_, _ in m["choices"]]
    targets = w.get("additional_targets", [])
    # ---- C13: structure ------------------------------------------------------------------
    if panel["n_rows"] != T * na:
        viol.append(("C13", f"{panel['n_rows']} rows for {T} periods x {na} agents", None))
        return viol
    if panel["index_names"] != ["period", "initial_state_id"]:
        viol.append(("C13", f"index names {panel['index_names']}", None))
    exp_index = [[t, i] for t in range(T) for i in range(na)]
    if panel["index"] != exp_index:
        viol.append(("C13", "index is not (period, initial_state_id) in period-major order", {"index": panel["index"][:8]}))
        return viol
    exp_cols = {"value", "_period", *snames, *cnames, *targets}
    if set(cols) != exp_cols:
        viol.append(("C13", f"columns {sorted(cols)} but expected {sorted(exp_cols)}", None))
        return viol
    for r, (t, i) in enumerate(exp_index):
        if unq(cols["_period"][r]) != t:
            viol.append(("C13", f"_period column is {cols['_period'][r]} in row (period {t}, agent {i})", None))
            break
    init = {k: v for k, v in w["initial_states"]}
    for r, (t, i) in enumerate(exp_index):
        o = oracle[r]
        tag_row = {"row": [t, i], "states": {s: cols[s][r] for s in snames}, "choices": {c_: cols[c_][r] for c_ in cnames},
                   "value": cols["value"][r], "oracle": o}
        # ---- C03: law of motion ------------------------------------------------------------
        if t == 0:
            for s in snames:
                if close(cols[s][r], init[s][i]) == "diff":
                    viol.append(("C03", f"period-0 state {s} of agent {i} is {cols[s][r]}, initial state was {init[s][i]}", tag_row))
        if t + 1 < T:
            r2 = (t + 1) * na + i
            rows = {k: v for k, v in o["rows"]}
            for s, nv in o["next"]:
                got = cols[s][r2]
                if nv is None:
                    row = rows.get(s)
                    lab = unq(got)
                    ok = (isinstance(row, list) and lab is not None and not isinstance(lab, str)
                          and lab.denominator == 1 and 0 <= lab < len(row) and unq(row[int(lab)]) > 0)
                    if isinstance(row, list) and not ok:
                        viol.append(("C03", f"stochastic state {s}: next value {got} has no positive probability in the row {row} selected by agent {i}'s period-{t} variables", tag_row))
                elif nv != "undefined":
                    if close(got, nv) == "diff":
                        viol.append(("C03", f"state {s} of agent {i} in period {t + 1} is {got}, the transition function gives {nv}", tag_row))
        # ---- C13: targets ---------------------------------------------------------------------
        for tn, tv in o["targets"]:
            if tv != "undefined" and close(cols[tn][r], tv) == "diff":
                viol.append(("C13", f"target column {tn} is {cols[tn][r]} in row (period {t}, agent {i}), the model function gives {tv}", tag_row))
        # ---- C06: value equals the solved array at on-grid states --------------------------------
        if o["loc"] is not None and "solution" in panel:
            a = panel["solution"][t]
            idx = o["loc"]
            if len(idx) == len(a["shape"]) and all(0 <= x < s_ for x, s_ in zip(idx, a["shape"])):
                k = 0
                for x, s_ in zip(idx, a["shape"]):
                    k = k * s_ + x
                if a["data"][k] is not None and cols["value"][r] is not None and close(a["data"][k], cols["value"][r], 1e-9) == "diff":
                    viol.append(("C06", f"simulated value {cols['value'][r]} of an on-grid state differs from the solved array entry {a['data'][k]} at {idx} (period {t}, agent {i})", tag_row))
                fam.bump("on_grid_rows")
            else:
                viol.append(("C05", f"documented position {idx} of an on-grid state is outside the solved array of shape {a['shape']}", tag_row))
        # ---- C02: decisions ---------------------------------------------------------------------
        vmax, u = o["Vmax"], o["U"]
        if vmax is None:
            fam.bump("rows_outside_domain")
            continue
        if vmax == "-inf":
            fam.bump("rows_without_admissible_choice")
            if cols["value"][r] != "-inf":
                viol.append(("C02", f"no admissible choice but the reported value is {cols['value'][r]}, not -inf (period {t}, agent {i})", tag_row))
            continue
        fam.bump("rows_judged")
        on_grid = all(any(close(cols[c_][r], q(pt), 1e-12) != "diff" for pt in G.gpoints(g)) for c_, g in m["choices"])
        if not on_grid:
            viol.append(("C02", f"reported choices are not grid values in row (period {t}, agent {i})", tag_row))
        elif not o["feasible"]:
            viol.append(("C02", f"reported choice violates a filter or constraint in row (period {t}, agent {i})", tag_row))
        elif u is None or close(u, vmax, 1e-9) == "diff":
            viol.append(("C02", f"reported choice has objective {u}, the maximum over admissible grid choices is {vmax} (period {t}, agent {i})", tag_row))
        elif close(cols["value"][r], vmax, 1e-9) == "diff":
            viol.append(("C02", f"reported value {cols['value'][r]} differs from the maximum {vmax} (period {t}, agent {i})", tag_row))
    return viol


def fam_same_names(rng, n, judge=("C13", "C02", "C03"), name="same_names_other_bodies"):
    """Two models with identical function names, signatures and targets but different bodies are
    simulated one after the other IN THE SAME PROCESS (then the first again): every panel must be
    the one of its own model (nothing may be remembered from an earlier model or call)."""
    import copy
    import exprlang as X
    fam = Family(name,
                 "pairs of models that differ only in the bodies of utility / an auxiliary function / a "
                 "deterministic transition, same function names and additional targets, simulated A, B, A in "
                 "one worker process; every panel judged row by row by the Spec of ITS model; all non-trivial")
    seqs = []
    for _ in range(n):
        c = gen_cases(rng, 1, fn="simulate", allow_state_exclusion=False)[0]
        m = c["_mspec"]
        m2 = copy.deepcopy(m)
        changed = 0
        for f in m2["functions"]:
            if f["stochastic"] or f["name"].endswith(("_filter", "_constraint")):
                continue
            g = next((sg for sn, sg in m2["states"] if f["name"] == "next_" + sn), None)
            if g is not None and not G.is_cont(g):
                continue                     # keep discrete transitions on the grid
            if f["name"] == "utility" or rng.random() < 0.6:
                f["body"] = ["+", ["*", X.c(Fraction(rng.choice([2, 3, -2]))), f["body"]], X.c(Fraction(rng.randint(1, 5), 2))]
                changed += 1
        na = rng.randint(2, 4)
        init = gen_initial_states(rng, m, na, on_grid=False)
        cand = target_candidates(m)
        targets = rng.sample(cand, rng.randint(1, min(3, len(cand))))
        seed = rng.randint(0, 10 ** 6)
        trio = []
        for mm in (m, m2, m):
            trio.append({"fn": "simulate", "model": G.model_json(mm, q), "params": c["params"],
                         "py": G.render_python(mm), "initial_states": init, "seed": seed,
                         "additional_targets": targets, "jit": True, "_mspec": mm, "_n_agents": na})
        seqs.append(trio)
    flat = [w for trio in seqs for w in trio]
    ires = run_impl([wire(w) for w in flat], nproc=1)           # one process: calls share its state
    rcases, idx = [], []
    for k, (w, i) in enumerate(zip(flat, ires)):
        if isinstance(i, dict) and "error" in i:
            continue
        rcases.append({"fn": "rows", "model": w["model"], "params": w["params"],
                       "rows": panel_rows({"_mspec": w["_mspec"]}, i), "targets": w["additional_targets"]})
        idx.append(k)
    sres = dict(zip(idx, run_model(rcases)))
    for t_i, trio in enumerate(seqs):
        fam.count({"py": trio[0]["py"], "py2": trio[1]["py"]})
        bad = None
        for j, w in enumerate(trio):
            k = t_i * 3 + j
            i = ires[k]
            if k not in sres:
                fam.outside.append({"case": slim(w), "impl": i, "what": "lcm raised (C12)"})
                bad = "skip"
                break
            s = sres[k]
            if isinstance(s, dict) and "error" in s:
                bad = "skip"
                break
            viol = [v for v in judge_panel(w["_mspec"], w, i, s, fam) if v[0] in judge]
            if viol:
                tag, what, detail = viol[0]
                fam.violations.append({"tag": tag, "case": slim(w), "position_in_sequence": "ABA"[j],
                                       "previous_model_py": trio[0]["py"] if j == 1 else trio[1]["py"] if j == 2 else None,
                                       "what": what + f"  [call {j + 1} of the sequence A,B,A in one process]", "detail": detail})
                bad = "viol"
                break
        if bad is None:
            fam.exact += 1
    return fam

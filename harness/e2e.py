"""e2e.py — end-to-end families shared by C01/C02/C03/C05/C06/C07/C08/C10/C11/C13:
random whole models solved / simulated by the real lcm and judged by the extracted Spec."""
import json
from fractions import Fraction

import gen_models as G
from core import Family, q, unq, close, run_model, run_impl, cmp_tree

FEATURES = [set(), {"filter"}, {"period_filter"}, {"stochastic"}, {"constraint"},
            {"two_cont_choices"}, {"mixed_discrete_choices", "filter"}, {"filter", "stochastic"},
            {"constraint", "two_cont_choices"}, set()]

TRUSTED = [
    "Spec/Lang.v, Spec/Bellman.v, Spec/Layout.v are the specification (hand-written, independent of lcm's array code); the runner evaluates them on the generated model",
    "harness/exprlang.py + gen_models.py render the same model to Python source for lcm and to the runner's JSON (trusted renderers)",
    "dags.concatenate_functions / get_ancestors: evaluation of the function DAG by name (third party), mirrored by Spec.Lang.eval_fun",
    "extraction ExtrOcamlBasic + ExtrOcamlNativeString, ocaml/driver.ml",
]
ASSUMPTIONS = [
    "exact rational arithmetic in the Spec; lcm's float64 results are compared exactly when all intermediate values are dyadic and within 1e-9 relative otherwise",
    "entries that the Spec marks undefined (a -inf or out-of-grid discrete value would be read back by lcm, producing nan or a silently wrapped index) are outside the domain and are not compared",
    "linear grids only in whole-model runs (log grids: C15)",
]


def describe(mspec, params):
    return {"T": mspec["n_periods"],
            "states": [("c" if G.is_cont(g) else "d") + str(G.gsize(g)) for _, g in mspec["states"]],
            "choices": [("c" if G.is_cont(g) else "d") + str(G.gsize(g)) for _, g in mspec["choices"]],
            "filters": sum(f["name"].endswith("_filter") for f in mspec["functions"]),
            "constraints": sum(f["name"].endswith("_constraint") for f in mspec["functions"]),
            "stochastic": sum(f["stochastic"] for f in mspec["functions"]),
            "aux": sum(not (f["name"].startswith("next_") or f["name"].endswith(("_filter", "_constraint")) or f["name"] == "utility") for f in mspec["functions"])}


def gen_cases(rng, n, fn="solve_spec", max_periods=3, features=None, **kw):
    cases = []
    for k in range(n):
        force = (features or FEATURES)[k % len(features or FEATURES)]
        mspec, params = G.gen_model(rng, max_periods=max_periods, force=force, **kw)
        cases.append({"fn": fn, "model": G.model_json(mspec, q), "params": G.params_json(params, q),
                      "py": G.render_python(mspec), "_mspec": mspec, "_params": params, "_force": sorted(force)})
    return cases


def wire(case):
    return {k: v for k, v in case.items() if not k.startswith("_")}


def slim(case):
    """replay-friendly copy of a case"""
    return wire(case)


def count_entries(arrs):
    defined = undefined = neginf = 0
    for a in arrs:
        for x in a["data"]:
            if x is None:
                undefined += 1
            elif x == "-inf":
                neginf += 1
            else:
                defined += 1
    return defined, undefined, neginf


def fam_solve(rng, n, *, name="solve_vs_spec", max_periods=3, jit_modes=(True, False), features=None):
    """lcm.solve vs the Spec's Bellman tables in the documented layout"""
    fam = Family(name,
                 "random whole models: 1-3 periods, 1-3 states and 1-3 choices (discrete 2-4 labels, linear "
                 "grids of 2-5 points, all sizes different), random expression functions (utility, 0-2 "
                 "auxiliary, 0-2 constraints, 0-2 filters incl. period-dependent ones, deterministic and "
                 "stochastic transitions with dyadic rows incl. zeros), colliding parameter names, shuffled "
                 "declaration order; features forced in rotation; solved with jit on and off; every defined "
                 "entry of every period's array compared with the Spec's value in the documented layout; "
                 "distinct = distinct model source + params; non-trivial = >= 2 periods or a filter/constraint")
    cases = gen_cases(rng, n, max_periods=max_periods, features=features)
    wcases = []
    for k, c in enumerate(cases):
        w = wire(c)
        w["jit"] = jit_modes[k % len(jit_modes)]
        wcases.append(w)
    sres = run_model(wcases)
    ires = run_impl(wcases)
    results = []
    for c, w, s, i in zip(cases, wcases, sres, ires):
        d = describe(c["_mspec"], c["_params"])
        nontrivial = d["T"] >= 2 or d["filters"] or d["constraints"]
        fam.count({"py": c["py"], "params": c["params"]}, nontrivial)
        for key in ("filters", "constraints", "stochastic", "aux"):
            if d[key]:
                fam.bump("with_" + key)
        fam.bump(f"periods={d['T']}")
        fam.bump("jit" if w["jit"] else "nojit")
        if isinstance(s, dict) and "error" in s:
            fam.disagreements.append({"case": slim(w), "spec": s, "what": "the runner could not evaluate the case"})
            results.append(None)
            continue
        if isinstance(i, dict) and "error" in i:
            fam.violations.append({"case": slim(w), "impl": i, "spec_shapes": [a["shape"] for a in s],
                                   "what": "lcm raised on a generated model: " + str(i.get("detail"))[:200]})
            results.append(None)
            continue
        dfn, undef, ninf = count_entries(s)
        fam.bump("entries_defined", dfn)
        fam.bump("entries_outside_domain", undef)
        fam.bump("entries_neginf", ninf)
        bad = None
        if len(i) != len(s):
            bad = f"{len(i)} arrays for {len(s)} periods"
        else:
            for t, (a, b) in enumerate(zip(i, s)):
                if a["shape"] != b["shape"]:
                    bad = f"period {t}: shape {a['shape']} but the documented layout gives {b['shape']}"
                    break
        worst = "exact"
        if not bad:
            for t, (a, b) in enumerate(zip(i, s)):
                for k_, (x, y) in enumerate(zip(a["data"], b["data"])):
                    if y is None:
                        continue
                    r = close(x, y) if x is not None else "diff"
                    if r == "diff":
                        bad = f"period {t}, flat position {k_}: lcm {x} but Bellman value {y}"
                        break
                    if r == "tolerant":
                        worst = "tolerant"
                if bad:
                    break
        if bad:
            fam.violations.append({"case": slim(w), "impl": i, "spec": s, "what": bad})
        elif worst == "exact":
            fam.exact += 1
        else:
            fam.tolerant += 1
        results.append((c, w, s, i))
    return fam, results


def panel_rows(case, panel):
    """rows of lcm's panel as inputs of the runner's row oracle"""
    m = case["_mspec"]
    cols = panel["columns"]
    n = panel["n_rows"]
    rows = []
    for r in range(n):
        rows.append({"t": panel["index"][r][0],
                     "states": [[s, cols[s][r]] for s, _ in m["states"]],
                     "choices": [[c_, cols[c_][r]] for c_, _ in m["choices"]]})
    return rows


def gen_initial_states(rng, mspec, n_agents, on_grid=False):
    init = []
    for s, g in mspec["states"]:
        pts = G.gpoints(g)
        vals = []
        for _ in range(n_agents):
            if not G.is_cont(g) or on_grid or rng.random() < 0.4:
                vals.append(rng.choice(pts))
            else:
                lo, hi = pts[0], pts[-1]
                vals.append(lo + (hi - lo) * Fraction(rng.randint(-2, 18), 16))
        init.append([s, [q(v) for v in vals]])
    return init

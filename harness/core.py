"""core.py — the check driver: rebuild, proof obligations, correspondence families,
known findings, verdict, evidence.  Stdlib only (runs under /venv/bin/python)."""
from __future__ import annotations

import argparse
import hashlib
import importlib
import json
import os
import re
import subprocess
import sys
import time
from fractions import Fraction
from pathlib import Path

ROOT = Path(__file__).resolve().parent.parent
COQ = ROOT / "coq"
BUILD = ROOT / "build"
REPO = Path(os.environ.get("LCM_REPO", "/repo"))
PY = "/venv/bin/python"
NPROC = int(os.environ.get("VERIF_NPROC", "12"))

IMPL_ENV = {
    "PYTHONPATH": f"{REPO}/src:{REPO}:{ROOT}/harness",
    "PYTHONHASHSEED": "0",
    "JAX_PLATFORMS": "cpu",
    "JAX_ENABLE_X64": "1",
    "XLA_FLAGS": "--xla_cpu_multi_thread_eigen=false intra_op_parallelism_threads=1",
    "OMP_NUM_THREADS": "1",
    "OPENBLAS_NUM_THREADS": "1",
    "PIP_NO_INDEX": "1",
    "PATH": os.environ.get("PATH", "/usr/bin:/bin"),
    "HOME": os.environ.get("HOME", "/root"),
}


# ---------------------------------------------------------------------------------
# numbers on the wire
# ---------------------------------------------------------------------------------
def q(x):
    """Fraction/int/float -> wire format ({"q":[num, den]} or int)"""
    if isinstance(x, bool):
        return int(x)
    if isinstance(x, int):
        return x
    fr = Fraction(x)
    return fr.numerator if fr.denominator == 1 else {"q": [fr.numerator, fr.denominator]}


def is_num(j):
    if j is None or (isinstance(j, int) and not isinstance(j, bool)):
        return True
    if isinstance(j, str) and j in ("-inf", "inf", "nan"):
        return True
    return isinstance(j, dict) and set(j) == {"q"}


def unq(j):
    """wire -> Fraction | None (undefined) | '-inf' | 'inf' | 'nan'"""
    if j is None:
        return None
    if isinstance(j, str):
        return j
    if isinstance(j, dict):
        return Fraction(j["q"][0], j["q"][1])
    return Fraction(j)


def close(a, b, tol=1e-9):
    """a, b wire numbers (or None/'-inf'/'inf'/'nan'); exact or within tolerance"""
    a, b = unq(a), unq(b)
    if a is None or b is None:
        return "skip"
    if isinstance(a, str) or isinstance(b, str):
        return "exact" if a == b else "diff"
    if a == b:
        return "exact"
    if abs(a - b) <= tol * max(1, abs(a), abs(b)):
        return "tolerant"
    return "diff"


# ---------------------------------------------------------------------------------
# build
# ---------------------------------------------------------------------------------
def build():
    t = time.time()
    subprocess.run([str(ROOT / "build.sh")], cwd=ROOT, check=False,
                   env={**os.environ, "LCM_REPO": str(REPO)})
    info = {"wall_s": round(time.time() - t, 1), "refused": [], "make_errors": []}
    tl = (BUILD / "translator.log").read_text() if (BUILD / "translator.log").exists() else ""
    info["refused"] = [l for l in tl.splitlines() if l.startswith("TRANSLATION-REFUSED")]
    ml = (BUILD / "make.log").read_text() if (BUILD / "make.log").exists() else "missing make.log"
    errs = []
    lines = ml.splitlines()
    for i, l in enumerate(lines):
        if l.startswith("File ") and i + 1 < len(lines) and "Error" in lines[i + 1]:
            errs.append(l + " :: " + " ".join(lines[i + 1:i + 4])[:400])
    info["make_errors"] = errs
    info["runner_ok"] = (ROOT / "bin" / "model_runner").exists() and "runner_status=0" in (
        (BUILD / "runner.log").read_text() if (BUILD / "runner.log").exists() else "")
    # further runners, each extracted from its own entry point (a property module lists the ones it uses in RUNNERS)
    info["extra_runners_ok"] = {
        name: (ROOT / "bin" / name).exists() and f"{name}_status=0" in (
            (BUILD / f"{name}.log").read_text() if (BUILD / f"{name}.log").exists() else "")
        for name in ("scs_runner", "fmask_runner", "vinfo_runner")}
    return info


def hygiene():
    """no Admitted/admit/Axiom/... anywhere in the development"""
    bad = []
    pat = re.compile(r"\b(Admitted|admit|Axiom|Axioms|Parameter|Parameters|Conjecture|Conjectures|"
                     r"Admit Obligations|bypass_check|Unset Guard Checking|Unset Positivity Checking|"
                     r"Unset Universe Checking|type-in-type|impredicative-set)\b")
    for f in sorted(COQ.rglob("*.v")):
        text = f.read_text()
        text = re.sub(r"\(\*.*?\*\)", "", text, flags=re.S)
        depth = 0
        for ln, line in enumerate(text.splitlines(), 1):
            if re.match(r"\s*Section\b", line):
                depth += 1
            if re.match(r"\s*End\b", line) and depth > 0:
                depth -= 1
            if pat.search(line):
                bad.append(f"{f.relative_to(COQ)}:{ln}: {line.strip()[:80]}")
            if depth == 0 and re.match(r"\s*(Variable|Variables|Hypothesis|Hypotheses|Context)\b", line):
                bad.append(f"{f.relative_to(COQ)}:{ln}: outside section: {line.strip()[:80]}")
    return bad


def theorem_names(pid):
    f = COQ / "Properties" / f"{pid}.v"
    if not f.exists():
        return []
    return re.findall(r"^Theorem\s+(\w+)", f.read_text(), flags=re.M)


def obligations(pid):
    """-> (names, discharged_names, axioms, detail)"""
    names = theorem_names(pid)
    vo = COQ / "Properties" / f"{pid}.vo"
    if not names:
        return names, [], [], "no Properties file"
    r = subprocess.run(["make", "-q", f"Properties/{pid}.vo"], cwd=COQ, capture_output=True, text=True)
    if r.returncode != 0 or not vo.exists():
        return names, [], [], f"Properties/{pid}.vo is not built / not up to date (see build/make.log)"
    # Print Assumptions for each theorem, in one coqc call
    tmp = BUILD / f"assum_{pid}.v"
    body = f"From LCM Require Import Properties.{pid}.\n" + "".join(
        f'Goal True. idtac "@@{n}". Abort.\nPrint Assumptions {n}.\n' for n in names)
    tmp.write_text(body)
    r = subprocess.run(["coqc", "-Q", str(COQ), "LCM", "-w", "none", str(tmp)], cwd=BUILD,
                       capture_output=True, text=True, timeout=600)
    out = r.stdout + r.stderr
    if r.returncode != 0:
        return names, [], [], "Print Assumptions failed: " + out[-500:]
    axioms = sorted(set(re.findall(r"^([A-Za-z_][\w.]*)\s*:", out, flags=re.M)) - {"Axioms"})
    discharged = [n for n in names if f"@@{n}" in out]
    for f in BUILD.glob(f"assum_{pid}.*"):
        if f.suffix != ".v":
            f.unlink()
    for f in BUILD.glob(f".assum_{pid}.aux"):
        f.unlink()
    return names, discharged, axioms, "ok"


# ---------------------------------------------------------------------------------
# running the model (extracted) and the implementation
# ---------------------------------------------------------------------------------
def run_model(cases, timeout=3600, runner="model_runner"):
    """cases: list of dicts with 'fn' -> list of results (json), in order"""
    if not cases:
        return []
    runner = ROOT / "bin" / runner
    if not runner.exists():
        return [{"error": f"{runner.name} missing"} for _ in cases]
    chunks = [cases[i::NPROC] for i in range(min(NPROC, len(cases)))]
    procs = []
    for ch in chunks:
        p = subprocess.Popen(["bash", "-c", f"ulimit -s unlimited 2>/dev/null; exec {runner}"],
                             stdin=subprocess.PIPE, stdout=subprocess.PIPE, text=True)
        procs.append((p, ch))
    import threading
    outs = [None] * len(procs)

    def work(k):
        p, ch = procs[k]
        data = "\n".join(json.dumps(c, separators=(",", ":")) for c in ch) + "\n"
        try:
            o, _ = p.communicate(data, timeout=timeout)
        except subprocess.TimeoutExpired:
            p.kill()
            o = ""
        outs[k] = o
    ths = [threading.Thread(target=work, args=(k,)) for k in range(len(procs))]
    [t.start() for t in ths]
    [t.join() for t in ths]
    res = [None] * len(cases)
    for k, (p, ch) in enumerate(procs):
        lines = [l for l in (outs[k] or "").splitlines() if l.strip()]
        for j in range(len(ch)):
            idx = k + j * len(chunks)
            if j < len(lines):
                try:
                    res[idx] = json.loads(lines[j])
                except Exception:
                    res[idx] = {"error": "unparsable runner output"}
            else:
                res[idx] = {"error": "runner produced no output (crash/timeout)"}
    return res


def run_impl(cases, timeout=3600, nproc=None, extra_env=None):
    """cases -> results from harness/impl_worker.py running against /repo/src"""
    if not cases:
        return []
    nproc = min(nproc or NPROC, len(cases))
    chunks = [cases[i::nproc] for i in range(nproc)]
    env = dict(IMPL_ENV)
    if extra_env:
        env.update(extra_env)
    procs = []
    for ch in chunks:
        p = subprocess.Popen([PY, str(ROOT / "harness" / "impl_worker.py")], cwd=str(BUILD),
                             stdin=subprocess.PIPE, stdout=subprocess.PIPE,
                             stderr=subprocess.PIPE, text=True, env=env)
        procs.append((p, ch))
    import threading
    outs = [None] * len(procs)
    errs = [None] * len(procs)

    def work(k):
        p, ch = procs[k]
        data = "\n".join(json.dumps(c, separators=(",", ":")) for c in ch) + "\n"
        try:
            o, e = p.communicate(data, timeout=timeout)
        except subprocess.TimeoutExpired:
            p.kill()
            o, e = "", "timeout"
        outs[k], errs[k] = o, e
    ths = [threading.Thread(target=work, args=(k,)) for k in range(len(procs))]
    [t.start() for t in ths]
    [t.join() for t in ths]
    res = [None] * len(cases)
    for k, (p, ch) in enumerate(procs):
        lines = [l[2:] for l in (outs[k] or "").splitlines() if l.startswith("@@")]
        for j in range(len(ch)):
            idx = k + j * len(chunks)
            if j < len(lines):
                try:
                    res[idx] = json.loads(lines[j])
                except Exception:
                    res[idx] = {"error": "unparsable impl output"}
            else:
                res[idx] = {"error": "impl worker died: " + (errs[k] or "")[-300:]}
    return res


# ---------------------------------------------------------------------------------
# family results
# ---------------------------------------------------------------------------------
class Family:
    """Accumulates the outcome of one correspondence family."""

    def __init__(self, name, rule):
        self.name = name
        self.rule = rule
        self.evaluations = 0
        self.hashes = set()
        self.exact = 0
        self.tolerant = 0
        self.skipped = 0
        self.outside = []          # differences outside the property's domain (no alarm)
        self.disagreements = []    # model vs impl, inside the domain
        self.violations = []       # impl contradicts spec/oracle: failing inputs
        self.samples = []
        self.hist = {}

    def count(self, case, nontrivial=True):
        self.evaluations += 1
        if nontrivial:
            h = hashlib.sha1(json.dumps(case, sort_keys=True).encode()).hexdigest()
            self.hashes.add(h)
        if len(self.samples) < 2:
            self.samples.append(case)

    def bump(self, key, k=1):
        self.hist[key] = self.hist.get(key, 0) + k

    def summary(self):
        return {"family": self.name, "rule": self.rule, "evaluations": self.evaluations,
                "distinct_nontrivial": len(self.hashes), "exact": self.exact,
                "tolerant": self.tolerant, "skipped": self.skipped,
                "disagreements": len(self.disagreements), "oracle_violations": len(self.violations),
                "outside_domain_differences": len(self.outside), "histogram": self.hist}


def cmp_tree(a, b, fam: Family, tol=1e-9):
    """structural comparison of two wire values; numbers by `close`; returns 'exact' |
    'tolerant' | 'diff' | 'skip' (worst over leaves)"""
    order = {"exact": 0, "skip": 0, "tolerant": 1, "diff": 2}
    if is_num(a) and is_num(b):
        return close(a, b, tol)
    if isinstance(a, dict) and isinstance(b, dict):
        if "error" in a or "error" in b:
            return "exact" if a.get("error") == b.get("error") else "diff"
        if set(a) != set(b):
            return "diff"
        worst = "exact"
        for k in a:
            r = cmp_tree(a[k], b[k], fam, tol)
            if order[r] > order[worst]:
                worst = r
        return worst
    if isinstance(a, dict) or isinstance(b, dict):
        return "diff"
    if is_num(a) and is_num(b):
        return close(a, b, tol)
    if isinstance(a, list) and isinstance(b, list):
        if len(a) != len(b):
            return "diff"
        worst = "exact"
        for x, y in zip(a, b):
            r = cmp_tree(x, y, fam, tol)
            if order[r] > order[worst]:
                worst = r
        return worst
    return "exact" if a == b else "diff"


# ---------------------------------------------------------------------------------
# main
# ---------------------------------------------------------------------------------
def load_known(pid):
    f = ROOT / "known_findings.json"
    if not f.exists():
        return []
    return [e for e in json.loads(f.read_text()) if e.get("property") == pid]


def main():
    ap = argparse.ArgumentParser()
    ap.add_argument("pid")
    ap.add_argument("--tier", default=os.environ.get("VERIF_TIER", "quick"))
    ap.add_argument("--replay", default=None)
    ap.add_argument("--no-build", action="store_true")
    args = ap.parse_args()
    pid = args.pid
    tier = args.tier if args.tier in ("quick", "thorough") else "quick"
    seed = int(os.environ.get("VERIF_SEED", "0") or 0)
    t0 = time.time()
    (ROOT / "evidence").mkdir(exist_ok=True)
    (ROOT / "replays").mkdir(exist_ok=True)
    BUILD.mkdir(exist_ok=True)

    binfo = {"skipped": True} if args.no_build else build()
    hyg = hygiene()
    names, discharged, axioms, detail = obligations(pid)
    mod = importlib.import_module(f"props.{pid}")

    if args.replay:
        rc = mod.replay(json.loads(Path(args.replay).read_text()))
        sys.exit(rc)

    fams = mod.run(tier, seed)          # list[Family]
    known = load_known(pid)

    violations = []      # (what, replay payload, has_failing_input)
    known_lines = []

    def attribute(item):
        """item: dict with 'case'; returns known finding entry whose signature matches"""
        for e in known:
            if e.get("status") == "known" and mod.matches_signature(e, item):
                return e
        return None

    proof_broken = []
    if hyg:
        proof_broken.append("hygiene: " + "; ".join(hyg[:5]))
    if binfo.get("refused"):
        rel = [r for r in binfo["refused"] if any(g in r for g in getattr(mod, "GEN_FILES", []))]
        if rel:
            proof_broken.append("translator refused: " + "; ".join(rel))
    if set(discharged) != set(names) or not names:
        proof_broken.append(f"theorems not established: {sorted(set(names) - set(discharged))} ({detail}); "
                            + "; ".join(binfo.get("make_errors", [])[:3]))
    if not binfo.get("skipped") and not binfo.get("runner_ok", True):
        # the runner is one binary for all properties: it concerns this property only if a file this property depends on is
        # to blame (or nothing more specific can be blamed); otherwise the previous binary, whose kernels for this property
        # are unchanged, keeps serving the correspondence runs
        blamed = set(re.findall(r"TRANSLATION-REFUSED (\w+\.v)", "\n".join(binfo.get("refused", []))))
        blamed |= set(re.findall(r'File "\./Gen/(\w+\.v)"', "\n".join(binfo.get("make_errors", []))))
        other = [e for e in binfo.get("make_errors", []) if re.search(r'File "\./(Base|Model|Spec|Extract)/', e)]
        mine = set(getattr(mod, "GEN_FILES", []))
        if not blamed or other or (blamed & mine) or not (ROOT / "bin" / "model_runner").exists():
            proof_broken.append("model_runner could not be built (model does not compile against the regenerated kernels)")
        else:
            print(f"# model_runner not rebuilt ({sorted(blamed)} did not translate/compile; none of this property's files): "
                  "the previous binary serves the correspondence runs", file=sys.stderr)
    for extra in getattr(mod, "RUNNERS", []):
        if not binfo.get("skipped") and not binfo.get("extra_runners_ok", {}).get(extra, True):
            proof_broken.append(f"{extra} could not be built (its model does not compile against the regenerated definitions)")

    failing_inputs = []
    unexplained = []

    def collect(families):
        for fam in families:
            for v in fam.violations:
                e = attribute(v)
                if e is not None:
                    continue
                failing_inputs.append((fam.name, v))
            for d in fam.disagreements:
                e = attribute(d)
                if e is not None:
                    continue
                unexplained.append((fam.name, d))

    collect(fams)
    # a proof or a translation broke but this run's cases exhibit nothing: search further (other random streams) for a
    # concrete failing input before reporting no-failing-input-found; never entered while everything checks
    extra_rounds = 0
    if proof_broken and not failing_inputs:
        t_search = time.time()
        for k in (1, 2, 3):
            if time.time() - t_search > 240:
                break
            try:
                more = mod.run(tier, seed + 1000 * k)
            except Exception as exc:          # the search must not turn a report into a crash
                print(f"# extended search round {k} failed: {exc}", file=sys.stderr)
                break
            extra_rounds += 1
            for f in more:
                f.name = f"{f.name}[extended search {k}]"
            collect(more)
            fams = fams + more
            if failing_inputs:
                break

    # known findings: replay each listed one against the current tree
    for e in known:
        if e.get("status") == "known":
            still = mod.replay_known(e)
            if still:
                known_lines.append(f"KNOWN-FINDING: property={pid} {e['what']}")
        elif e.get("status") == "fixed":
            back = mod.replay_known(e)
            if back:
                failing_inputs.append(("known_findings(fixed entry returned)", {"case": e.get("replay"), "what": e["what"]}))

    out_lines = []
    n_viol = 0
    if failing_inputs:
        fam_name, v = failing_inputs[0]
        payload = {"property": pid, "kind": "failing-input", "family": fam_name, "violation": v,
                   "others": len(failing_inputs) - 1, "proof_status": proof_broken,
                   "replay_cmd": f"./check {pid} --replay <this file>"}
        path = write_replay(pid, payload)
        out_lines.append(f"VIOLATION property={pid} replay={path}")
        n_viol = len(failing_inputs)
    elif proof_broken or unexplained:
        payload = {"property": pid, "kind": "no-failing-input-found",
                   "no_longer_checks": proof_broken,
                   "correspondence_disagreements": [{"family": f, **d} for f, d in unexplained[:5]],
                   "note": "the property is no longer shown to hold: a theorem or the model/implementation "
                           "correspondence broke, and the search over this run's cases, the corpus and the "
                           "adversarial generators found no input on which the implementation contradicts "
                           "the specification"}
        path = write_replay(pid, payload)
        out_lines.append(f"VIOLATION property={pid} replay={path} no-failing-input-found")
        n_viol = 1

    for l in known_lines:
        print(l)
    for l in out_lines:
        print(l)

    evals = sum(f.evaluations for f in fams)
    distinct = sum(len(f.hashes) for f in fams)
    samples = []
    for f in fams:
        samples.extend({"family": f.name, "case": s} for s in f.samples[:1])
    samples.extend({"obligation": n} for n in names[:3])
    ev = {
        "property_id": pid, "tier": tier, "seed": seed, "level": "proof",
        "coverage": {
            "obligations": max(len(names), 0), "discharged": len(discharged),
            "obligation_names": names, "discharged_names": discharged,
            "checker_cmd": "cd /verif && ./build.sh  # translator -> coq/Gen/*.v; coq_makefile; make -k (coqc 8.16.1, full .vo); "
                           f"then coqc Print Assumptions for every Theorem of coq/Properties/{pid}.v",
            "trusted_base": ["Coq 8.16.1 kernel (coqc); no native_compute; vm_compute only in Examples"]
                            + [f"axiom: {a}" for a in axioms]
                            + getattr(mod, "TRUSTED", []),
            "axioms_print_assumptions": axioms if axioms else ["Closed under the global context"],
            "evaluations": evals, "distinct_nontrivial": distinct,
            "rule": " | ".join(f"{f.name}: {f.rule}" for f in fams),
            "samples": samples[:8],
            "traces_validated_against_impl": sum(f.exact + f.tolerant for f in fams),
            "families": [f.summary() for f in fams],
            "build": binfo, "hygiene_findings": hyg,
            "known_findings_reported": known_lines,
        },
        "assumptions": getattr(mod, "ASSUMPTIONS", []),
        "wall_s": round(time.time() - t0, 1),
        "violations": n_viol,
    }
    (ROOT / "evidence" / f"{pid}.json").write_text(json.dumps(ev, indent=1, default=str) + "\n")
    sys.exit(1 if out_lines else 0)


def write_replay(pid, payload):
    h = hashlib.sha1(json.dumps(payload, sort_keys=True, default=str).encode()).hexdigest()[:10]
    path = ROOT / "replays" / f"{pid}-{h}.json"
    path.write_text(json.dumps(payload, indent=1, default=str) + "\n")
    return str(path)

"""C09 — generated functions are pure (partial: runtime state is not in a Gallina model)."""
import copy
import json
import random
from fractions import Fraction

import e2e
import gen_models as G
from core import Family, q, unq, close, run_impl, run_model, cmp_tree

GEN_FILES = []
TRUSTED = e2e.TRUSTED + ["the reference for a call is a freshly built function object in the same process and the extracted Spec; for hash seeds: processes started with different PYTHONHASHSEED"]
ASSUMPTIONS = ["JIT caches, captured tracers, mutation of arguments and hash-seed dependent iteration orders are runtime behaviour: the Coq side only states the abstract specification (a generated function is a mathematical function of its arguments; the order of u_and_f's argument names is irrelevant) and the history-based runs tie lcm to it"]


def perturb(rng, p):
    p2 = copy.deepcopy(p)
    p2["beta"] = Fraction(rng.choice([1, 3, 7, 1]), rng.choice([2, 4, 8, 1]))
    for fn, ps in p2["fpar"].items():
        for pn in ps:
            if rng.random() < 0.6:
                ps[pn] = ps[pn] + Fraction(rng.randint(-3, 3), 2)
    return p2


def fam_history(rng, n, n_calls):
    fam = Family("call_histories",
                 f"one solve function and one simulate function per model, {n_calls} interleaved calls with 3 "
                 "parameter sets (leaves as python floats, numpy and jax scalars), 2 batches of initial states and "
                 "2 seeds; every result must equal that of freshly built functions for the same arguments and "
                 "the Spec's solution; params and model must be unchanged afterwards; distinct = distinct model "
                 "+ call sequence; non-trivial = the sequence repeats an earlier argument after a different one")
    cases = e2e.gen_cases(rng, n, fn="call_sequence", allow_state_exclusion=False,
                          features=[set(), {"stochastic"}, {"filter"}, {"constraint"}, {"stochastic", "filter"}])
    wcs = []
    for c in cases:
        m, p = c["_mspec"], c["_params"]
        psets = [p, perturb(rng, p), perturb(rng, p)]
        inits = [e2e.gen_initial_states(rng, m, rng.randint(2, 4)) for _ in range(2)]
        calls = []
        for k in range(n_calls):
            pi = rng.randrange(3)
            call = {"kind": rng.choice(["solve", "simulate"]), "params": G.params_json(psets[pi], q), "pi": pi,
                    "leaf": rng.choice(["jax", "float", "numpy"]),
                    "reuse_object": k > 0 and (k * 7 + pi) % 2 == 0}      # one dict updated in place (parameter sweep)
            if call["kind"] == "simulate":
                call["initial_states"] = inits[rng.randrange(2)]
                call["seed"] = rng.choice([1, 2])
            calls.append(call)
        w = e2e.wire(c)
        w["calls"] = calls
        w["_psets"] = psets
        wcs.append(w)
    ires = run_impl([e2e.wire(w) for w in wcs])
    # Spec solutions for the three parameter sets
    scases, back = [], []
    for wi, w in enumerate(wcs):
        for pi, ps in enumerate(w["_psets"]):
            scases.append({"fn": "solve_spec", "model": w["model"], "params": G.params_json(ps, q)})
            back.append((wi, pi))
    sres = dict(zip(back, run_model(scases)))
    for wi, (w, i) in enumerate(zip(wcs, ires)):
        pis = [c_["pi"] for c_ in w["calls"]]
        fam.count({"py": w["py"], "calls": [(c_["kind"], c_["pi"], c_.get("seed")) for c_ in w["calls"]]},
                  any(pis[k] in pis[:k - 1] and pis[k] != pis[k - 1] for k in range(2, len(pis))))
        if isinstance(i, dict) and "error" in i:
            kc = e2e.known_crash(i.get("detail"))
            (fam.outside if kc else fam.violations).append({"case": e2e.wire(w), "impl": i, "what": "lcm raised during the call sequence: " + str(i.get("detail"))[:200]})
            continue
        bad = None
        if i["notes"]:
            bad = "; ".join(i["notes"])
        for k, (call, r, r2) in enumerate(zip(w["calls"], i["results"], i["fresh"])):
            if bad:
                break
            if cmp_tree(r, r2, fam, 0) != "exact":
                bad = f"call {k} ({call['kind']}, parameter set {call['pi']}) differs from freshly built functions with the same arguments"
                break
            if call["kind"] == "solve":
                s = sres[(wi, call["pi"])]
                if not (isinstance(s, dict) and "error" in s):
                    for a, b in zip(r, s):
                        if a["shape"] != b["shape"] or any(y is not None and (x is None or close(x, y) == "diff") for x, y in zip(a["data"], b["data"])):
                            bad = f"call {k} (solve, parameter set {call['pi']}) differs from the Spec's solution for the current arguments"
                            break
        if bad:
            fam.violations.append({"case": e2e.wire(w), "what": bad})
        else:
            fam.exact += 1
    return fam


def fam_hash_seeds(rng, n, seeds):
    fam = Family("hash_seeds",
                 f"models with >= 2 continuous states and several parameterised functions solved in processes "
                 f"started with PYTHONHASHSEED in {seeds}: all solutions identical and equal to the Spec's; "
                 "all non-trivial")
    cases = []
    tries = 0
    while len(cases) < n and tries < 30 * n:
        tries += 1
        c = e2e.gen_cases(rng, 1, features=[rng.choice([set(), {"constraint"}, {"stochastic"}])])[0]
        m = c["_mspec"]
        if sum(G.is_cont(g) for _, g in m["states"]) >= 2 and m["n_periods"] >= 2:
            cases.append(c)
    wc = [e2e.wire(c) for c in cases]
    sres = run_model(wc)
    per_seed = {hs: run_impl(wc, extra_env={"PYTHONHASHSEED": str(hs)}, nproc=min(len(wc), 4)) for hs in seeds}
    for k, (c, s) in enumerate(zip(cases, sres)):
        fam.count({"py": c["py"]})
        bad = None
        for hs in seeds:
            i = per_seed[hs][k]
            if isinstance(i, dict) and "error" in i:
                bad = f"PYTHONHASHSEED={hs}: lcm raised {str(i.get('detail'))[:150]}"
                break
            if isinstance(s, dict) and "error" in s:
                continue
            for t, (a, b) in enumerate(zip(i, s)):
                if a["shape"] != b["shape"] or any(y is not None and (x is None or close(x, y) == "diff") for x, y in zip(a["data"], b["data"])):
                    bad = f"PYTHONHASHSEED={hs}: period {t} differs from the Spec's solution (other seeds: {[h for h in seeds if h != hs]})"
                    break
            if bad:
                break
        if bad:
            fam.violations.append({"case": wc[k], "what": bad})
        else:
            fam.exact += 1
    return fam


def run(tier, seed):
    rng = random.Random(seed * 7919 + 9)
    if tier == "quick":
        return [fam_history(rng, 8, 8), fam_hash_seeds(rng, 4, [0, 1, 2, 3])]
    return [fam_history(rng, 60, 24), fam_hash_seeds(rng, 12, list(range(32)))]


def matches_signature(entry, item):
    return False


def replay_known(entry):
    return False


def replay(payload):
    v = payload.get("violation") or (payload.get("correspondence_disagreements") or [{}])[0]
    case = v.get("case")
    if not case:
        print("nothing to replay in this file (proof-only breakage):", payload.get("no_longer_checks"))
        return 1
    print(case.get("py", ""))
    print("what:", v.get("what"))
    i = run_impl([case])[0]
    print("lcm:", json.dumps(i)[:2500])
    return 0

"""C12 — specifications are rejected up front or run to completion (partial)."""
import copy
import json
import random
from fractions import Fraction

import e2e
import exprlang as X
import gen_models as G
from core import Family, q, unq, run_model, run_impl

GEN_FILES = ["GridValidate.v"]
TRUSTED = e2e.TRUSTED + [
    "Model/UserModel.v and ParamsTemplate.creation_checks are hand models of the validators: tied by families model_validation / creation_checks",
    "grid validation: C16",
]
ASSUMPTIONS = ["'runs without an internal error' is decided by running lcm on generated accepted shapes; shapes known to crash are listed in known_findings.json with their signatures",
               "n_periods is an int (a non-int n_periods is not one of the documented rules)"]

# signatures of the crashes of accepted specifications that are recorded as known findings
KNOWN = {
    "agent_without_admissible_restricted_choice": ["ncompatible shapes for broadcasting", "vmap got inconsistent sizes for array axes",
                                                   "integer modulo by zero", "does not match length of index"],
    "target_without_model_variable": ["vmap must have at least one non-None value in in_axes"],
    "constant_transition": ["rank should be at least 1, but is only 0", "len() of unsized object"],
    "auxiliary_state": ["got extra: {'next_", "got extra: {\"next_"],
    "continuous_variable_in_filter": ["missing: {'__", "got multiple values for keyword argument"],
    "stochastic_without_dependencies": ["p has shape ()", "must be 1-dimensional", "iteration over a 0-d array"],
    "no_states_simulate": ["StopIteration"],
    "one_point_continuous_state": ["ZeroDivisionError", "division by zero"],
}


def gen_raw(rng):
    def rd(kind):
        r = rng.random()
        if r < 0.08:
            return None
        # names collide on purpose: "aux" is a function and may be a state, "next_w" may be a choice, "utility" a state
        names = {"functions": ["utility", "next_w", "next_h", "aux", "next_aux", "w"], "choices": ["c", "d", "w", "next_w"],
                 "states": ["w", "h", "aux", "utility"]}[kind]
        k = rng.randint(0, len(names))
        out = []
        for n in rng.sample(names, k):
            key = n if rng.random() < 0.9 else 7
            out.append([key, rng.random() < 0.9])
        return out
    c = {"fn": "validate_model", "n_periods": rng.choice([1, 2, 3, 3, 0, -1, 5]),
         "functions": rd("functions"), "choices": rd("choices"), "states": rd("states")}
    if rng.random() < 0.55:      # mostly valid stream
        c["n_periods"] = rng.randint(1, 4)
        st = rng.sample(["w", "h"], rng.randint(0, 2))
        c["states"] = [[s, True] for s in st]
        c["choices"] = [[x, True] for x in rng.sample(["c", "d"], rng.randint(0, 2))]
        c["functions"] = [["utility", True]] + [["next_" + s, True] for s in st] + ([["aux", True]] if rng.random() < 0.5 else [])
        rng.shuffle(c["functions"])
        # single violations on top of the valid spec
        v = rng.choice([None, None, "periods", "utility", "next", "overlap", "nongrid", "noncallable", "key",
                        "state_named_like_a_function", "state_named_like_a_function"])
        if v == "periods":
            c["n_periods"] = rng.choice([0, -3])
        elif v == "utility":
            c["functions"] = [f for f in c["functions"] if f[0] != "utility"]
        elif v == "next" and st:
            c["functions"] = [f for f in c["functions"] if f[0] != "next_" + st[0]]
        elif v == "overlap" and st:
            c["choices"].append([st[0], True])
        elif v == "nongrid" and c["states"]:
            c["states"][0][1] = False
        elif v == "noncallable":
            c["functions"][0][1] = False
        elif v == "key":
            c["choices"].append([7, True])
        elif v == "state_named_like_a_function":
            # a state whose name is also a key of `functions`; its transition is present or (violation) missing
            fn = rng.choice([f[0] for f in c["functions"]])
            c["states"].append([fn, True])
            if rng.random() < 0.5:
                c["functions"].append(["next_" + fn, True])
    return c


def to_model_case(c):
    def conv(d):
        return None if d is None else [[k, ok] for k, ok in d]
    return {"fn": "validate_model", "n_periods": c["n_periods"], "functions": conv(c["functions"]),
            "choices": conv(c["choices"]), "states": conv(c["states"])}


def rules_hold(c):
    for d in (c["functions"], c["choices"], c["states"]):
        if d is None or any(not isinstance(k, str) or not ok for k, ok in d):
            return False
    f = [k for k, _ in c["functions"]]
    st = [k for k, _ in c["states"]]
    ch = [k for k, _ in c["choices"]]
    return c["n_periods"] >= 1 and "utility" in f and all("next_" + s in f for s in st) and not set(st) & set(ch)


def fam_validation(rng, n):
    fam = Family("model_validation",
                 "raw specifications: mostly valid ones with a single rule violation on top (fewer than one "
                 "period, no utility, a state without transition, a name used as state and choice, a non-grid, "
                 "a non-callable, a non-string key) and a stream of combined violations (non-dict attributes "
                 "...); Model(...) must raise the initialization error iff a documented rule is violated; "
                 "non-trivial = at least one attribute non-empty")
    cases = [gen_raw(rng) for _ in range(n)]
    mres, ires = run_model([to_model_case(c) for c in cases]), run_impl(cases)
    for c, m, i in zip(cases, mres, ires):
        fam.count(c, any(c[k] for k in ("functions", "choices", "states")))
        ok = rules_hold(c)
        fam.bump("valid" if ok else "invalid")
        out = i.get("outcome")
        if out not in ("accept", "reject"):
            fam.violations.append({"case": c, "impl": i, "what": f"Model(...) raised {out} instead of the initialization error"})
        elif (out == "accept") != ok:
            fam.violations.append({"case": c, "impl": i, "rules_hold": ok, "what": "Model(...) accepted/rejected contrary to the documented rules"})
        elif m != ok:
            fam.disagreements.append({"case": c, "model": m, "impl": i})
        else:
            fam.exact += 1
    return fam


def fixed_creation_cases():
    """the late rules on fixed small models (independent of the random stream): each rule violated alone -- in particular a
    stochastic transition on a CONTINUOUS state while no discrete state is stochastic -- and next to a valid stochastic
    discrete state; plus the two valid base models"""
    F = Fraction
    def base(other_stochastic):
        fs = [{"name": "utility", "args": ["kind", "wealth", "work"], "body": ["+", ["+", X.v("wealth"), X.v("kind")], X.v("work")], "stochastic": False},
              {"name": "next_wealth", "args": ["wealth", "work"], "body": ["+", X.v("wealth"), X.v("work")], "stochastic": False},
              {"name": "next_kind", "args": ["kind"], "body": X.v("kind") if not other_stochastic else X.c(0), "stochastic": other_stochastic},
              {"name": "ok_filter", "args": ["kind", "work"], "body": ["<=", X.v("work"), ["+", X.v("kind"), X.c(1)]], "stochastic": False}]
        return {"n_periods": 2, "states": [["kind", {"d": 2}], ["wealth", {"lin": [F(0), F(2), 3]}]], "choices": [["work", {"d": 2}]], "functions": fs}
    out = []
    for other in (False, True):
        for kind in ("none", "stoch_on_cont", "dep_on_cont", "filter_param"):
            m = base(other)
            fn = {f["name"]: f for f in m["functions"]}
            if kind == "stoch_on_cont":
                fn["next_wealth"].update(stochastic=True, args=["kind"], body=X.c(0))
            elif kind == "dep_on_cont":
                if not other:
                    continue                       # needs a stochastic transition to attach the continuous dependency to
                fn["next_kind"]["args"] = ["kind", "wealth"]
            elif kind == "filter_param":
                fn["ok_filter"]["args"] = ["kind", "work", "threshold"]
                fn["ok_filter"]["body"] = ["and", fn["ok_filter"]["body"], ["<=", X.c(0), X.v("threshold")]]
            out.append({"fn": "creation_checks", "model": G.model_json(m, q), "py": G.render_python(m), "violation": kind})
    return out


def fam_creation(rng, n):
    fam = Family("creation_checks",
                 "valid generated models with one late rule violated on top: a stochastic transition on a "
                 "continuous state, a stochastic transition depending on a continuous variable, a filter with a "
                 "parameter — with and without another (valid) stochastic discrete state; get_lcm_function must "
                 "raise ValueError exactly for these; all non-trivial")
    cases = e2e.gen_cases(rng, n // 2, fn="creation_checks", features=[set(), {"stochastic"}, {"filter"}, {"filter", "stochastic"}])
    cases += e2e.gen_cases(rng, n - n // 2, fn="creation_checks", features=[set(), {"filter"}], allow_stochastic=False)
    wcs = []
    for ci, c in enumerate(cases):
        m = copy.deepcopy(c["_mspec"])
        conts = [s for s, g in m["states"] if G.is_cont(g)]
        disc = [s for s, g in m["states"] if not G.is_cont(g)]
        contvars = [v for v, g in m["states"] + m["choices"] if G.is_cont(g)]
        kind = ["stoch_on_cont", "none", "dep_on_cont", "filter_param", "stoch_on_cont"][ci % 5]
        done = "none"
        if kind == "stoch_on_cont" and conts and disc:
            for f in m["functions"]:
                if f["name"] == "next_" + conts[0]:
                    f["stochastic"], f["args"], f["body"] = True, [disc[0]], X.c(0)
                    done = kind
        elif kind == "dep_on_cont" and contvars:
            for f in m["functions"]:
                if f["stochastic"]:
                    f["args"] = f["args"] + [contvars[0]]
                    done = kind
                    break
        elif kind == "filter_param":
            for f in m["functions"]:
                if f["name"].endswith("_filter"):
                    f["args"] = f["args"] + ["threshold"]
                    f["body"] = ["and", f["body"], ["<=", X.c(0), X.v("threshold")]]
                    done = kind
                    break
        w = {"fn": "creation_checks", "model": G.model_json(m, q), "py": G.render_python(m), "violation": done}
        wcs.append(w)
    wcs += fixed_creation_cases()
    mres, ires = run_model(wcs), run_impl(wcs)
    for w, m, i in zip(wcs, mres, ires):
        fam.count({"py": w["py"]})
        fam.bump(w["violation"])
        expect_reject = w["violation"] != "none"
        out = i.get("outcome")
        if out not in ("accept", "reject"):
            fam.violations.append({"case": w, "impl": i, "what": f"get_lcm_function raised {out} (not ValueError) / the model was rejected earlier"})
        elif (out == "reject") != expect_reject:
            fam.violations.append({"case": w, "impl": i, "what": f"late rule '{w['violation']}': get_lcm_function {'did not reject' if expect_reject else 'rejected a valid model'}"})
        elif m != (not expect_reject):
            fam.disagreements.append({"case": w, "model": m, "impl": i})
        else:
            fam.exact += 1
    return fam


def classify(detail, mspec=None, stage=None):
    """signature of the listed known finding a crash belongs to, or None.  The finding 'an agent whose
    restricted state has no filter-passing choice' is recognised by its CAUSE (the model's filters leave
    some restricted state without passing choice in some period, and the crash happens while simulating):
    the exception that results depends on how many agents and segments are involved."""
    if "is not in list" in str(detail) and "'next_" in str(detail):
        return "auxiliary_state"          # a stochastic auxiliary state: productmap over a next_ variable the value function lacks
    for name, pats in KNOWN.items():
        if any(p in str(detail) for p in pats):
            if name == "agent_without_admissible_restricted_choice" and mspec is not None \
                    and not (stage == "simulate" and G.excludes_states(mspec)):
                continue
            return name
    if mspec is not None and stage == "simulate" and G.excludes_states(mspec):
        return "agent_without_admissible_restricted_choice"
    return None


def fam_run(rng, n):
    fam = Family("accepted_models_run",
                 "every generated accepted model (all features in rotation, filters that may exclude states, "
                 "targets incl. parameter-only functions) is solved and simulated with template-following "
                 "params and random initial states; any exception is a violation unless it matches the "
                 "signature of a listed known finding; non-trivial = >= 2 periods")
    cases = e2e.gen_cases(rng, n, fn="run_accepted")
    wcs = []
    for c in cases:
        w = e2e.wire(c)
        w["initial_states"] = e2e.gen_initial_states(rng, c["_mspec"], rng.randint(1, 4))
        if rng.random() < 0.4:
            cand = e2e.target_candidates(c["_mspec"])
            w["additional_targets"] = rng.sample(cand, rng.randint(1, min(2, len(cand))))
        wcs.append(w)
    ires = run_impl(wcs)
    for c, w, i in zip(cases, wcs, ires):
        fam.count({"py": w["py"]}, c["_mspec"]["n_periods"] >= 2)
        if "error" in i:
            fam.violations.append({"case": w, "impl": i, "what": "model could not be built: " + str(i.get("detail"))[:200]})
        elif i["outcome"] == "ran":
            fam.exact += 1
        elif i["class"] == "ValueError" and i["stage"].startswith("get_lcm_function"):
            fam.exact += 1                 # rejected with ValueError when the functions are created: allowed
            fam.bump("rejected_at_creation")
        else:
            fam.violations.append({"case": w, "impl": i, "known_signature": classify(i.get("detail"), c["_mspec"], i.get("stage")),
                                   "what": f"accepted specification raised {i['class']} in {i['stage']}: {i['detail'][:160]}"})
    return fam


def fam_import(rng):
    fam = Family("import", "lcm.entry_point / simulate / ndimage import in a clean interpreter (installed JAX); 2 modules count as distinct")
    i = run_impl([{"fn": "import_check"}])[0]
    fam.count({"module": "lcm.entry_point"})
    fam.count({"module": "lcm.simulate"})
    if i.get("ok"):
        fam.exact += 1
    else:
        fam.violations.append({"case": {"fn": "import_check"}, "impl": i, "what": "lcm.entry_point cannot be imported: nothing can be solved or simulated"})
    return fam


def fam_grids(rng, n):
    """an invalid grid is one of C12's rules: reuse C16's grid family (accept/reject only)"""
    from props import C16
    fam = C16.fam_continuous(rng, n)
    fam.name = "grid_validation"
    # the C16 known finding (huge int bounds) is not a C12 matter: keep only accept/reject mistakes
    fam.violations = [v for v in fam.violations if "contrary to the specification" in v.get("what", "")
                      or "instead of GridInitializationError" in v.get("what", "") and not C16._is_huge_int_case(v)]
    return fam


def run(tier, seed):
    rng = random.Random(seed * 7919 + 12)
    k = 1 if tier == "quick" else 15
    return [fam_grids(rng, 150 * k), fam_validation(rng, 300 * k), fam_creation(rng, 30 * k), fam_run(rng, 16 * k), fam_import(rng)]


def matches_signature(entry, item):
    sig = entry.get("signature")
    return sig is not None and item.get("known_signature") == sig


def replay_known(entry):
    case = entry["replay"]
    i = run_impl([case])[0]
    if case["fn"] == "run_accepted":
        return i.get("outcome") == "raised" or "error" in i
    if case["fn"] == "import_check":
        return not i.get("ok")
    return False


def replay(payload):
    v = payload.get("violation") or (payload.get("correspondence_disagreements") or [{}])[0]
    case = v.get("case")
    if not case:
        print("nothing to replay in this file (proof-only breakage):", payload.get("no_longer_checks"))
        return 1
    print(case.get("py", json.dumps(case)))
    print("what:", v.get("what"))
    print("lcm:", json.dumps(run_impl([case])[0])[:1500])
    return 0

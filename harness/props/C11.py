"""C11 — algebraic laws of finite-horizon dynamic programming (metamorphic, lcm vs lcm)."""
import copy
import json
import random
from fractions import Fraction

import e2e
import gen_models as G
import meta
from core import Family, q, unq, close, run_impl, run_model

GEN_FILES = ["ModelFunctions.v"]
TRUSTED = e2e.TRUSTED
ASSUMPTIONS = e2e.ASSUMPTIONS + ["transition rows sum to one (forced by the proof of the affine law)",
                                 "for the horizon law no function depends on _period"]


def geom(beta, k):
    return sum(beta ** j for j in range(k))


def fam_affine(rng, n, big=False):
    fam = Family("affine_utility",
                 "utility replaced by a*utility+b (a>0): every value must become a*V + b*sum_{k<T-t} beta^k; lcm vs "
                 "lcm, aligned by position (same layout); non-trivial = >= 2 periods")
    bases = e2e.gen_cases(rng, n, features=[{"period_filter"}, {"two_stochastic"}, set(), {"stochastic"}, {"filter"}, {"constraint"}])
    cases, info = [], []
    for c in bases:
        m, p = c["_mspec"], c["_params"]
        m2, p2, a, b = meta.affine_utility(rng, m, p)
        cases += [meta.case_of(m, p), meta.case_of(m2, p2)]
        info.append((m, p, a, b))
    ires = run_impl(cases)
    for k, (m, p, a, b) in enumerate(info):
        i0, i1 = ires[2 * k], ires[2 * k + 1]
        fam.count({"py": cases[2 * k]["py"], "a": str(a), "b": str(b)}, m["n_periods"] >= 2)
        if any(isinstance(x, dict) and "error" in x for x in (i0, i1)):
            if isinstance(i0, dict) and "error" in i0:
                fam.outside.append({"case": cases[2 * k], "what": "base model raised"})
            else:
                fam.violations.append({"case": cases[2 * k + 1], "impl": i1, "what": "the affine-utility model raised"})
            continue
        T, beta = m["n_periods"], p["beta"]
        bad = None
        for t, (x, y) in enumerate(zip(i0, i1)):
            shift = b * geom(beta, T - t)
            for u, v in zip(x["data"], y["data"]):
                if u is None or v is None:
                    continue
                if u == "-inf" or v == "-inf":
                    if u != v:
                        bad = f"period {t}: -inf pattern differs"
                    continue
                if close(q(a * unq(u) + shift), v, 1e-9) == "diff":
                    bad = f"period {t}: {v} is not a*{u} + b*geom = {a * unq(u) + shift}"
                    break
            if bad:
                break
        if bad:
            fam.violations.append({"case": cases[2 * k + 1], "base": cases[2 * k], "a": str(a), "b": str(b), "what": "affine law: " + bad})
        else:
            fam.exact += 1
    return fam


def fam_beta_zero(rng, n):
    fam = Family("beta_zero",
                 "with beta = 0 the values of every period must not depend on the transition functions: the same "
                 "model with all deterministic transitions replaced by other ones gives identical arrays; and "
                 "the last-period array is unchanged by beta; all non-trivial")
    bases = e2e.gen_cases(rng, n, features=[{"period_filter"}, set(), {"constraint"}, {"filter"}])
    cases, info = [], []
    for c in bases:
        m, p = c["_mspec"], copy.deepcopy(c["_params"])
        if any(a.startswith("next_") for f in m["functions"] for a in f["args"]):
            continue            # a function reads the output of a transition: transitions matter even with beta = 0
        p["beta"] = Fraction(0)
        m2 = copy.deepcopy(m)
        grids = dict((n_, g) for n_, g in m["states"])
        for f in m2["functions"]:
            if f["name"].startswith("next_") and not f["stochastic"]:
                s = f["name"][5:]
                f["args"] = [s]
                f["body"] = ["v", s]
        for f in m2["functions"]:
            if f["name"].startswith("next_") and not f["stochastic"]:
                p.setdefault("fpar", {})
        p2 = copy.deepcopy(p)
        for f in m2["functions"]:
            if f["name"].startswith("next_") and not f["stochastic"]:
                p2["fpar"][f["name"]] = {}
        cases += [meta.case_of(m, p), meta.case_of(m2, p2)]
        info.append(m)
    ires = run_impl(cases)
    for k, m in enumerate(info):
        i0, i1 = ires[2 * k], ires[2 * k + 1]
        fam.count({"py": cases[2 * k]["py"]})
        if any(isinstance(x, dict) and "error" in x for x in (i0, i1)):
            fam.outside.append({"case": cases[2 * k], "what": "a model raised"})
            continue
        bad = None
        for t, (x, y) in enumerate(zip(i0, i1)):
            for u, v in zip(x["data"], y["data"]):
                if u is None or v is None:
                    continue
                if close(u, v, 1e-12) == "diff":
                    bad = f"period {t}: {u} vs {v}"
                    break
            if bad:
                break
        if bad:
            fam.violations.append({"case": cases[2 * k], "other": cases[2 * k + 1], "what": "beta = 0 but the values depend on the transitions: " + bad})
        else:
            fam.exact += 1
    return fam


def no_period(mspec):
    return all("_period" not in f["args"] for f in mspec["functions"])


def fam_horizon(rng, n):
    fam = Family("horizon",
                 "models without any dependence on the period solved with horizons T and T+d: the arrays t periods "
                 "before the end must coincide; all non-trivial")
    cases, info = [], []
    tries = 0
    while len(info) < n and tries < 40 * n:
        tries += 1
        c = e2e.gen_cases(rng, 1, features=[rng.choice([set(), {"filter"}, {"stochastic"}, {"constraint"}])])[0]
        m, p = c["_mspec"], c["_params"]
        if not no_period(m) or m["n_periods"] < 2:
            continue
        m2 = copy.deepcopy(m)
        m2["n_periods"] = m["n_periods"] + rng.randint(1, 2)
        cases += [meta.case_of(m, p), meta.case_of(m2, p)]
        info.append((m, m2))
    ires = run_impl(cases)
    for k, (m, m2) in enumerate(info):
        i0, i1 = ires[2 * k], ires[2 * k + 1]
        fam.count({"py": cases[2 * k]["py"], "T2": m2["n_periods"]})
        if any(isinstance(x, dict) and "error" in x for x in (i0, i1)):
            fam.outside.append({"case": cases[2 * k], "what": "a model raised"})
            continue
        T, T2 = m["n_periods"], m2["n_periods"]
        bad = None
        for j in range(T):
            x, y = i0[T - 1 - j], i1[T2 - 1 - j]
            if x["shape"] != y["shape"]:
                bad = f"{j} periods before the end: shapes {x['shape']} vs {y['shape']}"
                break
            for u, v in zip(x["data"], y["data"]):
                if u is None or v is None:
                    continue
                if close(u, v, 1e-9) == "diff":
                    bad = f"{j} periods before the end: {u} vs {v}"
                    break
            if bad:
                break
        if bad:
            fam.violations.append({"case": cases[2 * k], "other": cases[2 * k + 1], "what": "horizon law: " + bad})
        else:
            fam.exact += 1
    return fam


def fam_degenerate(rng, n):
    fam = Family("degenerate_transitions",
                 "stochastic states whose transition rows are all unit vectors e_g(deps) vs the same model with "
                 "the deterministic transition g: identical solutions; all non-trivial")
    bases = e2e.gen_cases(rng, n, features=[{"two_stochastic"}, {"two_stochastic", "constraint"}, {"stochastic"}, {"two_stochastic", "filter"}])
    cases, info = [], []
    for c in bases:
        r = meta.degenerate(rng, c["_mspec"], c["_params"])
        if not r:
            continue
        p1, m2, p2 = r
        cases += [meta.case_of(c["_mspec"], p1), meta.case_of(m2, p2)]
        info.append(c)
    ires = run_impl(cases)
    for k, c in enumerate(info):
        i0, i1 = ires[2 * k], ires[2 * k + 1]
        fam.count({"py": cases[2 * k]["py"]})
        if any(isinstance(x, dict) and "error" in x for x in (i0, i1)):
            fam.outside.append({"case": cases[2 * k], "impl": [i0 if isinstance(i0, dict) else None, i1 if isinstance(i1, dict) else None], "what": "a model raised"})
            continue
        bad = None
        for t, (x, y) in enumerate(zip(i0, i1)):
            if x["shape"] != y["shape"]:
                bad = f"period {t}: shapes differ"
                break
            for u, v in zip(x["data"], y["data"]):
                if u is None or v is None:
                    continue
                if close(u, v, 1e-9) == "diff":
                    bad = f"period {t}: {u} (degenerate stochastic) vs {v} (deterministic)"
                    break
            if bad:
                break
        if bad:
            fam.violations.append({"case": cases[2 * k], "other": cases[2 * k + 1], "what": "degenerate transition: " + bad})
        else:
            fam.exact += 1
    return fam


def run(tier, seed):
    rng = random.Random(seed * 7919 + 11)
    k = 1 if tier == "quick" else 15
    fam_b0, _ = e2e.fam_solve(rng, 8 * k, name="beta_zero_vs_one_period_problems", jit_modes=(True,), beta_zero=True,
                              features=[{"period_filter"}, {"constraint"}, {"period_filter", "stochastic"}, set()])
    return [fam_affine(rng, 8 * k), fam_beta_zero(rng, 5 * k), fam_b0, fam_horizon(rng, 5 * k), fam_degenerate(rng, 10 * k)]


def matches_signature(entry, item):
    return False


def replay_known(entry):
    return False


def replay(payload):
    v = payload.get("violation") or (payload.get("correspondence_disagreements") or [{}])[0]
    for key in ("base", "case", "other"):
        c = v.get(key)
        if c:
            print(f"---- {key} ----")
            print(c.get("py", ""))
            print("params:", json.dumps(c.get("params")))
            print("lcm:", json.dumps(run_impl([c])[0])[:1500])
    print("what:", v.get("what"))
    return 0 if v else 1

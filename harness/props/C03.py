"""C03 — simulated states follow the law of motion."""
import e2e
from props import _sim

GEN_FILES = ["Simulate.v", "RandomChoiceGen.v", "WeightFunc.v"]
TRUSTED = e2e.TRUSTED
ASSUMPTIONS = e2e.ASSUMPTIONS + ["the draw of a stochastic state is judged only by 'has positive probability in the selected row' (the distribution is C04)"]
from props import C04 as _c04


def _draws(rng, tier):
    return _c04.fam_draws(rng, 12 if tier == "quick" else 150)


FEATS = [{"stochastic"}, set(), {"stochastic", "filter"}, {"constraint"}, {"stochastic"}, {"period_filter"}]
run = _sim.make("C03", 3, 24, ("C03",), features=FEATS, extra_fams=[_draws])
replay = _sim.replay


def matches_signature(entry, item):
    if entry.get("signature") == "non_elementwise_transition":
        c = item.get("case") or {}
        return "jnp.sum(jnp.array(" in c.get("py", "") and "the transition function gives" in str(item.get("what", ""))
    return False


def replay_known(entry):
    import gen_models as G
    from core import run_impl, run_model, Family
    w = dict(entry["replay"])
    i = run_impl([e2e.wire(w)])[0]
    if isinstance(i, dict) and "error" in i:
        return True
    mspec = {"n_periods": w["model"]["n_periods"],
             "states": [[n, g] for n, g in w["model"]["states"]], "choices": [[n, g] for n, g in w["model"]["choices"]],
             "functions": w["model"]["functions"]}
    rows = e2e.panel_rows({"_mspec": mspec}, i)
    s = run_model([{"fn": "rows", "model": w["model"], "params": w["params"], "rows": rows}])[0]
    na = w["_n_agents"]
    for r in range(len(rows) - na):
        for sname, nv in s[r]["next"]:
            if nv not in (None, "undefined"):
                from core import close
                if close(i["columns"][sname][r + na], nv) == "diff":
                    return True
    return False

"""C17 — the state-choice space contains exactly the filter-passing combinations."""
import itertools
import json
import random

import e2e
from core import Family, q, unq, run_model, run_impl, cmp_tree

GEN_FILES = ["StateSpaceGlue.v", "IndexersGen.v", "FilterMask.v", "ChoiceAxes.v"]
RUNNERS = ["fmask_runner"]
TRUSTED = e2e.TRUSTED + [
    "Model/StateSpace.v (boolean-mask selection in row-major order; any/cumulative ranks/fill value; repeat) is hand-written: tied by family indexers_and_segments",
    "translator/py2coq_fmask.py and Model/PyVocab.v: the dict vocabulary of Gen/FilterMask.v, tied by family filter_mask_vs_regenerated (bin/fmask_runner); that the concatenated filter (dags) computes the Spec's filters is judged by the same family (the runner evaluates the filters with the Spec)",
]
ASSUMPTIONS = ["filters over discrete variables and the period only (C17's quantifier)"]


def fam_unit(rng, n):
    fam = Family("indexers_and_segments",
                 "random boolean masks over 1-3 restricted states x 0-2 restricted choices (dims 1-4), densities "
                 "0.2-0.9 incl. states without passing choice; lcm's create_indexers_and_segments and "
                 "create_combination_grid vs the model; oracle: brute-force enumeration; non-trivial = some "
                 "state without passing choice or >= 2 choice axes")
    cases = []
    for _ in range(n):
        ns, nc = rng.randint(1, 3), rng.randint(0, 2)
        shape = [rng.randint(1, 4) for _ in range(ns + nc)]
        size = 1
        for s in shape:
            size *= s
        p = rng.choice([0.2, 0.5, 0.7, 0.9])
        data = [rng.random() < p for _ in range(size)]
        if not any(data):
            data[rng.randrange(size)] = True
        cases.append({"fn": "indexers_and_segments", "mask": {"shape": shape, "data": data}, "n_sparse_states": ns})
    mres, ires = run_model(cases), run_impl(cases)
    for c, m, i in zip(cases, mres, ires):
        shape, ns = c["mask"]["shape"], c["n_sparse_states"]
        idxs = list(itertools.product(*[range(s) for s in shape]))
        mask = dict(zip(idxs, c["mask"]["data"]))
        sshape, cshape = shape[:ns], shape[ns:]
        states = list(itertools.product(*[range(s) for s in sshape]))
        feas = [s for s in states if any(mask[s + ci] for ci in itertools.product(*[range(x) for x in cshape]))]
        fam.count(c, len(feas) < len(states) or len(cshape) >= 2)
        if "error" in i:
            fam.violations.append({"case": c, "impl": i, "what": "create_indexers_and_segments raised"})
            continue
        combos = [list(ix) for ix in idxs if mask[ix]]
        rank = {s: k for k, s in enumerate(feas)}
        exp_indexer = [rank.get(s, -1) for s in states]
        exp_segments = [rank[tuple(cb[:ns])] for cb in combos]
        exp = {"state_indexer": {"shape": sshape, "data": exp_indexer}, "segment_ids": exp_segments,
               "num_segments": len(feas), "combinations": combos}
        if cmp_tree(i, exp, fam) != "exact":
            fam.violations.append({"case": c, "impl": i, "expected": exp,
                                   "what": "stored combinations / state indexer / segments differ from the filter-passing combinations and their ranks"})
        elif cmp_tree(m, i, fam) != "exact":
            fam.disagreements.append({"case": c, "model": m, "impl": i})
        else:
            fam.exact += 1
    return fam


def fam_models(rng, n):
    fam = Family("state_space_vs_spec",
                 "random whole models with 1-2 filters over discrete states/choices and the period (names chosen "
                 "so that alphabetical and declaration order differ), every period: sparse variable names and "
                 "stored combinations, state indexer, segment ids, number of segments, names of the dense "
                 "variables from lcm.create_state_choice_space vs the Spec; non-trivial = a state is excluded "
                 "in some period or there are >= 2 restricted variables")
    cases = e2e.gen_cases(rng, n, fn="state_space", features=[{"filter"}, {"period_filter"}, {"filter", "mixed_discrete_choices"}, {"period_filter", "stochastic"}])
    wc = []
    for c in cases:
        for t in range(c["_mspec"]["n_periods"]):
            w = e2e.wire(c)
            w["period"] = t
            wc.append(w)
    sres, ires = run_model(wc), run_impl(wc)
    for w, s, i in zip(wc, sres, ires):
        if isinstance(s, dict) and "error" in s:
            fam.disagreements.append({"case": w, "spec": s, "what": "runner error"})
            continue
        nontriv = (s["state_indexer"] and -1 in s["state_indexer"]["data"]) or len(s["sparse_names"]) >= 2
        fam.count({"py": w["py"], "t": w["period"]}, nontriv)
        if isinstance(i, dict) and "error" in i:
            fam.violations.append({"case": w, "impl": i, "what": "create_state_choice_space raised: " + str(i.get("detail"))[:200]})
            continue
        if not s["sparse_names"]:
            exp = {"sparse_names": [], "sparse_vars": [], "state_indexer": None, "segment_ids": None,
                   "num_segments": None, "dense_names": s["dense_names"]}
        else:
            exp = dict(s)
            if not s["state_indexer"]["shape"]:
                exp["state_indexer"] = None
        keys = ["sparse_names", "sparse_vars", "segment_ids", "num_segments", "dense_names"]
        bad = [k for k in keys if cmp_tree(i[k], exp[k], fam) == "diff"]
        if exp["state_indexer"] is not None and cmp_tree(i["state_indexer"], exp["state_indexer"], fam) == "diff":
            bad.append("state_indexer")
        if bad:
            fam.violations.append({"case": w, "impl": i, "spec": exp,
                                   "what": f"state-choice space of period {w['period']} differs from the filter-passing combinations in: {bad}"})
        else:
            fam.exact += 1
    return fam


def fam_filter_mask(rng, n):
    fam = Family("filter_mask_vs_regenerated",
                 "random whole models with 1-2 filters over discrete states/choices and the period, every period, subset = None "
                 "and subset = the sparse variables in shuffled order, jit on and off: lcm.state_space.create_filter_mask vs the "
                 "regenerated create_filter_mask (Gen/FilterMask.v) extracted to OCaml, on the inputs lcm's own reads off the "
                 "processed model; the filter itself is evaluated by the Spec; non-trivial = >= 2 axes and some entry False")
    cases = e2e.gen_cases(rng, n, fn="filter_mask", features=[{"filter"}, {"period_filter"}, {"filter", "mixed_discrete_choices"}, {"period_filter", "stochastic"}])
    wc = []
    for c in cases:
        for t in range(c["_mspec"]["n_periods"]):
            w = e2e.wire(c)
            w.update(period=t, subset=None, jit=rng.random() < 0.3)
            wc.append(w)
    ires = run_impl(wc)
    # a second pass with the subset given explicitly, in another order than model.grids
    extra = []
    for w, i in zip(wc, ires):
        if isinstance(i, dict) and "error" not in i and "no_filters" not in i and rng.random() < 0.5:
            names = [n_ for n_, flags in i["inputs"]["variable_info"] if flags[6]]
            rng.shuffle(names)
            w2 = dict(w)
            w2["subset"] = names
            extra.append(w2)
    wc = wc + extra
    ires = ires + run_impl(extra)
    mc, keep = [], []
    for w, i in zip(wc, ires):
        if isinstance(i, dict) and ("error" in i or "no_filters" in i):
            keep.append(None)
            continue
        m = dict(w)
        m.update(i["inputs"])
        keep.append(len(mc))
        mc.append(m)
    mres = run_model(mc, runner="fmask_runner")
    for w, i, k in zip(wc, ires, keep):
        key = {"py": w["py"], "t": w["period"], "subset": w["subset"]}
        if isinstance(i, dict) and "no_filters" in i:
            fam.bump("model_without_filters (no mask is built)")
            continue
        if k is None:
            fam.count(key, False)
            fam.violations.append({"case": w, "impl": i, "what": "create_filter_mask raised: " + str(i.get("detail"))[:200]})
            continue
        s = mres[k]
        fam.count(key, len(i["shape"]) >= 2 and not all(i["data"]))
        fam.bump(f"axes={len(i['shape'])}")
        if isinstance(s, dict) and "error" in s:
            fam.disagreements.append({"case": w, "model": s, "what": "runner error"})
        elif s["shape"] != i["shape"] or s["data"] != i["data"]:
            fam.disagreements.append({"case": w, "model": s, "impl": {"shape": i["shape"], "data": i["data"]},
                                      "what": "create_filter_mask differs from the regenerated definition evaluated with the Spec's filters"})
        else:
            fam.exact += 1
    return fam


def run(tier, seed):
    rng = random.Random(seed * 7919 + 17)
    k = 1 if tier == "quick" else 20
    return [fam_unit(rng, 200 * k), fam_models(rng, 16 * k), fam_filter_mask(rng, 10 * k)]


def matches_signature(entry, item):
    return False


def replay_known(entry):
    return False


def replay(payload):
    v = payload.get("violation") or (payload.get("correspondence_disagreements") or [{}])[0]
    case = v.get("case")
    if not case:
        print("nothing to replay in this file (proof-only breakage):", payload.get("no_longer_checks"))
        return 1
    print(case.get("py", json.dumps(case)))
    print("lcm :", json.dumps(run_impl([case])[0])[:2000])
    print("spec/model:", json.dumps(run_model([case])[0])[:2000])
    return 0

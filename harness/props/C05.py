"""C05 — value arrays follow the documented axis layout."""
import random

import e2e
from props import C01 as _c01

GEN_FILES = ["SolveBrute.v", "EntryPoint.v", "StateSpaceGlue.v", "ChoiceAxes.v"]
TRUSTED = e2e.TRUSTED
ASSUMPTIONS = e2e.ASSUMPTIONS + ["grid sizes are generated pairwise different so that any transposition of axes changes the shape or the content"]


def run(tier, seed):
    rng = random.Random(seed * 7919 + 5)
    k = 1 if tier == "quick" else 20
    feats = [{"period_filter", "two_filters"}, {"period_filter"}, {"filter"}, {"period_filter", "two_filters", "mixed_discrete_choices"}, set(), {"filter", "stochastic"}, {"mixed_discrete_choices", "filter"}, {"two_cont_choices"}, {"period_filter", "stochastic"}]
    feats = [f | {"separating"} for f in feats]      # values that tell the states apart
    fam, _ = e2e.fam_solve(rng, 36 * k, name="layout_vs_spec", features=feats, jit_modes=(True,))
    fam2, _ = e2e.fam_simulate(rng, 8 * k, judge=("C05",), name="locate_vs_solution")
    return [fam, fam2]


matches_signature, replay_known, replay = _c01.matches_signature, _c01.replay_known, _c01.replay

"""C05 — value arrays follow the documented axis layout."""
import random

import e2e
from core import Family, run_model, run_impl
from props import C01 as _c01

GEN_FILES = ["SolveBrute.v", "EntryPoint.v", "StateSpaceGlue.v", "ChoiceAxes.v", "VariableInfo.v"]
RUNNERS = ["vinfo_runner"]
TRUSTED = e2e.TRUSTED + ["translator/py2coq_vinfo.py: a pandas DataFrame as the list of its rows, columns as functions of the variable, query/loc; tied by family variable_info_vs_regenerated (bin/vinfo_runner)"]
ASSUMPTIONS = e2e.ASSUMPTIONS + ["grid sizes are generated pairwise different so that any transposition of axes changes the shape or the content"]


def fixed_variable_info_cases():
    """declarations the generator does not produce: an auxiliary state (read by its own transition only), a restricted continuous-free
    mix declared in an order that differs from the canonical one in every group"""
    from fractions import Fraction as F
    import gen_models as G
    from core import q
    X = G.X
    m = {"n_periods": 2,
         "states": [["w", {"lin": [F(0), F(4), 3]}], ["aux", {"d": 2}], ["h", {"d": 3}], ["k", {"d": 2}]],
         "choices": [["cons", {"lin": [F(0), F(2), 3]}], ["work", {"d": 2}], ["d", {"d": 3}]],
         "functions": [{"name": "utility", "args": ["w", "h", "k", "cons", "work", "d"],
                        "body": ["+", ["+", X.v("w"), X.v("h")], ["+", ["+", X.v("k"), X.v("cons")], ["+", X.v("work"), X.v("d")]]], "stochastic": False},
                       {"name": "next_w", "args": ["w"], "body": X.v("w"), "stochastic": False},
                       {"name": "next_aux", "args": ["aux"], "body": X.v("aux"), "stochastic": False},
                       {"name": "next_h", "args": ["h"], "body": X.v("h"), "stochastic": False},
                       {"name": "next_k", "args": ["k"], "body": X.v("k"), "stochastic": False},
                       {"name": "ok_filter", "args": ["h", "d"], "body": ["<=", X.v("d"), X.v("h")], "stochastic": False}]}
    p = {"beta": F(1), "fpar": {f["name"]: {} for f in m["functions"]}, "shocks": {}}
    return [{"fn": "variable_info", "model": G.model_json(m, q), "params": G.params_json(p, q), "py": G.render_python(m)}]


def fam_variable_info(rng, n):
    fam = Family("variable_info_vs_regenerated",
                 "random whole models (shuffled declaration order of states, choices and functions; filters, stochastic and auxiliary "
                 "states in rotation): every row and the row ORDER of lcm.input_processing.util.get_variable_info vs the regenerated "
                 "get_variable_info (Gen/VariableInfo.v) extracted to OCaml, on the model's declarations and what dags reports "
                 "(stochastic transitions, auxiliary variables, ancestors of the filters); non-trivial = the canonical order differs "
                 "from the declaration order")
    feats = [{"period_filter", "two_filters"}, {"filter"}, set(), {"filter", "stochastic"}, {"mixed_discrete_choices", "filter"},
             {"two_cont_choices"}, {"period_filter", "stochastic"}]
    cases = e2e.gen_cases(rng, n, fn="variable_info", features=feats)
    wc = [e2e.wire(c) for c in cases] + fixed_variable_info_cases()
    ires = run_impl(wc)
    mc, keep = [], []
    for w, i in zip(wc, ires):
        if isinstance(i, dict) and "error" in i:
            keep.append(None)
            continue
        m = {"fn": "variable_info"}
        m.update(i["inputs"])
        keep.append(len(mc))
        mc.append(m)
    mres = run_model(mc, runner="vinfo_runner")
    for w, i, k in zip(wc, ires, keep):
        if k is None:
            fam.count({"py": w["py"]}, False)
            fam.violations.append({"case": w, "impl": i, "what": "get_variable_info raised: " + str(i.get("detail"))[:200]})
            continue
        s = mres[k]
        decl = [n_ for n_, _ in i["inputs"]["states"]] + [n_ for n_, _ in i["inputs"]["choices"]]
        fam.count({"py": w["py"]}, [r[0] for r in i["rows"]] != decl)
        for key, flag in (("with_restricted", 6), ("with_stochastic", 4), ("with_auxiliary", 5)):
            if any(r[1][flag] for r in i["rows"]):
                fam.bump(key)
        if isinstance(s, dict) and "error" in s:
            fam.disagreements.append({"case": w, "model": s, "what": "runner error"})
        elif [r[0] for r in s.get("rows", [])] != i["grid_names"] or i["grid_names"] != i["gridspec_names"]:
            fam.disagreements.append({"case": w, "model": [r[0] for r in s.get("rows", [])], "impl": [i["grid_names"], i["gridspec_names"]],
                                      "what": "model.grids / gridspecs do not list the variables in the order of variable_info"})
        elif s.get("rows") != i["rows"]:
            fam.disagreements.append({"case": w, "model": s, "impl": i["rows"],
                                      "what": "get_variable_info differs from the regenerated definition (rows or their order)"})
        else:
            fam.exact += 1
    return fam


def run(tier, seed):
    rng = random.Random(seed * 7919 + 5)
    k = 1 if tier == "quick" else 20
    feats = [{"period_filter", "two_filters"}, {"period_filter"}, {"filter"}, {"period_filter", "two_filters", "mixed_discrete_choices"}, set(), {"filter", "stochastic"}, {"mixed_discrete_choices", "filter"}, {"two_cont_choices"}, {"period_filter", "stochastic"}]
    feats = [f | {"separating"} for f in feats]      # values that tell the states apart
    fam, _ = e2e.fam_solve(rng, 36 * k, name="layout_vs_spec", features=feats, jit_modes=(True,))
    fam2, _ = e2e.fam_simulate(rng, 8 * k, judge=("C05",), name="locate_vs_solution")
    return [fam, fam2, fam_variable_info(rng, 30 * k)]


matches_signature, replay_known, replay = _c01.matches_signature, _c01.replay_known, _c01.replay

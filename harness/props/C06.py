"""C06 — solve and simulate agree."""
import random

import e2e
from core import Family, run_impl, cmp_tree
from props import _sim

GEN_FILES = ["EntryPoint.v", "CCV.v", "Argmax.v"]
TRUSTED = e2e.TRUSTED
ASSUMPTIONS = e2e.ASSUMPTIONS


def fam_targets(rng, tier):
    """target 'solve_and_simulate' returns the same frame as solve + simulate(vf_arr_list=...)"""
    fam = Family("solve_and_simulate_vs_two_steps",
                 "the same model, params, initial states and seed run through target 'solve_and_simulate' and "
                 "through 'solve' followed by 'simulate' with the solved arrays; frames must be identical; "
                 "all non-trivial")
    n = 10 if tier == "quick" else 120
    cases = e2e.gen_cases(rng, n, fn="simulate", allow_state_exclusion=False)
    wc = []
    for c in cases:
        w = e2e.wire(c)
        w["initial_states"] = e2e.gen_initial_states(rng, c["_mspec"], rng.randint(2, 5), on_grid=rng.random() < 0.5)
        w["seed"] = rng.randint(0, 999)
        wc.append(w)
    a = run_impl([{**w, "target": "solve_and_simulate"} for w in wc])
    b = run_impl([{**w, "target": "two_steps"} for w in wc])
    for w, x, y in zip(wc, a, b):
        fam.count({"py": w["py"], "init": w["initial_states"]})
        if (isinstance(x, dict) and "error" in x) or (isinstance(y, dict) and "error" in y):
            if ("error" in x) != ("error" in y):
                fam.violations.append({"tag": "C06", "case": w, "impl": [x, y], "what": "one of the two routes raised"})
            continue
        if cmp_tree(x, y, fam, 0) != "exact":
            fam.violations.append({"tag": "C06", "case": w, "impl": [x, y],
                                   "what": "target 'solve_and_simulate' and solve-then-simulate return different frames"})
        else:
            fam.exact += 1
    return fam


FEATS = [{"period_filter", "all_discrete_states"}, {"filter"}, set(), {"constraint", "all_discrete_states"}, {"period_filter", "constraint"}, {"stochastic"},
         {"mixed_discrete_choices", "filter"}, {"period_filter", "all_discrete_states", "two_filters"}, {"int_utility"}]
run = _sim.make("C06", 6, 24, ("C06", "C05"), extra_fams=[fam_targets], features=FEATS, on_grid_prob=0.75)
matches_signature, replay_known, replay = _sim.matches_signature, _sim.replay_known, _sim.replay

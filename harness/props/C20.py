"""C20 — extreme-value aggregation is an exact, stable log-sum-exp.
The model (Gen/SegLSE.v) is over R and not executable: it is tied to the source by the
translator; the runs compare lcm against a 60-digit decimal evaluation of the theorem's
right-hand side scale*ln(sum exp(v/scale)) and of the derived laws."""
import itertools
import json
import random
from decimal import Decimal, getcontext
from fractions import Fraction

from core import Family, q, unq, run_impl

GEN_FILES = ["SegLSE.v"]
TRUSTED = [
    "translator/py2coq.py (regenerates Gen/SegLSE.v from discrete_problem._segment_logsumexp, _segment_extreme_value_emax_over_first_axis, _calculate_emax_extreme_value_shocks)",
    "Base/RBase.v: meaning of jax.ops.segment_max/segment_sum, a[ids], jnp.exp/log on arrays over R",
    "jax.scipy.special.logsumexp modelled as its mathematical definition ln(sum exp) (external; its numerical stability is trusted and tested here)",
    "Coq Reals axioms (listed under axioms)",
]
ASSUMPTIONS = [
    "scale > 0, every segment non-empty, segment ids sorted and < num_segments",
    "'finite for finite inputs' is proved as: every exp argument in the segment code is <= 0 and the summed value is in [1,n]; float overflow itself is checked only by the runs (magnitudes up to 1e6, scales 1e-3..1e3, float32 and float64)",
]

getcontext().prec = 60


def D(fr):
    return Decimal(fr.numerator) / Decimal(fr.denominator)


def lse_ref(vals, scale):
    m = max(vals)
    s = sum(((v - m) / scale).exp() for v in vals)
    return m + scale * s.ln()


def gen_case(rng, big):
    layout = rng.choice(["segments", "axes", "both"])
    mag = rng.choice([1, 10, 1000, 10 ** 6])
    scale = Fraction(rng.choice([1, 1, 2, 5, 10, 1000]), rng.choice([1, 1, 2, 10, 1000]))
    dtype = rng.choice(["f64", "f64", "f32"])
    if layout == "segments":
        nseg = rng.randint(1, 4)
        sizes = [rng.randint(1, 4) for _ in range(nseg)]
        ids = [s for s, k in enumerate(sizes) for _ in range(k)]
        trail = rng.choice([[], [rng.randint(1, 3)]])
        shape = [len(ids)] + trail
        axes, seg, num = None, ids, nseg
    elif layout == "axes":
        rank = rng.randint(1, 3)
        shape = [rng.randint(1, 4) for _ in range(rank)]
        k = rng.randint(1, rank)
        axes = sorted(rng.sample(range(rank), k))
        seg, num = None, None
    else:
        nseg = rng.randint(1, 3)
        sizes = [rng.randint(1, 3) for _ in range(nseg)]
        ids = [s for s, k in enumerate(sizes) for _ in range(k)]
        shape = [len(ids), rng.randint(1, 3), rng.randint(1, 3)]
        axes = sorted(rng.sample([1, 2], rng.randint(1, 2)))
        seg, num = ids, nseg
    size = 1
    for s in shape:
        size *= s
    data = [Fraction(rng.randint(-mag * 8, mag * 8), 8) for _ in range(size)]
    if rng.random() < 0.2:       # ties and near-constant arrays
        data = [data[0]] * size
    return {"fn": "emax", "values": {"shape": shape, "data": [q(x) for x in data]}, "scale": q(scale),
            "axes": axes, "segment_ids": seg, "num_segments": num, "dtype": dtype,
            "shift": q(Fraction(rng.randint(-mag * 4, mag * 4), 4))}


def choices_of(c):
    """-> dict out_index(tuple) -> list of Decimal values of all discrete choices of that state"""
    shape = c["values"]["shape"]
    data = [D(unq(x)) for x in c["values"]["data"]]
    idxs = list(itertools.product(*[range(s) for s in shape]))
    val = dict(zip(idxs, data))
    axes = c["axes"] or []
    groups = {}
    for idx in idxs:
        keep = tuple(i for a, i in enumerate(idx) if a not in axes)
        if c["segment_ids"] is not None:
            keep = (c["segment_ids"][keep[0]],) + keep[1:]
        groups.setdefault(keep, []).append(val[idx])
    return groups


def fam_emax(rng, n, big):
    fam = Family("emax_vs_decimal",
                 "arrays of rank 1-3 with dyadic values of magnitude 1..1e6 (20% constant arrays), scales "
                 "1e-3..1e3, float32/float64, layouts: sorted segments of the leading axis, dense choice "
                 "axes, both; oracle = 60-digit decimal scale*ln(sum exp(v/scale)) per state, bounds "
                 "max <= r <= max + scale ln n, shift law; non-trivial = some state has >= 2 choices")
    cases = [gen_case(rng, big) for _ in range(n)]
    ires = run_impl(cases)
    for c, i in zip(cases, ires):
        groups = choices_of(c)
        fam.count(c, any(len(v) > 1 for v in groups.values()))
        fam.bump(("seg" if c["segment_ids"] is not None else "") + ("axes" if c["axes"] else ""))
        fam.bump(c["dtype"])
        if "error" in i:
            fam.violations.append({"case": c, "impl": i, "what": "emax aggregation raised"})
            continue
        scale = D(unq(c["scale"]))
        shift = D(unq(c["shift"]))
        tol = Decimal("2e-4") if c["dtype"] == "f32" else Decimal("1e-9")
        out_shape = i["emax"]["shape"]
        out_idx = list(itertools.product(*[range(s) for s in out_shape]))
        bad = None
        if len(out_idx) != len(groups):
            bad = f"result shape {out_shape} does not enumerate the {len(groups)} states"
        for k, idx in enumerate(out_idx):
            if bad:
                break
            r = unq(i["emax"]["data"][k])
            vals = groups.get(idx)
            if vals is None:
                bad = f"no state for result index {idx}"
                break
            if isinstance(r, str) or r is None:
                bad = f"non-finite result {r} at {idx}"
                break
            r = D(r)
            ref = lse_ref(vals, scale)
            mx = max(vals)
            slack = tol * max(1, abs(ref), abs(mx))
            if abs(r - ref) > slack:
                bad = f"result {r} differs from scale*ln(sum exp(v/scale)) = {ref} at {idx}"
            elif r < mx - slack or r > mx + scale * Decimal(len(vals)).ln() + slack:
                bad = f"result {r} outside [max, max + scale ln n] at {idx}"
            else:
                r2 = unq(i["shifted"]["data"][k])
                if isinstance(r2, str) or abs(D(r2) - (ref + shift)) > tol * max(1, abs(ref + shift), abs(mx)) * 4:
                    bad = f"shift law fails at {idx}: {r2} vs {ref + shift}"
        if bad:
            fam.violations.append({"case": c, "impl": i, "what": bad})
        else:
            fam.tolerant += 1
    return fam


def fam_layout(rng, n):
    """the same alternatives laid out along an axis or as segments give the same result"""
    fam = Family("axes_vs_segments",
                 "a (states x choices) table evaluated once with the choices as a dense axis and once "
                 "flattened into sorted segments of equal size; results must agree; all non-trivial")
    cases, pairs = [], []
    for _ in range(n):
        ns, nc = rng.randint(1, 4), rng.randint(1, 4)
        mag = rng.choice([1, 100, 10 ** 5])
        scale = Fraction(rng.choice([1, 3, 50]), rng.choice([1, 4, 100]))
        tab = [[Fraction(rng.randint(-mag * 8, mag * 8), 8) for _ in range(nc)] for _ in range(ns)]
        a = {"fn": "emax", "values": {"shape": [ns, nc], "data": [q(x) for r in tab for x in r]},
             "scale": q(scale), "axes": [1], "segment_ids": None, "num_segments": None, "dtype": "f64"}
        b = {"fn": "emax", "values": {"shape": [ns * nc], "data": [q(x) for r in tab for x in r]},
             "scale": q(scale), "axes": None, "segment_ids": [s for s in range(ns) for _ in range(nc)],
             "num_segments": ns, "dtype": "f64"}
        cases += [a, b]
    ires = run_impl(cases)
    for k in range(0, len(cases), 2):
        a, b, ia, ib = cases[k], cases[k + 1], ires[k], ires[k + 1]
        fam.count(a)
        if "error" in ia or "error" in ib:
            fam.violations.append({"case": a, "case_segments": b, "impl": [ia, ib], "what": "emax raised"})
            continue
        xa = [unq(x) for x in ia["emax"]["data"]]
        xb = [unq(x) for x in ib["emax"]["data"]]
        if len(xa) != len(xb) or any(isinstance(u, str) or isinstance(v, str) or
                                     abs(u - v) > 1e-9 * max(1, abs(u)) for u, v in zip(xa, xb)):
            fam.violations.append({"case": a, "case_segments": b, "impl": [ia, ib],
                                   "what": "dense-axis and segment layouts of the same choices disagree"})
        else:
            fam.tolerant += 1
    return fam


def fam_limit(rng, n):
    fam = Family("small_scale_limit",
                 "scale -> 0: |result - max| < scale*ln(n+1) for scales 1e-1..1e-6; all non-trivial")
    cases = []
    for _ in range(n):
        nseg = rng.randint(1, 3)
        sizes = [rng.randint(1, 5) for _ in range(nseg)]
        ids = [s for s, k in enumerate(sizes) for _ in range(k)]
        data = [Fraction(rng.randint(-4000, 4000), 8) for _ in ids]
        scale = Fraction(1, 10 ** rng.randint(1, 6))
        cases.append({"fn": "emax", "values": {"shape": [len(ids)], "data": [q(x) for x in data]},
                      "scale": q(scale), "axes": None, "segment_ids": ids, "num_segments": nseg, "dtype": "f64"})
    ires = run_impl(cases)
    for c, i in zip(cases, ires):
        fam.count(c)
        if "error" in i:
            fam.violations.append({"case": c, "impl": i, "what": "emax raised"})
            continue
        groups = choices_of(c)
        scale = D(unq(c["scale"]))
        bad = None
        for idx, vals in groups.items():
            r = unq(i["emax"]["data"][idx[0]])
            if isinstance(r, str):
                bad = f"non-finite result at segment {idx}"
                break
            eps = scale * Decimal(len(vals) + 1).ln() + Decimal("1e-9") * max(1, abs(max(vals)))
            if abs(D(r) - max(vals)) >= eps:
                bad = f"|result - max| = {abs(D(r) - max(vals))} >= scale ln(n+1) at segment {idx}"
                break
        if bad:
            fam.violations.append({"case": c, "impl": i, "what": bad})
        else:
            fam.tolerant += 1
    return fam


def run(tier, seed):
    rng = random.Random(seed * 7919 + 20)
    k = 1 if tier == "quick" else 15
    return [fam_emax(rng, 240 * k, tier != "quick"), fam_layout(rng, 60 * k), fam_limit(rng, 60 * k)]


def matches_signature(entry, item):
    return False


def replay_known(entry):
    return False


def replay(payload):
    v = payload.get("violation") or (payload.get("correspondence_disagreements") or [{}])[0]
    case = v.get("case")
    if not case:
        print("nothing to replay in this file (proof-only breakage):", payload.get("no_longer_checks"))
        return 1
    print("case:", json.dumps(case))
    print("impl :", run_impl([case])[0])
    groups = choices_of(case)
    print("decimal reference:", {k: str(lse_ref(v, D(unq(case["scale"])))) for k, v in groups.items()})
    return 0

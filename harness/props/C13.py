"""C13 — the simulation result is a complete, correctly indexed panel."""
import e2e
from props import _sim

GEN_FILES = ["Simulate.v", "PanelGen.v", "ComputeTargets.v"]
TRUSTED = e2e.TRUSTED + ["pandas.DataFrame(dict, index) and MultiIndex.from_product (third party)",
                         "Model/Panel.v (concatenate + repeat(arange)) is a hand model of _process_simulated_data/_as_data_frame, tied by the runs"]
ASSUMPTIONS = e2e.ASSUMPTIONS
def _pairs(rng, tier):
    return e2e.fam_same_names(rng, 4 if tier == "quick" else 40, judge=("C13",))


# the first three models have a utility written as a reduction over a stacked array (valid on scalars, not element-wise on
# columns) and report it as an additional target: a target evaluated on whole columns instead of row by row shows
FEATS = [f | {"asum_utility"} if k < 3 else f for k, f in enumerate(e2e.FEATURES)]
run = _sim.make("C13", 13, 20, ("C13",), extra_fams=[_pairs], features=FEATS)
matches_signature, replay_known, replay = _sim.matches_signature, _sim.replay_known, _sim.replay

"""C19 — dispatchers equal nested loops over named arguments; keyword/positional wrappers."""
import itertools
import json
import random
from fractions import Fraction

from core import Family, q, unq, run_model, run_impl, cmp_tree

GEN_FILES = ["DispatchersGen.v", "FunctoolsGen.v"]
TRUSTED = [
    "Model/Dispatchers.v (vmap as 'stack f over the leading axis of the marked arguments'; _base_productmap as the fold of single vmaps over the reversed positions; vmap_1d; spacemap) is hand-written: tied by families productmap / vmap_1d / spacemap",
    "Model/Functools.v (Python argument binding without defaults; allow_only_kwargs, allow_args, convert_kwargs_to_args) is hand-written: tied by family wrappers",
    "L0 meaning of jax.vmap for in_axes in {None, 0}; pytree outputs are mapped leaf-wise (checked by the runs against nested loops, not in the theorems)",
    "extraction ExtrOcamlBasic + ExtrOcamlNativeString, ocaml/driver.ml",
]
ASSUMPTIONS = [
    "mapped names are distinct parameters of the function; jointly mapped arguments have equal leading length",
    "the mapped function returns one array whose shape does not depend on which slices it receives (theorems); pytrees only in the runs",
    "keyword dictionaries have distinct keys (Python guarantees it)",
]

PRIMES = [2, 3, 5, 7, 11, 13, 17, 19, 23]
NAMES = ["a", "b", "c", "d", "e", "zeta", "alpha", "m", "k"]


def gen_sig(rng, n=None):
    n = n or rng.randint(1, 5)
    names = rng.sample(NAMES, n)
    npo = rng.choice([0, 0, 1, 2]) if n > 1 else rng.choice([0, 1])
    nko = rng.choice([0, 0, 1, 2])
    npo = min(npo, n)
    nko = min(nko, n - npo)
    kinds = ["po"] * npo + ["pk"] * (n - npo - nko) + ["ko"] * nko
    return [[nm, k] for nm, k in zip(names, kinds)]


def poly(coeffs, xs):
    out = Fraction(coeffs[0])
    prod = Fraction(1)
    for c, x in zip(coeffs[1:], xs):
        out += c * x
        prod *= x
    return out + coeffs[-1] * prod


def gen_dispatch(rng, which):
    sig = gen_sig(rng)
    names = [n for n, _ in sig]
    k = len(names)
    coeffs = [Fraction(p) for p in rng.sample(PRIMES, k + 1)] + [Fraction(rng.choice([29, 31, 37]), 1)]
    lens = {}
    c = {"fn": "dispatch", "which": which, "sig": sig, "params": names, "coeffs": [q(x) for x in coeffs],
         "jit": rng.random() < 0.3}
    order = names[:]
    rng.shuffle(order)
    if which == "productmap":
        m = rng.randint(1, k)
        variables = order[:m]
        sparse = []
    elif which == "vmap_1d":
        m = rng.randint(1, k)
        variables = order[:m]
        sparse = []
    else:
        m = rng.randint(0, k)
        variables = order[:m]
        rest = order[m:]
        ns = rng.randint(0 if m > 0 else 1, len(rest)) if rest else 0
        sparse = rest[:ns]
        c["sparse"] = sparse
        c["put_dense_first"] = rng.random() < 0.5
        if m == 0 and ns == 0:
            variables = order[:1]
    c["variables"] = variables
    if rng.random() < 0.05 and variables:
        c["variables"] = variables + [variables[0]]            # duplicate -> ValueError
    joint_len = rng.randint(1, 4)
    kwargs = []
    sizes = rng.sample([1, 2, 3, 4, 5], 5)
    for j, nm in enumerate(names):
        if (which == "vmap_1d" and nm in variables) or nm in sparse:
            n_ = joint_len
        elif nm in variables:
            n_ = sizes[j % 5]
        else:
            n_ = None
        if n_ is None:
            arr = {"shape": [], "data": [q(Fraction(rng.randint(-6, 6), 2))]}
        else:
            arr = {"shape": [n_], "data": [q(Fraction(rng.randint(-6, 6), 2)) for _ in range(n_)]}
        kwargs.append([nm, arr])
    rng.shuffle(kwargs)
    c["kwargs"] = kwargs
    return c


def oracle_dispatch(c):
    """nested loops over named arguments -> (shape, data) or 'ValueError'"""
    names = c["params"]
    kw = {k: v for k, v in c["kwargs"]}
    coeffs = [unq(x) for x in c["coeffs"]]
    variables = c["variables"]
    sparse = c.get("sparse", [])
    if len(set(variables)) != len(variables) or len(set(sparse)) != len(sparse) or set(variables) & set(sparse):
        return "ValueError"
    if c["which"] == "productmap" or (c["which"] == "spacemap"):
        dense = variables
    else:
        dense, sparse = [], variables
    dense_dims = [kw[v]["shape"][0] for v in dense]
    axes = [("dense", v) for v in dense]
    if sparse:
        n = kw[sparse[0]]["shape"][0]
        joint = ("sparse", n)
        if c["which"] == "spacemap" and c["put_dense_first"]:
            axes = axes + [joint]
        else:
            axes = [joint] + axes
    shape = [kw[a[1]]["shape"][0] if a[0] == "dense" else a[1] for a in axes]
    data = []
    for idx in itertools.product(*[range(s) for s in shape]):
        env = {}
        for nm in names:
            env[nm] = unq(kw[nm]["data"][0]) if kw[nm]["shape"] == [] else None
        for a, i in zip(axes, idx):
            if a[0] == "dense":
                env[a[1]] = unq(kw[a[1]]["data"][i])
            else:
                for v in sparse:
                    env[v] = unq(kw[v]["data"][i])
        data.append(q(poly(coeffs, [env[nm] for nm in names])))
    return {"shape": shape, "data": data}


def fam_dispatch(rng, n):
    fam = Family("dispatchers",
                 "functions c0 + sum c_j x_j + cp prod x_j with distinct prime coefficients (any mis-binding "
                 "changes the value) of 1-5 parameters of all three kinds; productmap / vmap_1d / spacemap "
                 "(both put_dense_first) over random subsets and orders of the names, unequal axis lengths, "
                 "kwargs in random order, 30% jitted, 5% duplicate names (ValueError); oracle = nested Python "
                 "loops over named arguments; non-trivial = at least two mapped names or a joint axis with "
                 "an unmapped parameter")
    cases = []
    for k in range(n):
        cases.append(gen_dispatch(rng, ["productmap", "vmap_1d", "spacemap"][k % 3]))
    mres, ires = run_model(cases), run_impl(cases)
    for c, m, i in zip(cases, mres, ires):
        nontriv = len(c["variables"]) + len(c.get("sparse", [])) >= 2
        fam.count(c, nontriv)
        fam.bump(c["which"] + ("/dense_first" if c.get("put_dense_first") else ""))
        exp = oracle_dispatch(c)
        if exp == "ValueError":
            exp = {"err": "ValueError"}
        if cmp_tree(i, exp, fam) != "exact":
            fam.violations.append({"case": c, "impl": i, "expected": exp,
                                   "what": "mapped function differs from nested loops over the named arguments (entry, axis order or shape)"})
        elif cmp_tree(m, i, fam) != "exact":
            fam.disagreements.append({"case": c, "model": m, "impl": i})
        else:
            fam.exact += 1
    return fam


def fam_pytree(rng, n):
    fam = Family("dispatchers_pytree",
                 "same generators with a pytree output {'u': f, 'v': (g, stack[f, g, f-g])}: scalar leaves and "
                 "a leaf with its own leading axis of length 3; oracle = nested loops; all non-trivial")
    cases = []
    for k in range(n):
        c = gen_dispatch(rng, ["productmap", "vmap_1d", "spacemap", "spacemap"][k % 4])
        c["variables"] = list(dict.fromkeys(c["variables"]))
        c["fn"] = "dispatch_pytree"
        kk = len(c["params"])
        c["coeffs2"] = [q(Fraction(p)) for p in rng.sample(PRIMES, kk + 1)] + [q(Fraction(41))]
        c["jit"] = False
        cases.append(c)
    ires = run_impl(cases)
    for c, i in zip(cases, ires):
        fam.count(c)
        if "error" in i:
            fam.violations.append({"case": c, "impl": i, "what": "dispatcher with pytree output raised"})
            continue
        e1 = oracle_dispatch(c)
        e2 = oracle_dispatch({**c, "coeffs": c["coeffs2"]})
        sh = e1["shape"]
        bad = None
        if cmp_tree(i["u"], e1, fam) != "exact":
            bad = "leaf u"
        elif cmp_tree(i["v0"], e2, fam) != "exact":
            bad = "leaf v[0]"
        else:
            # v1 has shape sh + [3] (the function's own axis is last)
            exp = []
            for a, b in zip(e1["data"], e2["data"]):
                a_, b_ = unq(a), unq(b)
                exp += [q(a_), q(b_), q(a_ - b_)]
            if cmp_tree(i["v1"], {"shape": sh + [3], "data": exp}, fam) != "exact":
                bad = "leaf v[1] (array-valued leaf)"
        if bad:
            fam.violations.append({"case": c, "impl": i, "what": f"pytree output: {bad} differs from nested loops (mapped axes must precede the function's own axes)"})
        else:
            fam.exact += 1
    return fam


def gen_wrapper(rng):
    sig = gen_sig(rng)
    names = [n for n, _ in sig]
    w = rng.choice(["allow_only_kwargs", "allow_args", "allow_args"])
    vals = {n: rng.randint(1, 99) for n in names}
    r = rng.random()
    if w == "allow_only_kwargs":
        args, kwn = [], names[:]
    else:
        npos = rng.randint(0, len(names))
        args, kwn = [vals[n] for n in names[:npos]], names[npos:]
    rng.shuffle(kwn)
    kwargs = [[n, vals[n]] for n in kwn]
    mal = None
    if r > 0.55:
        mal = rng.choice(["missing", "extra", "swap", "dup_pos", "extra_pos", "both"])
        if mal == "missing" and kwargs:
            kwargs.pop(rng.randrange(len(kwargs)))
        elif mal == "extra":
            kwargs.append([rng.choice(["bogus", "x9", "aa"]), 7])
        elif mal == "swap" and kwargs:           # one missing, one unexpected: same count
            kwargs[rng.randrange(len(kwargs))][0] = rng.choice(["bogus", "x9"])
        elif mal == "dup_pos" and args and kwargs:   # keyword names a positionally filled parameter
            kwargs[rng.randrange(len(kwargs))][0] = names[rng.randrange(len(args))]
            if len({k for k, _ in kwargs}) != len(kwargs):
                kwargs = [list(x) for x in {k: v for k, v in kwargs}.items()]
        elif mal == "extra_pos":
            args = args + [5]
        elif mal == "both" and kwargs:
            kwargs.pop()
            args = args + [5]
        else:
            mal = None
    return {"fn": "wrapper", "sig": sig, "wrapper": w, "args": args, "kwargs": kwargs, "malformed": mal}


def oracle_wrapper(c):
    """by-name binding: -> {'ok': ...} if every parameter is given exactly once, else 'reject'"""
    names = [n for n, _ in c["sig"]]
    given = {}
    if c["wrapper"] == "allow_only_kwargs" and c["args"]:
        return "reject"
    if len(c["args"]) > len(names):
        return "reject"
    for n, v in zip(names, c["args"]):
        given[n] = v
    for k, v in c["kwargs"]:
        if k in given or k not in names:
            return "reject"
        given[k] = v
    if set(given) != set(names):
        return "reject"
    return {"ok": [[n, given[n]] for n in names]}


def fam_wrappers(rng, n):
    fam = Family("wrappers",
                 "signatures of 1-5 parameters with positional-only / positional-or-keyword / keyword-only "
                 "kinds; allow_only_kwargs and allow_args called with every split and random keyword orders; "
                 "45% malformed: missing, unexpected, one-missing-one-unexpected, keyword naming a "
                 "positionally filled parameter, extra positional; oracle = bind every value to the parameter "
                 "of the same name, reject otherwise; non-trivial = >= 2 parameters")
    cases = [gen_wrapper(rng) for _ in range(n)]
    mres, ires = run_model(cases), run_impl(cases)
    for c, m, i in zip(cases, mres, ires):
        fam.count(c, len(c["sig"]) >= 2)
        fam.bump(c["wrapper"])
        fam.bump("malformed:" + str(c["malformed"]))
        exp = oracle_wrapper(c)
        ok = (("err" in i) if exp == "reject" else i == exp)
        if not ok:
            fam.violations.append({"case": c, "impl": i, "expected": exp,
                                   "what": "wrapper did not bind by name / did not reject a call with missing or unexpected arguments"})
        elif m != i:
            fam.disagreements.append({"case": c, "model": m, "impl": i})
        else:
            fam.exact += 1
    return fam


def run(tier, seed):
    rng = random.Random(seed * 7919 + 19)
    k = 1 if tier == "quick" else 15
    return [fam_dispatch(rng, 150 * k), fam_pytree(rng, 36 * k), fam_wrappers(rng, 600 * k)]


def _dup_pos(item):
    c = item.get("case") or {}
    if c.get("fn") != "wrapper" or c.get("wrapper") != "allow_args":
        return False
    names = [n for n, _ in c["sig"]]
    filled = set(names[:len(c["args"])])
    return any(k in filled for k, _ in c["kwargs"])


def matches_signature(entry, item):
    if entry.get("signature") == "allow_args_keyword_names_positional":
        return _dup_pos(item)
    return False


def replay_known(entry):
    case = entry["replay"]
    i = run_impl([case])[0]
    if case["fn"] == "wrapper":
        exp = oracle_wrapper(case)
        return not (("err" in i) if exp == "reject" else i == exp)
    exp = oracle_dispatch(case)
    return cmp_tree(i, exp, Family("x", "")) != "exact"


def replay(payload):
    v = payload.get("violation") or (payload.get("correspondence_disagreements") or [{}])[0]
    case = v.get("case")
    if not case:
        print("nothing to replay in this file (proof-only breakage):", payload.get("no_longer_checks"))
        return 1
    print("case:", json.dumps(case))
    print("impl :", run_impl([case])[0])
    if case["fn"] != "dispatch_pytree":
        print("model:", run_model([case])[0])
    return 0

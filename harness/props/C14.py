"""C14 — pre-computed values on a grid are represented as a faithful function."""
import itertools
import json
import math
import random
from fractions import Fraction
from math import floor

from core import Family, q, unq, close, run_model, run_impl

GEN_FILES = ["GridHelpersQ.v", "NdimageKernel.v"]
TRUSTED = [
    "Model/FunctionRepresentation.v (label translator, indexer lookup with JAX wrap/clamp indexing, partial indexing, coordinate finder, interpolator) is hand-written: tied by family function_representation",
    "translator/py2coq.py for the coordinate and interpolation kernels (Gen/GridHelpersQ.v, Gen/NdimageKernel.v)",
    "dags.concatenate_functions composes the five closures by name (third party)",
    "log grids: the R-valued coordinate is not executable; lcm is compared with a float oracle (inside the range)",
]
ASSUMPTIONS = ["labels are labels of the grid; the indexer entry of the addressed restricted state is not the fill value",
               "continuous axes have >= 2 points; exact arithmetic (runs: exact on dyadics, else 1e-9)"]
NAMES = ["health", "wealth", "zeta", "age", "kids", "b", "a"]


def gen_case(rng, log=False):
    nr, nd, nc = rng.randint(0, 2), rng.randint(0, 2), rng.randint(0 if not log else 1, 3)
    if nr + nd + nc == 0:
        nc = 1
    names = rng.sample(NAMES, nr + nd + nc)
    rnames, dnames, cnames = names[:nr], names[nr:nr + nd], names[nr + nd:]
    rshape = [rng.randint(1, 3) for _ in range(nr)]
    indexer = None
    lead = []
    if nr:
        size = 1
        for s in rshape:
            size *= s
        feas = [rng.random() < 0.7 for _ in range(size)]
        if not any(feas):
            feas[0] = True
        data, k = [], 0
        for fl in feas:
            data.append(k if fl else -1)
            k += fl
        indexer = {"shape": rshape, "data": data}
        lead = [k]
    dshape = [rng.randint(1, 3) for _ in range(nd)]
    conts = []
    cshape = []
    used = set()
    for _ in range(nc):
        n = rng.choice([x for x in (2, 3, 4, 5) if x not in used] or [2])
        used.add(n)
        if log:
            a = Fraction(rng.randint(1, 8), 2)
            b = a * rng.randint(2, 20)
        else:
            a = Fraction(rng.randint(-8, 8), 2)
            b = a + Fraction(rng.choice([1, 2, 4, 8, 3]), rng.choice([1, 2])) * (n - 1)
        conts.append([a, b, n])
        cshape.append(n)
    shape = lead + dshape + cshape
    size = 1
    for s in shape:
        size *= s
    vf = [Fraction(rng.randint(-40, 40), 4) for _ in range(size)]
    # evaluation point
    if nr:
        ok = [ix for ix, v in zip(itertools.product(*[range(s) for s in rshape]), indexer["data"]) if v >= 0]
        rl = list(rng.choice(ok))
    else:
        rl = []
    dl = [rng.randrange(s) for s in dshape]
    pts = []
    for a, b, n in conts:
        mode = rng.choice(["node", "in", "in", "out"]) if not log else rng.choice(["node", "in", "in"])
        if mode == "node":
            if log:
                v = Fraction(float(math.exp(math.log(a) + (math.log(b) - math.log(a)) * rng.randrange(n) / (n - 1))))
                v = min(max(v, a), b)
            else:
                v = a + (b - a) * Fraction(rng.randrange(n), n - 1)
        elif mode == "in":
            v = a + (b - a) * Fraction(rng.randint(1, 63), 64)
        else:
            v = rng.choice([a - Fraction(rng.randint(1, 12), 4), b + Fraction(rng.randint(1, 12), 4)])
        pts.append(v)
    c = {"fn": "funrep", "vf_arr": {"shape": shape, "data": [q(x) for x in vf]}, "indexer": indexer,
         "restricted_names": rnames, "dense_names": dnames, "cont_names": cnames,
         "restricted_labels": rl, "dense_labels": dl,
         "conts": [[q(a), q(b), n, q(v)] for (a, b, n), v in zip(conts, pts)], "jit": rng.random() < 0.3}
    if log:
        c["log"] = True
    if len(cnames) >= 2 and rng.random() < 0.5:
        order = cnames[:]
        rng.shuffle(order)
        c["interp_order"] = order       # dict order of interpolation_info differs from the axis order
    return c


def oracle(c, use_float=False):
    shape = c["vf_arr"]["shape"]
    vf = [unq(x) for x in c["vf_arr"]["data"]]

    def get(idx):
        k = 0
        for s, i in zip(shape, idx):
            k = k * s + i
        return vf[k]
    pos = []
    if c["indexer"] is not None:
        k = 0
        for s, i in zip(c["indexer"]["shape"], c["restricted_labels"]):
            k = k * s + i
        pos.append(c["indexer"]["data"][k])
    pos += c["dense_labels"]
    coords = []
    for a, b, n, v in c["conts"]:
        a, b, v = unq(a), unq(b), unq(v)
        if c.get("log"):
            la, lb, lv = math.log(a), math.log(b), math.log(v)
            step = (lb - la) / (n - 1)
            k = min(max(floor((lv - la) / step + 1e-12), 0), n - 2)
            lo, hi = math.exp(la + step * k), math.exp(la + step * (k + 1))
            coords.append(Fraction(k) + Fraction((float(v) - lo) / (hi - lo)))
        else:
            coords.append((v - a) * (n - 1) / (b - a))
    cshape = shape[len(pos):]

    def rec(axis, prefix):
        if axis == len(cshape):
            return get(pos + prefix)
        cc, n = coords[axis], cshape[axis]
        lo = min(max(floor(cc), 0), n - 2)
        w = cc - lo
        return (1 - w) * rec(axis + 1, prefix + [lo]) + w * rec(axis + 1, prefix + [lo + 1])
    return rec(0, [])


def fam_funrep(rng, n):
    fam = Family("function_representation",
                 "spaces with 0-2 restricted states (random feasibility indexer with -1 entries), 0-2 "
                 "unrestricted discrete states, 0-3 continuous states on linear grids of pairwise different "
                 "sizes, random dyadic arrays; evaluation at grid labels and continuous values at nodes, inside "
                 "and outside the range; interpolation_info given in a dict order different from the axis order "
                 "in half of the multi-axis cases; 30% jitted; oracle: exact lookup + multilinear blend; "
                 "non-trivial = an indexer or >= 2 continuous axes")
    cases = [gen_case(rng) for _ in range(n)]
    mres, ires = run_model(cases), run_impl(cases)
    for c, m, i in zip(cases, mres, ires):
        fam.count(c, c["indexer"] is not None or len(c["conts"]) >= 2)
        fam.bump(f"cont={len(c['conts'])}")
        if isinstance(i, dict) and "error" in i:
            fam.violations.append({"case": c, "impl": i, "what": "function representation raised"})
            continue
        exp = q(oracle(c))
        r = close(i, exp)
        if r == "diff":
            fam.violations.append({"case": c, "impl": i, "expected": exp,
                                   "what": "function value differs from the exact lookup + multilinear interpolation of the stored entries"})
        elif close(m, i) == "diff":
            fam.disagreements.append({"case": c, "model": m, "impl": i})
        elif r == "exact":
            fam.exact += 1
        else:
            fam.tolerant += 1
    return fam


def fam_log(rng, n):
    fam = Family("function_representation_log",
                 "same with 1-3 continuous states on logarithmic grids, values inside the range (impl vs float oracle, 1e-7); all non-trivial")
    cases = [gen_case(rng, log=True) for _ in range(n)]
    ires = run_impl(cases)
    for c, i in zip(cases, ires):
        fam.count(c)
        if isinstance(i, dict) and "error" in i:
            fam.violations.append({"case": c, "impl": i, "what": "function representation raised"})
            continue
        exp = oracle(c)
        if isinstance(unq(i), str) or abs(float(unq(i)) - float(exp)) > 1e-7 * max(1.0, abs(float(exp))):
            fam.violations.append({"case": c, "impl": i, "expected": float(exp),
                                   "what": "log-grid function value differs from lookup + interpolation in coordinates"})
        else:
            fam.tolerant += 1
    return fam


def fam_axes_check(rng, n):
    fam = Family("interpolation_axes_must_be_last",
                 "axis orders with a continuous axis before a discrete one must be rejected with ValueError; all non-trivial")
    cases = []
    for _ in range(n):
        c = gen_case(rng)
        while not (c["dense_names"] and c["cont_names"]):
            c = gen_case(rng)
        names = (["state_index"] if c["indexer"] is not None else []) + c["dense_names"] + c["cont_names"]
        bad = names[:]
        i, j = bad.index(c["dense_names"][-1]), bad.index(c["cont_names"][0])
        bad[i], bad[j] = bad[j], bad[i]
        c["axis_names_override"] = bad
        cases.append(c)
    ires = run_impl(cases)
    for c, i in zip(cases, ires):
        fam.count(c)
        if isinstance(i, dict) and i.get("error") == "ValueError":
            fam.exact += 1
        else:
            fam.violations.append({"case": c, "impl": i, "what": "non-trailing interpolation axes were not rejected with ValueError"})
    return fam


def run(tier, seed):
    rng = random.Random(seed * 7919 + 14)
    k = 1 if tier == "quick" else 15
    return [fam_funrep(rng, 150 * k), fam_log(rng, 40 * k), fam_axes_check(rng, 12 * k)]


def matches_signature(entry, item):
    return False


def replay_known(entry):
    return False


def replay(payload):
    v = payload.get("violation") or (payload.get("correspondence_disagreements") or [{}])[0]
    case = v.get("case")
    if not case:
        print("nothing to replay in this file (proof-only breakage):", payload.get("no_longer_checks"))
        return 1
    print(json.dumps(case))
    print("lcm  :", run_impl([case])[0])
    print("model:", run_model([case])[0])
    print("oracle:", oracle(case))
    return 0

"""C04 — stochastic draws: specified probabilities, independent, seed-reproducible (partial)."""
import json
import math
import random
from fractions import Fraction

import e2e
import gen_models as G
from core import Family, q, unq, run_model, run_impl, cmp_tree

GEN_FILES = ["Simulate.v", "RandomChoiceGen.v"]
TRUSTED = e2e.TRUSTED + [
    "Model/RandomChoice.v (jax.random.choice as inverse CDF; lcm's key handling as split-tree paths) is hand-written: tied by families choice_replay and draws_replay",
    "jax.random.split / uniform (threefry) as a source of independent uniforms: NOT modelled — frequencies and independence are only tested",
]
ASSUMPTIONS = [
    "0 <= u < 1, probabilities >= 0 with positive total",
    "the statistical clauses of C04 (frequencies match the rows, independence across agents/periods/variables) are runtime behaviour of the PRNG: supported by chi-square tests with fixed seeds and thresholds at p < 1e-9, never by a theorem",
]


def gen_row(rng, n, interior=False):
    if interior:        # every label has probability >= 1/8: draws that share a key are visibly dependent
        extra = [rng.randint(0, 8 - n) for _ in range(n - 1)]
        w = [1 + x for x in extra]
        w.append(max(1, 8 - sum(w)))
        tot = sum(w)
        return [Fraction(x, tot) for x in w]
    r = rng.random()
    if r < 0.2:
        row = [Fraction(0)] * n
        row[rng.randrange(n)] = Fraction(1)
        return row
    cuts = sorted(rng.randint(0, 16) for _ in range(n - 1))
    return [Fraction(b - a, 16) for a, b in zip([0] + cuts, cuts + [16])]


def fam_choice(rng, n):
    fam = Family("choice_replay",
                 "dyadic probability rows of 2-5 labels incl. zeros and unit vectors, 12 agents per row, random "
                 "seeds: the label lcm.random_choice draws must equal the model's inverse-CDF index at the "
                 "uniform consumed by the same key, and never have probability zero; non-trivial = row has a "
                 "zero and a non-degenerate entry")
    cases = []
    for _ in range(n):
        p = gen_row(rng, rng.randint(2, 5))
        cases.append({"fn": "choice", "p": [q(x) for x in p], "seed": rng.randint(0, 2 ** 31 - 1), "n": 12})
    ires = run_impl(cases)
    mcases, back = [], []
    for ci, (c, i) in enumerate(zip(cases, ires)):
        if "error" in i:
            continue
        for k, u in enumerate(i["uniforms"]):
            mcases.append({"fn": "choice", "p": c["p"], "u": u})
            back.append((ci, k))
    mres = run_model(mcases)
    by_case = {}
    for (ci, k), m in zip(back, mres):
        by_case.setdefault(ci, {})[k] = m
    for ci, (c, i) in enumerate(zip(cases, ires)):
        p = [unq(x) for x in c["p"]]
        fam.count(c, any(x == 0 for x in p) and sum(1 for x in p if x > 0) >= 2)
        if "error" in i:
            fam.violations.append({"case": c, "impl": i, "what": "random_choice raised"})
            continue
        bad = None
        for k, lab in enumerate(i["drawn"]):
            if not (0 <= lab < len(p)) or p[lab] == 0:
                bad = f"agent {k}: drew label {lab} which has probability zero in {c['p']}"
                break
        if bad:
            fam.violations.append({"case": c, "impl": i, "what": bad})
            continue
        model = [by_case[ci][k] for k in range(len(i["drawn"]))]
        if model != i["drawn"]:
            fam.disagreements.append({"case": c, "impl": i, "model": model,
                                      "what": "inverse-CDF model and lcm.random_choice disagree at the same uniform"})
        else:
            fam.exact += 1
    return fam


def stoch_order(mspec):
    return [f["name"][5:] for f in mspec["functions"] if f["stochastic"]]


def fam_draws(rng, n):
    fam = Family("draws_replay",
                 "random whole models with 1-2 stochastic states simulated with 2-6 agents: every stochastic "
                 "next state is re-drawn outside lcm with the key discipline of the model (split(key, n_ids+1), "
                 "carry keys[0], variable j uses keys[1+j] split per agent) from the transition row the Spec "
                 "selects; must equal lcm's panel exactly; same seed twice gives identical frames; another seed "
                 "leaves period 0 unchanged; non-trivial = >= 2 periods and a non-degenerate row")
    cases = e2e.gen_cases(rng, n, fn="simulate", allow_state_exclusion=False, features=[{"stochastic"}, {"two_stochastic"}, {"stochastic", "filter"}, {"stochastic", "constraint"}])
    wcases = []
    for c in cases:
        w = e2e.wire(c)
        w["initial_states"] = e2e.gen_initial_states(rng, c["_mspec"], rng.randint(2, 6), on_grid=True)
        w["seed"] = rng.randint(0, 10 ** 6)
        w["_n_agents"] = len(w["initial_states"][0][1])
        wcases.append(w)
    ires = run_impl([e2e.wire(w) for w in wcases])
    ires2 = run_impl([e2e.wire(w) for w in wcases])
    ires3 = run_impl([{**e2e.wire(w), "seed": w["seed"] + 1} for w in wcases])
    rcases = []
    for c, w, i in zip(cases, wcases, ires):
        rcases.append(None if (isinstance(i, dict) and "error" in i) else
                      {"fn": "rows", "model": w["model"], "params": w["params"], "rows": e2e.panel_rows(c, i)})
    sres = iter(run_model([r for r in rcases if r is not None]))
    replay_cases, meta = [], []
    for c, w, i, i2, i3, r in zip(cases, wcases, ires, ires2, ires3, rcases):
        m = c["_mspec"]
        T, na = m["n_periods"], w["_n_agents"]
        fam.count({"py": c["py"], "init": w["initial_states"], "seed": w["seed"]}, T >= 2)
        if r is None:
            fam.outside.append({"case": e2e.slim(w), "impl": i, "what": "lcm raised (C12)"})
            continue
        s = next(sres)
        if isinstance(s, dict) and "error" in s:
            fam.disagreements.append({"case": e2e.slim(w), "spec": s, "what": "runner error"})
            continue
        if cmp_tree(i, i2, fam, 0) != "exact":
            fam.violations.append({"case": e2e.slim(w), "what": "two simulations with the same seed give different frames"})
            continue
        if not (isinstance(i3, dict) and "error" in i3):
            per0 = lambda p: {k: v[:na] for k, v in p["columns"].items()}  # noqa: E731
            if cmp_tree(per0(i), per0(i3), fam, 0) != "exact":
                fam.violations.append({"case": e2e.slim(w), "what": "changing the seed changes period 0"})
                continue
        order = stoch_order(m)
        rows = []
        for t in range(T):
            per_var = []
            for s_name in order:
                per_agent = []
                for a in range(na):
                    o = s[t * na + a]
                    rw = dict((k, v) for k, v in o["rows"]).get(s_name)
                    per_agent.append(rw if isinstance(rw, list) else None)
                per_var.append(per_agent)
            rows.append(per_var)
        replay_cases.append({"fn": "replay_draws", "n_ids": len(order), "n_agents": na, "n_periods": T,
                             "seed": w["seed"], "rows": rows})
        meta.append((c, w, i, order))
    rres = run_impl(replay_cases)
    for (c, w, i, order), rc, rr in zip(meta, replay_cases, rres):
        m = c["_mspec"]
        T, na = m["n_periods"], w["_n_agents"]
        if isinstance(rr, dict) and "error" in rr:
            fam.disagreements.append({"case": e2e.slim(w), "what": "replay failed", "detail": rr})
            continue
        bad = None
        for t in range(T - 1):
            for j, s_name in enumerate(order):
                for a in range(na):
                    exp = rr[t][j][a]
                    got = unq(i["columns"][s_name][(t + 1) * na + a])
                    if exp is None:
                        continue
                    if got != exp:
                        bad = f"period {t}->{t + 1}, state {s_name}, agent {a}: lcm drew {got}, the model's key discipline and inverse CDF give {exp}"
                        break
                if bad:
                    break
            if bad:
                break
        if bad:
            fam.disagreements.append({"case": e2e.slim(w), "what": bad})
        else:
            fam.exact += 1
    return fam


def chi2_sf_bound(x, df):
    """crude upper bound check: returns True if x is implausibly large (p < 1e-9) using Wilson-Hilferty"""
    if df <= 0:
        return False
    z = ((x / df) ** (1 / 3) - (1 - 2 / (9 * df))) / math.sqrt(2 / (9 * df))
    return z > 6.1      # P(Z > 6.1) ~ 5e-10


def fam_frequencies(rng, n_models, n_agents):
    fam = Family("frequencies",
                 f"models with one stochastic state depending on a discrete state, {n_agents} agents with "
                 "uniformly spread initial states, 2 periods: conditional frequencies of the next label vs the "
                 "transition row (chi-square, alarm at p < 1e-9), zero-probability labels never observed, "
                 "draws of period 1 independent of the draws of period 0 given the dependencies; all non-trivial")
    cases = []
    for k in range(n_models):
        ns = rng.choice([2, 3])
        nd = rng.choice([2, 3])
        per = (k % 2 == 1)           # every second model: the transition also depends on the period (rows differ by period)
        rows_by_t = [[gen_row(rng, ns) for _ in range(nd * ns)] for _ in range(3 if per else 1)]
        rows = rows_by_t[0]
        py = f"""import jax.numpy as jnp
from dataclasses import make_dataclass, field
import lcm
from lcm import Model, DiscreteGrid

def D(n):
    return DiscreteGrid(make_dataclass('C', [(f'c{{i}}', int, field(default=i)) for i in range(n)]))

def utility(h, d, c):
    return h + d + 0.5 * c

@lcm.mark.stochastic
def next_h({"_period, " if per else ""}d, h):
    pass

def next_d(d):
    return d

MODEL = Model(n_periods=3, functions={{'utility': utility, 'next_h': next_h, 'next_d': next_d}},
              choices={{'c': D(2)}}, states={{'h': D({ns}), 'd': D({nd})}})
"""
        params = {"beta": 1, "fpar": [["utility", []], ["next_h", []], ["next_d", []]],
                  "shocks": [["h", {"shape": ([3] if per else []) + [nd, ns, ns],
                                    "data": [q(x) for rt in rows_by_t for r in rt for x in r]}]]}
        init_h = [a % ns for a in range(n_agents)]
        init_d = [(a // ns) % nd for a in range(n_agents)]
        cases.append({"fn": "simulate_stats", "py": py, "params": params, "seed": rng.randint(0, 10 ** 6),
                      "initial_states": [["h", init_h], ["d", init_d]], "discrete": {"h": True, "d": True},
                      "_rows": rows_by_t, "_ns": ns, "_nd": nd})
    ires = run_impl([{k: v for k, v in c.items() if not k.startswith("_")} for c in cases], nproc=min(4, len(cases)))
    for c, i in zip(cases, ires):
        fam.count({"py": c["py"], "seed": c["seed"]})
        if isinstance(i, dict) and "error" in i:
            fam.violations.append({"case": {k: v for k, v in c.items() if not k.startswith("_")}, "impl": i, "what": "simulation raised"})
            continue
        ns, nd, rows_by_t = c["_ns"], c["_nd"], c["_rows"]
        h = [int(unq(x)) for x in i["columns"]["h"]]
        d = [int(unq(x)) for x in i["columns"]["d"]]
        na = len(h) // 3
        bad = None
        for t in (0, 1):
            counts = {}
            for a in range(na):
                key = (d[t * na + a], h[t * na + a])
                counts.setdefault(key, [0] * ns)[h[(t + 1) * na + a]] += 1
            rows = rows_by_t[t] if len(rows_by_t) > 1 else rows_by_t[0]       # the row of the period the agents are IN
            for (dv, hv), cnt in counts.items():
                row = rows[dv * ns + hv]
                tot = sum(cnt)
                x2, df = 0.0, -1
                for lab in range(ns):
                    e = float(row[lab]) * tot
                    if row[lab] == 0:
                        if cnt[lab] > 0:
                            bad = f"period {t}: label {lab} with probability zero was drawn {cnt[lab]} times given (d={dv}, h={hv})"
                        continue
                    x2 += (cnt[lab] - e) ** 2 / e
                    df += 1
                if not bad and tot >= 50 and chi2_sf_bound(x2, df):
                    bad = f"period {t}: conditional frequencies {cnt} given (d={dv}, h={hv}) do not match the row {[str(x) for x in row]} (chi2={x2:.1f}, df={df})"
                if bad:
                    break
            if bad:
                break
        if not bad:
            # independence across periods: given (d, h_1), h_2 must not depend on h_0
            tab = {}
            for a in range(na):
                key = (d[na + a], h[na + a])
                tab.setdefault(key, {}).setdefault(h[a], [0] * ns)[h[2 * na + a]] += 1
            for key, by_prev in tab.items():
                tots = [sum(v) for v in by_prev.values()]
                if len(by_prev) < 2 or min(tots) < 50:
                    continue
                col = [sum(v[lab] for v in by_prev.values()) for lab in range(ns)]
                gt = sum(col)
                x2, df = 0.0, 0
                for v in by_prev.values():
                    rt = sum(v)
                    for lab in range(ns):
                        e = rt * col[lab] / gt
                        if e > 0:
                            x2 += (v[lab] - e) ** 2 / e
                df = (len(by_prev) - 1) * (sum(1 for x in col if x > 0) - 1)
                if df > 0 and chi2_sf_bound(x2, df):
                    bad = f"draw of period 1 depends on the state of period 0 given {key} (chi2={x2:.1f}, df={df})"
                    break
        if bad:
            fam.violations.append({"case": {k: v for k, v in c.items() if not k.startswith("_") and k != "initial_states"}, "what": bad})
        else:
            fam.tolerant += 1
    return fam



def fam_variable_independence(rng, n_models, n_agents):
    fam = Family("independence_across_variables",
                 f"models with TWO stochastic states whose names are health and bad_health (one a suffix of the "
                 f"other), {n_agents} agents, 2 periods: given the current pair, the next labels of the two states "
                 "must be independent (chi-square on the contingency table, alarm at p < 1e-9); all non-trivial")
    cases = []
    for k in range(n_models):
        n1, n2 = rng.choice([2, 3]), rng.choice([2, 3])
        rows1 = [gen_row(rng, n1, interior=True) for _ in range(n1)]
        rows2 = [gen_row(rng, n2, interior=True) for _ in range(n2)]
        py = f"""import jax.numpy as jnp
from dataclasses import make_dataclass, field
import lcm
from lcm import Model, DiscreteGrid

def D(n):
    return DiscreteGrid(make_dataclass('C', [(f'c{{i}}', int, field(default=i)) for i in range(n)]))

def utility(health, bad_health, c):
    return health + 2 * bad_health + 0.5 * c

@lcm.mark.stochastic
def next_health(health):
    pass

@lcm.mark.stochastic
def next_bad_health(bad_health):
    pass

MODEL = Model(n_periods=2, functions={{'utility': utility, 'next_health': next_health, 'next_bad_health': next_bad_health}},
              choices={{'c': D(2)}}, states={{'health': D({n1}), 'bad_health': D({n2})}})
"""
        params = {"beta": 1, "fpar": [["utility", []], ["next_health", []], ["next_bad_health", []]],
                  "shocks": [["health", {"shape": [n1, n1], "data": [q(x) for r in rows1 for x in r]}],
                             ["bad_health", {"shape": [n2, n2], "data": [q(x) for r in rows2 for x in r]}]]}
        init1 = [a % n1 for a in range(n_agents)]
        init2 = [(a // n1) % n2 for a in range(n_agents)]
        cases.append({"fn": "simulate_stats", "py": py, "params": params, "seed": rng.randint(0, 10 ** 6),
                      "initial_states": [["health", init1], ["bad_health", init2]],
                      "discrete": {"health": True, "bad_health": True}, "_n1": n1, "_n2": n2})
    ires = run_impl([{k: v for k, v in c.items() if not k.startswith("_")} for c in cases], nproc=min(4, len(cases)))
    for c, i in zip(cases, ires):
        fam.count({"py": c["py"], "seed": c["seed"]})
        if isinstance(i, dict) and "error" in i:
            fam.violations.append({"case": {k: v for k, v in c.items() if not k.startswith("_")}, "impl": i, "what": "simulation raised"})
            continue
        n1, n2 = c["_n1"], c["_n2"]
        h = [int(unq(x)) for x in i["columns"]["health"]]
        b = [int(unq(x)) for x in i["columns"]["bad_health"]]
        na = len(h) // 2
        bad = None
        tabs = {}
        for a in range(na):
            t = tabs.setdefault((h[a], b[a]), [[0] * n2 for _ in range(n1)])
            t[h[na + a]][b[na + a]] += 1
        for key, t in tabs.items():
            rt = [sum(r) for r in t]
            ct = [sum(t[x][y] for x in range(n1)) for y in range(n2)]
            gt = sum(rt)
            if gt < 200:
                continue
            x2 = 0.0
            for x in range(n1):
                for y in range(n2):
                    e = rt[x] * ct[y] / gt
                    if e > 0:
                        x2 += (t[x][y] - e) ** 2 / e
            df = (sum(1 for r in rt if r > 0) - 1) * (sum(1 for c_ in ct if c_ > 0) - 1)
            if df > 0 and chi2_sf_bound(x2, df):
                bad = (f"given (health, bad_health) = {key} the next labels of the two stochastic states are dependent: "
                       f"contingency table {t} (chi2={x2:.1f}, df={df})")
                break
        if bad:
            fam.violations.append({"case": {k: v for k, v in c.items() if not k.startswith("_") and k != "initial_states"}, "what": bad})
        else:
            fam.tolerant += 1
    return fam


def run(tier, seed):
    rng = random.Random(seed * 7919 + 4)
    k = 1 if tier == "quick" else 12
    return [fam_choice(rng, 60 * k), fam_draws(rng, 12 * k), fam_frequencies(rng, 2 if tier == "quick" else 8, 6000 if tier == "quick" else 24000),
            fam_variable_independence(rng, 2 if tier == "quick" else 6, 6000 if tier == "quick" else 24000)]


def matches_signature(entry, item):
    return False


def replay_known(entry):
    return False


def replay(payload):
    v = payload.get("violation") or (payload.get("correspondence_disagreements") or [{}])[0]
    print(json.dumps(v)[:3000])
    return 0

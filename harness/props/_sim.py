"""shared scaffolding of the simulation-based property modules"""
import json
import random

import e2e
from core import run_impl, run_model, Family, cmp_tree


def make(pid, salt, quick_n, judge, extra_fams=None, max_periods=3, features=None, on_grid_prob=0.3):
    def run(tier, seed):
        rng = random.Random(seed * 7919 + salt)
        k = 1 if tier == "quick" else 15
        fam, out = e2e.fam_simulate(rng, quick_n * k, judge=judge, max_periods=max_periods if tier == "quick" else 4,
                                    name=f"simulate_vs_spec[{pid}]", features=features, on_grid_prob=on_grid_prob)
        fams = [fam]
        for f in (extra_fams or []):
            fams.append(f(rng, tier))
        return fams
    return run


def matches_signature(entry, item):
    return False


def judge_case(w, tags):
    """run one simulate case against lcm and the Spec; -> list of violations with a tag in tags"""
    w = dict(w)
    i = run_impl([e2e.wire(w)])[0]
    if isinstance(i, dict) and "error" in i:
        return [("C12", "lcm raised: " + str(i.get("detail"))[:200], None)]
    mspec = {"n_periods": w["model"]["n_periods"],
             "states": [[n, _g(g)] for n, g in w["model"]["states"]],
             "choices": [[n, _g(g)] for n, g in w["model"]["choices"]],
             "functions": w["model"]["functions"]}
    rows = e2e.panel_rows({"_mspec": mspec}, i)
    s = run_model([{"fn": "rows", "model": w["model"], "params": w["params"], "rows": rows,
                    "targets": w.get("additional_targets", [])}])[0]
    if isinstance(s, dict) and "error" in s:
        return []
    w.setdefault("_n_agents", len(w["initial_states"][0][1]))
    return [v for v in e2e.judge_panel(mspec, w, i, s, Family("replay", "")) if v[0] in tags]


def _g(g):
    from core import unq
    if "d" in g:
        return {"d": g["d"]}
    a, b, n = g["lin"]
    return {"lin": [unq(a), unq(b), n]}


def replay_known(entry):
    case = entry.get("replay") or {}
    if case.get("fn") != "simulate":
        return False
    return bool(judge_case(case, (entry["property"], "C12")))


def replay(payload):
    v = payload.get("violation") or (payload.get("correspondence_disagreements") or [{}])[0]
    case = v.get("case")
    if not case:
        print("nothing to replay in this file (proof-only breakage):", payload.get("no_longer_checks"))
        return 1
    print(case.get("py", ""))
    print("params:", json.dumps(case.get("params")))
    print("initial_states:", json.dumps(case.get("initial_states")))
    print("what:", v.get("what"))
    i = run_impl([case])[0]
    print("lcm panel:", json.dumps(i)[:3000])
    return 0

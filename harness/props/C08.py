"""C08 — agents are simulated independently of each other (metamorphic on lcm itself)."""
import json
import random

import e2e
from core import Family, q, unq, close, run_impl, cmp_tree

GEN_FILES = ["ChoiceSegments.v", "IndexersGen.v"]
TRUSTED = e2e.TRUSTED + ["Model/StateSpace.v as the model of create_data_scs' agent x restricted-choice product and create_choice_segments (tied in C17)"]
ASSUMPTIONS = e2e.ASSUMPTIONS + ["every agent's restricted state keeps a filter-passing choice (otherwise lcm fails for the whole batch: C12 known finding)",
                                 "path invariance is claimed for models without stochastic transitions; for all models only period 0"]


def paths(panel, na, T, cols=None):
    """-> list over agents of the tuple of rows (all columns) over periods"""
    names = sorted(panel["columns"]) if cols is None else cols
    out = []
    for i in range(na):
        out.append([[panel["columns"][c][t * na + i] for c in names] for t in range(T)])
    return out


def same_path(a, b, tol=1e-12):
    for ra, rb in zip(a, b):
        for x, y in zip(ra, rb):
            if x is None and y is None:
                continue
            if x is None or y is None or close(x, y, tol) == "diff":
                return False
    return len(a) == len(b)


def agent_probes():
    from fractions import Fraction as F
    import gen_models as G
    X = G.X
    m3 = {"n_periods": 2, "states": [["s", {"d": 3}]], "choices": [["c", {"d": 3}]],
          "functions": [{"name": "utility", "args": ["s", "c"], "body": ["+", ["+", X.v("c"), X.v("s")], X.c(F(1, 2))], "stochastic": False},
                        {"name": "next_s", "args": ["s"], "body": X.v("s"), "stochastic": False},
                        {"name": "ok_filter", "args": ["s", "c"], "body": ["<=", X.v("c"), X.v("s")], "stochastic": False}]}
    p3 = {"beta": F(1), "fpar": {"utility": {}, "next_s": {}, "ok_filter": {}}, "shocks": {}}
    out = []
    for init in ([0, 1, 2], [2, 0, 1, 1], [0, 2]):
        c = {"fn": "simulate", "model": G.model_json(m3, q), "params": G.params_json(p3, q), "py": G.render_python(m3),
             "_mspec": m3, "_params": p3, "_force": ["probe:unequal_segments_divisible_total"]}
        out.append((c, [["s", [q(F(x)) for x in init]]]))
    return out


def fam_agents(rng, n):
    fam = Family("agents_metamorphic",
                 "random whole models (deterministic ones for whole paths, stochastic ones for period 0) simulated "
                 "with a batch B of 3-7 agents and with: a permutation of B, a subset of B, B with duplicated "
                 "agents, each single agent alone, and the keys of initial_states reordered; every agent's path "
                 "(all columns, all periods) must be identical across runs; non-trivial = >= 2 periods or a filter")
    feats = [set(), {"filter"}, {"constraint"}, {"filter", "dead_state"}, {"two_cont_choices"}, {"mixed_discrete_choices", "filter"}, {"stochastic"},
             {"period_filter"}, {"mixed_discrete_choices", "filter", "dead_state"}]
    cases = e2e.gen_cases(rng, n, fn="simulate", features=feats, allow_state_exclusion=False)
    jobs, wcs = [], []

    def add_variants(ci, base, init, variants):
        def variant(order):
            w = dict(base)
            w["initial_states"] = [[s, [vals[k] for k in order]] for s, vals in init]
            return w
        for kind, order in variants:
            w = variant(order)
            if kind == "permuted":
                w["initial_states"] = list(reversed(w["initial_states"]))      # key order of the mapping
            wcs.append(w)
            jobs.append((ci, kind, order))

    for ci, c in enumerate(cases):
        m = c["_mspec"]
        na = rng.randint(3, 7)
        init = e2e.gen_initial_states(rng, m, na, on_grid=rng.random() < 0.3)
        base = e2e.wire(c)
        base["seed"] = rng.randint(0, 999)
        perm = list(range(na))
        rng.shuffle(perm)
        subset = sorted(rng.sample(range(na), rng.randint(1, na - 1)))
        dup = list(range(na)) + [rng.randrange(na) for _ in range(2)]
        single = [rng.randrange(na)]
        add_variants(ci, base, init, [("base", list(range(na))), ("permuted", perm), ("subset", subset), ("duplicated", dup), ("single", single)])
    # fixed probes (no random draws): a restricted choice with three labels whose admissible set grows with the state, batches in
    # which the agents have DIFFERENT numbers of admissible combinations whose total is a multiple of the number of agents
    for pc, init in agent_probes():
        ci = len(cases)
        cases.append(pc)
        base = e2e.wire(pc)
        base["seed"] = 0
        na = len(init[0][1])
        add_variants(ci, base, init, [("base", list(range(na))), ("permuted", list(reversed(range(na)))), ("subset", [0, 1]),
                                      ("subset", list(range(1, na))), ("single", [0]), ("single", [na - 1])])
    ires = run_impl(wcs)
    base_paths = {}
    for (ci, kind, order), w, i in zip(jobs, wcs, ires):
        m = cases[ci]["_mspec"]
        T = m["n_periods"]
        stochastic = any(f["stochastic"] for f in m["functions"])
        if kind == "base":
            fam.count({"py": cases[ci]["py"], "init": w["initial_states"]}, T >= 2 or any(f["name"].endswith("_filter") for f in m["functions"]))
            if isinstance(i, dict) and "error" in i:
                base_paths[ci] = None
                kc = e2e.known_crash(i.get("detail"))
                (fam.outside if kc else fam.violations).append({"case": w, "impl": i, "what": "lcm raised on the base batch: " + str(i.get("detail"))[:200]})
            else:
                base_paths[ci] = paths(i, len(order), T)
            continue
        bp = base_paths.get(ci)
        if bp is None:
            continue
        fam.bump(kind)
        if isinstance(i, dict) and "error" in i:
            fam.violations.append({"case": w, "base_initial_states": wcs[0]["initial_states"], "impl": i,
                                   "what": f"the {kind} batch raised although the base batch simulates: " + str(i.get("detail"))[:200]})
            continue
        got = paths(i, len(order), T)
        horizon = 1 if stochastic else T
        bad = None
        for pos, agent in enumerate(order):
            if not same_path(got[pos][:horizon], bp[agent][:horizon]):
                bad = f"{kind}: agent {agent} (position {pos}) has path {got[pos][:horizon]} but {bp[agent][:horizon]} in the base batch"
                break
        if bad:
            fam.violations.append({"case": w, "what": bad[:900], "columns": sorted(i["columns"])})
        else:
            fam.exact += 1
    return fam


def fam_segments(rng, n):
    from core import run_model
    fam = Family("choice_segments",
                 "random masks over n_agents x n_combinations (2-7 agents, 1-6 combinations of restricted "
                 "choices, every agent keeps a passing row, unequal per-agent counts incl. totals divisible by "
                 "the number of agents): lcm.simulate.create_choice_segments vs the model's segment ids "
                 "(= the agent of every kept row); non-trivial = unequal per-agent counts")
    cases = []
    for _ in range(n):
        na, nc = rng.randint(2, 7), rng.randint(1, 6)
        rows = []
        for a in range(na):
            r = [rng.random() < 0.5 for _ in range(nc)]
            if not any(r):
                r[rng.randrange(nc)] = True
            rows.append(r)
        if rng.random() < 0.4 and na >= 2 and nc >= 3:      # unequal counts whose total is divisible by na
            rows = [[True] + [False] * (nc - 1) for _ in range(na)]
            rows[-1] = [True] * min(nc, 3) + [False] * (nc - min(nc, 3))
            extra = (na - (sum(sum(r) for r in rows) % na)) % na
            for a in range(na - 1):
                if extra == 0:
                    break
                if nc >= 2:
                    rows[a][1] = True
                    extra -= 1
        data = [x for r in rows for x in r]
        cases.append({"fn": "choice_segments", "mask": {"shape": [na * nc], "data": data}, "n_agents": na, "_rows": rows})
    ires = run_impl([{k: v for k, v in c.items() if not k.startswith("_")} for c in cases])
    mres = run_model([{"fn": "indexers_and_segments", "mask": {"shape": [c["n_agents"], len(c["_rows"][0])], "data": c["mask"]["data"]},
                       "n_sparse_states": 1} for c in cases])
    for c, m, i in zip(cases, mres, ires):
        counts = [sum(r) for r in c["_rows"]]
        fam.count({"mask": c["mask"], "n": c["n_agents"]}, len(set(counts)) > 1)
        exp = [a for a, r in enumerate(c["_rows"]) for x in r if x]
        if isinstance(i, dict) and "error" in i:
            fam.violations.append({"case": {k: v for k, v in c.items() if not k.startswith("_")}, "impl": i, "what": "create_choice_segments raised"})
        elif i["segment_ids"] != exp or i["num_segments"] != c["n_agents"]:
            fam.violations.append({"case": {k: v for k, v in c.items() if not k.startswith("_")}, "impl": i, "expected": exp,
                                   "what": "segment ids do not map every kept row to its own agent"})
        elif m.get("segment_ids") != i["segment_ids"]:
            fam.disagreements.append({"case": {k: v for k, v in c.items() if not k.startswith("_")}, "model": m, "impl": i})
        else:
            fam.exact += 1
    return fam


def run(tier, seed):
    rng = random.Random(seed * 7919 + 8)
    k = 1 if tier == "quick" else 15
    return [fam_agents(rng, 10 * k), fam_segments(rng, 120 * k)]


def matches_signature(entry, item):
    return False


def replay_known(entry):
    return False


def replay(payload):
    v = payload.get("violation") or (payload.get("correspondence_disagreements") or [{}])[0]
    case = v.get("case")
    if not case:
        print("nothing to replay in this file (proof-only breakage):", payload.get("no_longer_checks"))
        return 1
    print(case.get("py", ""))
    print("initial_states:", json.dumps(case.get("initial_states")))
    print("what:", v.get("what"))
    print("lcm:", json.dumps(run_impl([case])[0])[:2500])
    return 0

"""C18 — arg-max primitives: correspondence families + brute-force oracles."""
import itertools
import json
import random
from fractions import Fraction

from core import Family, q, unq, run_model, run_impl, cmp_tree

GEN_FILES = ["Argmax.v", "DiscreteNoShocks.v", "ChoiceAxes.v", "SolveDiscrete.v", "SimulateKernels.v"]
TRUSTED = [
    "translator/py2coq_arr.py (regenerates Gen/Argmax.v from argmax.py: argmax, _move_axes_to_back, _flatten_last_n_axes, segment_argmax) and py2coq.py (Gen/DiscreteNoShocks.v)",
    "Base/ArrOps.v: meaning of transpose, reshape, jnp.max(axis=-1, keepdims, initial, where), ==, logical_and, jnp.argmax of a boolean array, jax.ops.segment_max, arange/broadcast_to, a[ids] (validated against JAX by families argmax_unit / segment_argmax_unit)",
    "extraction ExtrOcamlBasic + ExtrOcamlNativeString, ocaml/driver.ml",
]
ASSUMPTIONS = [
    "axes are distinct, in range, non-negative and increasing (lcm.argmax does not normalise negative axes; lcm passes increasing tuples)",
    "no NaN in the data; -inf allowed",
    "'also when the array is produced inside the same JIT-compiled computation' is a statement about XLA and is covered by the runs only (modes jit / fused / fused-real), not by the theorems",
]


def idxs(shape):
    return list(itertools.product(*[range(s) for s in shape]))


def gen_vals(rng, n, style):
    if style == "ties":
        pool = [Fraction(x) for x in (0, 1, 2)]
    elif style == "near":
        base = Fraction(3)
        pool = [base, Fraction(float(3 - 1e-7)), Fraction(float(3 * (1 - 2 ** -52))), Fraction(float(3 + 1e-9)), Fraction(1)]
    else:
        pool = [Fraction(rng.randint(-40, 40), 4) for _ in range(6)]
    out = []
    for _ in range(n):
        if rng.random() < 0.08:
            out.append("-inf")
        else:
            out.append(q(rng.choice(pool)))
    return out


def gen_argmax_case(rng, mode):
    rank = rng.choice([1, 2, 2, 3, 3, 4])
    shape = [rng.randint(1, 4) for _ in range(rank)]
    k = rng.randint(1, rank)
    axes = sorted(rng.sample(range(rank), k))
    if rng.random() < 0.1:
        rng.shuffle(axes)
    size = 1
    for s in shape:
        size *= s
    style = rng.choice(["ties", "ties", "near", "rand"])
    c = {"fn": "argmax", "a": {"shape": shape, "data": gen_vals(rng, size, style)}, "axis": axes, "mode": mode}
    r = rng.random()
    if r < 0.75:
        p = rng.choice([0.0, 0.3, 0.6, 0.9, 1.0])
        mask = [rng.random() >= p for _ in range(size)]
        # make some outer slices fully masked
        c["where"] = {"shape": shape, "data": mask}
        c["initial"] = "-inf"
    elif r < 0.85:
        c["initial"] = "-inf"
    if rng.random() < 0.07:
        del c["axis"]
    return c


def oracle_argmax(c):
    """brute force: -> dict outer -> (first position | 0, max | '-inf')"""
    shape = c["a"]["shape"]
    rank = len(shape)
    axes = c.get("axis")
    if axes is None:
        axes = list(range(rank))
    front = [k for k in range(rank) if k not in axes]
    vals = dict(zip(idxs(shape), c["a"]["data"]))
    mask = dict(zip(idxs(shape), c["where"]["data"])) if "where" in c else None
    out = {}
    for outer in idxs([shape[k] for k in front]):
        best, pos = None, 0
        inner_list = idxs([shape[k] for k in axes])
        cand = []
        for flat, inner in enumerate(inner_list):
            full = [0] * rank
            for k, i in zip(front, outer):
                full[k] = i
            for k, i in zip(axes, inner):
                full[k] = i
            full = tuple(full)
            if mask is not None and not mask[full]:
                continue
            v = vals[full]
            fv = None if v == "-inf" else unq(v)
            cand.append((flat, fv))
        finite = [fv for _, fv in cand if fv is not None]
        if finite:
            mx = max(finite)
            pos = min(fl for fl, fv in cand if fv == mx)
            out[outer] = (pos, q(mx))
        elif cand:
            # only -inf entries unmasked: max is -inf; with initial=-inf the first unmasked -inf matches
            pos = min(fl for fl, fv in cand)
            out[outer] = (pos, "-inf")
        else:
            out[outer] = (0, "-inf")
    return out, [shape[k] for k in front]


def fam_argmax(rng, n):
    fam = Family("argmax_unit",
                 "arrays of rank 1-4 (dims 1-4) over tie-heavy / near-tie / random dyadic alphabets with "
                 "-inf entries, increasing axes subsets (10% permuted: outside the domain), masks with "
                 "all-false slices or no mask, modes eager / jit / fused producer; distinct = distinct case; "
                 "non-trivial = reduced block has >= 2 entries and (a tie or a masked entry exists)")
    cases = []
    for k in range(n):
        cases.append(gen_argmax_case(rng, ["eager", "jit", "fused"][k % 3]))
    mres, ires = run_model(cases), run_impl(cases)
    for c, m, i in zip(cases, mres, ires):
        shape = c["a"]["shape"]
        axes = c.get("axis") or list(range(len(shape)))
        in_domain = axes == sorted(axes)
        has_initial = "initial" in c
        block = 1
        for k in axes:
            block *= shape[k]
        data = c["a"]["data"]
        nontrivial = block >= 2 and ("where" in c or len(set(map(json.dumps, data))) < len(data))
        fam.count(c, nontrivial)
        fam.bump(c["mode"])
        fam.bump("masked" if "where" in c else "unmasked")
        if "error" in i:
            (fam.violations if in_domain else fam.outside).append({"case": c, "impl": i, "what": "argmax raised"})
            continue
        oracle, front_shape = oracle_argmax(c)
        exp_pos = [oracle[o][0] for o in idxs(front_shape)]
        exp_max = [oracle[o][1] for o in idxs(front_shape)]
        # without `initial`, an unmasked reduction over -inf only still has max -inf at first position
        ok = (i["argmax"]["data"] == exp_pos and cmp_tree(i["max"]["data"], exp_max, fam) == "exact"
              and i["argmax"]["shape"] == front_shape)
        if not ok and in_domain:
            fam.violations.append({"case": c, "impl": i, "expected": {"argmax": exp_pos, "max": exp_max},
                                   "what": "masked arg-max: position/max differ from the first unmasked maximiser (0 if all masked)"})
            continue
        r = cmp_tree(m, i, fam)
        if r == "diff":
            (fam.disagreements if in_domain else fam.outside).append({"case": c, "model": m, "impl": i})
        else:
            fam.exact += 1
    return fam


def gen_seg_case(rng, mode):
    nseg = rng.randint(1, 4)
    sizes = [rng.randint(1, 4) for _ in range(nseg)]
    ids = [s for s, k in enumerate(sizes) for _ in range(k)]
    trail = rng.choice([[], [rng.randint(1, 3)], [rng.randint(1, 2), rng.randint(1, 3)]])
    shape = [len(ids)] + trail
    size = 1
    for s in shape:
        size *= s
    style = rng.choice(["ties", "near", "near", "rand"])
    return {"fn": "segment_argmax", "data": {"shape": shape, "data": [v if v != "-inf" else q(Fraction(-50)) for v in gen_vals(rng, size, style)]},
            "segment_ids": ids, "num_segments": nseg, "mode": mode}


def fam_segment(rng, n):
    fam = Family("segment_argmax_unit",
                 "data of rank 1-3, 1-4 sorted non-empty segments of 1-4 rows, tie-heavy / near-tie (1e-7, "
                 "1 ulp) / random alphabets, modes eager / jit / fused; oracle: returned row lies in the "
                 "segment and its entry equals the segment maximum exactly, returned max is that maximum; "
                 "non-trivial = some segment has >= 2 rows")
    cases = [gen_seg_case(rng, ["eager", "jit", "fused"][k % 3]) for k in range(n)]
    mres, ires = run_model(cases), run_impl(cases)
    for c, m, i in zip(cases, mres, ires):
        ids = c["segment_ids"]
        fam.count(c, len(ids) > c["num_segments"])
        fam.bump(c["mode"])
        if "error" in i:
            fam.violations.append({"case": c, "impl": i, "what": "segment_argmax raised"})
            continue
        shape = c["data"]["shape"]
        vals = dict(zip(idxs(shape), [unq(x) for x in c["data"]["data"]]))
        out_idx = idxs([c["num_segments"]] + shape[1:])
        bad = None
        if i["argmax"]["shape"] != [c["num_segments"]] + shape[1:]:
            bad = "result shape"
        else:
            for k, idx in enumerate(out_idx):
                s, rest = idx[0], idx[1:]
                rows = [r for r, sid in enumerate(ids) if sid == s]
                mx = max(vals[(r,) + rest] for r in rows)
                row = i["argmax"]["data"][k]
                got = unq(i["max"]["data"][k])
                if row not in rows:
                    bad = f"row {row} not in segment {s} at {idx}"
                elif vals[(row,) + rest] != mx:
                    bad = f"row {row} does not attain the segment maximum at {idx}"
                elif got != mx:
                    bad = f"returned maximum {got} != segment maximum {mx} at {idx}"
                if bad:
                    break
        if bad:
            fam.violations.append({"case": c, "impl": i, "what": "segment arg-max: " + bad})
            continue
        r = cmp_tree(m, i, fam)
        if r == "diff":
            fam.disagreements.append({"case": c, "model": m, "impl": i})
        else:
            fam.exact += 1
    return fam


def fam_reduce(rng, n):
    fam = Family("reduce_choice_axes",
                 "cc-value arrays [rows x dense axes] with sorted segments and/or dense choice axes; "
                 "max over axes then segment max must equal the max over all discrete choices of each state; "
                 "non-trivial = some state has >= 2 choices")
    cases = []
    for _ in range(n):
        nseg = rng.randint(1, 3)
        sizes = [rng.randint(1, 3) for _ in range(nseg)]
        ids = [s for s, k in enumerate(sizes) for _ in range(k)]
        rank = rng.randint(1, 3)
        shape = [len(ids)] + [rng.randint(1, 3) for _ in range(rank - 1)]
        use_seg = rng.random() < 0.7
        axes_pool = list(range(1, rank)) if use_seg else list(range(rank))
        k = rng.randint(0, len(axes_pool))
        axes = sorted(rng.sample(axes_pool, k)) or None
        if not use_seg and axes is None:
            axes = [0]
        size = 1
        for s in shape:
            size *= s
        cases.append({"fn": "discrete_no_shocks", "values": {"shape": shape, "data": gen_vals(rng, size, "rand")},
                      "axes": axes, "segment_ids": ids if use_seg else None, "num_segments": nseg if use_seg else None})
    mres, ires = run_model(cases), run_impl(cases)
    for c, m, i in zip(cases, mres, ires):
        shape = c["values"]["shape"]
        vals = dict(zip(idxs(shape), c["values"]["data"]))
        axes = c["axes"] or []
        groups = {}
        for idx in idxs(shape):
            keep = tuple(x for a, x in enumerate(idx) if a not in axes)
            if c["segment_ids"] is not None:
                keep = (c["segment_ids"][keep[0]],) + keep[1:]
            groups.setdefault(keep, []).append(vals[idx])
        fam.count(c, any(len(v) > 1 for v in groups.values()))
        if "error" in i:
            fam.violations.append({"case": c, "impl": i, "what": "choice reduction raised"})
            continue
        out_idx = idxs(i["shape"])
        bad = len(out_idx) != len(groups)
        for k, idx in enumerate(out_idx):
            if bad:
                break
            g = groups.get(idx)
            if g is None:
                bad = True
                break
            fin = [unq(x) for x in g if x != "-inf"]
            exp = q(max(fin)) if fin else "-inf"
            if cmp_tree(i["data"][k], exp, fam) != "exact":
                bad = True
        if bad:
            fam.violations.append({"case": c, "impl": i, "what": "max over choice axes + segment max differs from the max over all discrete choices of the state"})
        elif cmp_tree(m, i, fam) == "diff":
            fam.disagreements.append({"case": c, "model": m, "impl": i})
        else:
            fam.exact += 1
    return fam


def fam_fused_real(rng, n):
    fam = Family("fused_real",
                 "real-valued arrays produced by exp/log1p/sin inside the same jax.jit as argmax (float32 and "
                 "float64): the reported position must be unmasked and its entry (recomputed outside the jit) "
                 "within 1e-5 relative of the reported masked maximum; all non-trivial")
    cases = []
    for _ in range(n):
        rank = rng.randint(1, 3)
        shape = [rng.randint(2, 5) for _ in range(rank)]
        k = rng.randint(1, rank)
        axes = sorted(rng.sample(range(rank), k))
        size = 1
        for s in shape:
            size *= s
        cases.append({"fn": "fused_real", "a": {"shape": shape, "data": [q(Fraction(rng.randint(-400, 400), 64)) for _ in range(size)]},
                      "axis": axes, "where": {"shape": shape, "data": [rng.random() < 0.7 for _ in range(size)]},
                      "dtype": rng.choice(["f32", "f64"])})
    ires = run_impl(cases)
    for c, i in zip(cases, ires):
        fam.count(c)
        if "error" in i:
            fam.violations.append({"case": c, "impl": i, "what": "fused argmax raised"})
            continue
        shape = c["a"]["shape"]
        axes = c["axis"]
        front = [k for k in range(len(shape)) if k not in axes]
        a = dict(zip(idxs(shape), [unq(x) for x in i["a"]["data"]]))
        w = dict(zip(idxs(shape), c["where"]["data"]))
        bad = None
        for k, outer in enumerate(idxs([shape[x] for x in front])):
            pos, mx = i["argmax"]["data"][k], unq(i["max"]["data"][k])
            inner = idxs([shape[x] for x in axes])
            unmasked = []
            for fl, inn in enumerate(inner):
                full = [0] * len(shape)
                for x, v in zip(front, outer):
                    full[x] = v
                for x, v in zip(axes, inn):
                    full[x] = v
                if w[tuple(full)]:
                    unmasked.append((fl, a[tuple(full)]))
            if not unmasked:
                if pos != 0 or mx != "-inf":
                    bad = f"all masked but position {pos}, max {mx}"
                continue
            true_max = max(v for _, v in unmasked)
            d = dict(unmasked)
            if pos not in d:
                bad = f"reported position {pos} is masked (outer {outer})"
            elif abs(float(d[pos]) - float(true_max)) > 1e-5 * max(1.0, abs(float(true_max))):
                bad = f"entry at reported position {float(d[pos])} is not the masked maximum {float(true_max)}"
            elif isinstance(mx, str) or abs(float(mx) - float(true_max)) > 1e-5 * max(1.0, abs(float(true_max))):
                bad = f"reported maximum {mx} differs from the masked maximum {float(true_max)}"
            if bad:
                break
        if bad:
            fam.violations.append({"case": c, "impl": i, "what": "fused producer: " + bad})
        else:
            fam.tolerant += 1
    return fam


def fam_pipeline(rng, n):
    """the arg-max primitives inside lcm's own jitted simulation pipeline: the utility array is
    produced by fused upstream operations (interpolation, nested vmaps); the reported choices must
    attain the reported maximum (judged by the Spec as in C02)"""
    import e2e
    feats = [{"two_cont_choices"}, {"two_cont_choices", "constraint"}, {"mixed_discrete_choices", "filter"}, set()]
    fam, _ = e2e.fam_simulate(rng, n, judge=("C02",), name="pipeline_argmax", features=feats, agents=(3, 8), targets=False)
    return fam


def run(tier, seed):
    rng = random.Random(seed * 7919 + 18)
    k = 1 if tier == "quick" else 20
    return [fam_argmax(rng, 360 * k), fam_segment(rng, 180 * k), fam_reduce(rng, 150 * k),
            fam_fused_real(rng, 60 * k), fam_pipeline(rng, 12 * k)]


def matches_signature(entry, item):
    return False


def replay_known(entry):
    case = entry.get("replay") or {}
    if case.get("fn") == "simulate":
        from props import _sim
        return bool(_sim.judge_case(case, ("C02", "C12")))
    return False


def replay(payload):
    v = payload.get("violation") or (payload.get("correspondence_disagreements") or [{}])[0]
    case = v.get("case")
    if not case:
        print("nothing to replay in this file (proof-only breakage):", payload.get("no_longer_checks"))
        return 1
    print("case:", json.dumps(case))
    print("impl :", run_impl([case])[0])
    if case["fn"] != "fused_real":
        print("model:", run_model([case])[0])
    return 0

"""C01 — solve() returns the Bellman solution on the grid."""
import json
import random

import e2e
from core import run_impl, run_model

GEN_FILES = ["SolveBrute.v", "EntryPoint.v", "ModelFunctions.v", "CCV.v", "DiscreteNoShocks.v", "WeightFunc.v", "ChoiceAxes.v", "SolveDiscrete.v"]
TRUSTED = e2e.TRUSTED
ASSUMPTIONS = e2e.ASSUMPTIONS + [
    "'does not depend on whether JIT compilation is requested' is runtime behaviour: covered by solving every other model with jit=False, not by the theorems",
]


def run(tier, seed):
    rng = random.Random(seed * 7919 + 1)
    k = 1 if tier == "quick" else 20
    fam, _ = e2e.fam_solve(rng, 30 * k, max_periods=3 if tier == "quick" else 4)
    return [fam]


def matches_signature(entry, item):
    return False


def replay_known(entry):
    case = entry["replay"]
    i = run_impl([case])[0]
    s = run_model([case])[0]
    if entry.get("signature") == "filter_only_variable":
        return isinstance(i, dict) and "error" in i
    if isinstance(i, dict) and "error" in i:
        return True
    from core import Family, cmp_tree
    return cmp_tree(i, s, Family("x", "")) == "diff"


def replay(payload):
    v = payload.get("violation") or (payload.get("correspondence_disagreements") or [{}])[0]
    case = v.get("case")
    if not case:
        print("nothing to replay in this file (proof-only breakage):", payload.get("no_longer_checks"))
        return 1
    print(case.get("py", ""))
    print("params:", json.dumps(case.get("params")))
    print("lcm :", json.dumps(run_impl([case])[0])[:2000])
    print("spec:", json.dumps(run_model([case])[0])[:2000])
    return 0

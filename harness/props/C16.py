"""C16 — a grid is rejected or materialises as specified."""
import json
import random
from fractions import Fraction

from core import Family, q, unq, close, run_model, run_impl, cmp_tree

GEN_FILES = ["GridValidate.v"]
TRUSTED = [
    "translator/py2coq.py (regenerates Gen/GridValidate.v from grids._validate_continuous_grid)",
    "Base/PyVal.v: isinstance(x, int|float), bool-is-int, exact int/float comparison, NaN compares false",
    "Model/Grids.v validate_discrete_grid is hand-written: tied by family discrete_grid",
    "Spec/GridRules.lin_points (exact jnp.linspace) and Proofs/C15_Log.log_point (exact jnp.logspace): trusted meaning, validated by families grid_points / validate_continuous(materialise)",
    "extraction ExtrOcamlBasic + ExtrOcamlNativeString, ocaml/driver.ml",
]
ASSUMPTIONS = [
    "floating-point granularity (bounds one ulp apart, subnormal bounds) is outside the exact-arithmetic theorem and outside the generators",
    "the LinspaceGrid/LogspaceGrid dataclasses call the validator from __post_init__ with positive_start exactly for LogspaceGrid (checked by the runs, not proved)",
]

FLOAT_MAX = Fraction(2 ** 1024 - 2 ** 971)


def gen_pyval(rng, role):
    """mostly-valid stream for start/stop/n_points with malformed values mixed in"""
    r = rng.random()
    if role == "n":
        if r < 0.6:
            return {"t": "int", "v": rng.randint(1, 12)}
        if r < 0.75:
            return {"t": "int", "v": rng.choice([0, -1, -5, 1, 2])}
        if r < 0.8:
            return {"t": "bool", "v": rng.choice([True, False])}
        if r < 0.88:
            return {"t": "float", "v": q(Fraction(rng.randint(1, 9)))}
        return rng.choice([{"t": "str"}, {"t": "none"}, {"t": "npint"}, {"t": "list"}, {"t": "float", "v": "nan"}])
    if r < 0.35:
        return {"t": "int", "v": rng.randint(-20, 40)}
    if r < 0.65:
        return {"t": "float", "v": q(Fraction(rng.randint(-160, 320), 8))}
    if r < 0.70:
        return {"t": "float", "v": rng.choice(["inf", "-inf", "nan"])}
    if r < 0.74:
        return {"t": "bool", "v": rng.choice([True, False])}
    if r < 0.79:
        return {"t": "int", "v": rng.choice([10 ** 400, -10 ** 400, 2 ** 1024, 2 ** 1024 - 2 ** 971, 10 ** 30, -10 ** 30, 0])}
    if r < 0.84:
        return {"t": "float", "v": q(Fraction(rng.choice([0, 0, 1, -1])))}
    if r < 0.88:
        return {"t": "npfloat64", "v": q(Fraction(rng.randint(-40, 40), 4))}
    return rng.choice([{"t": "str"}, {"t": "none"}, {"t": "npfloat32"}, {"t": "list"}])


def to_model_pyval(j):
    t = j["t"]
    if t == "npfloat64":
        return {"t": "float", "v": j["v"]}
    if t in ("npfloat32", "npint", "list"):
        return {"t": "other"}
    return j


def num_of(j):
    t = j["t"]
    if t == "int":
        return Fraction(j["v"])
    if t == "bool":
        return Fraction(int(j["v"]))
    if t in ("float", "npfloat64"):
        return None if isinstance(j["v"], str) else unq(j["v"])
    return None


def spec_accepts(c):
    a, b = num_of(c["start"]), num_of(c["stop"])
    n = c["n_points"]
    if a is None or b is None or n["t"] not in ("int", "bool"):
        return False
    k = int(n["v"])
    ok = -FLOAT_MAX <= a <= FLOAT_MAX and -FLOAT_MAX <= b <= FLOAT_MAX and a < b and k >= 1
    if c["positive_start"]:
        ok = ok and a > 0
    return ok


def fam_continuous(rng, n):
    fam = Family("validate_continuous",
                 "start/stop/n_points drawn from a mostly-valid stream (small ints, dyadic floats, bools, "
                 "numpy float64) mixed with a malformed stream (inf, nan, huge ints, strings, None, numpy "
                 "float32/int, lists); Linspace and Logspace; distinct = distinct argument triples; "
                 "non-trivial = at least one argument is not a plain small number, or the grid is accepted")
    cases = []
    for _ in range(n):
        c = {"fn": "validate_continuous", "start": gen_pyval(rng, "s"), "stop": gen_pyval(rng, "s"),
             "n_points": gen_pyval(rng, "n"), "positive_start": rng.random() < 0.4, "materialise": True}
        if rng.random() < 0.5 and c["start"]["t"] in ("int", "float") and c["stop"]["t"] in ("int", "float"):
            a, b = num_of(c["start"]), num_of(c["stop"])
            if a is not None and b is not None and a > b:
                c["start"], c["stop"] = c["stop"], c["start"]
        cases.append(c)
    mcases = [{**c, "start": to_model_pyval(c["start"]), "stop": to_model_pyval(c["stop"]),
               "n_points": to_model_pyval(c["n_points"])} for c in cases]
    mres, ires = run_model(mcases), run_impl(cases)
    for c, m, i in zip(cases, mres, ires):
        spec = spec_accepts(c)
        fam.count(c, spec or any(x["t"] not in ("int", "float") or isinstance(x.get("v"), str)
                                 for x in (c["start"], c["stop"], c["n_points"])))
        fam.bump("accepted" if spec else "rejected")
        fam.bump("log" if c["positive_start"] else "lin")
        out = i.get("outcome")
        if out not in ("accept", "reject"):
            fam.violations.append({"case": c, "impl": i, "spec_accepts": spec,
                                   "what": f"grid constructor raised {out} instead of GridInitializationError"})
            continue
        if (out == "accept") != spec:
            fam.violations.append({"case": c, "impl": i, "spec_accepts": spec,
                                   "what": "grid accepted/rejected contrary to the specification"})
            continue
        if m != out:
            fam.disagreements.append({"case": c, "model": m, "impl": i})
            continue
        if out == "accept":
            a, b, k = num_of(c["start"]), num_of(c["stop"]), int(c["n_points"]["v"])
            bad = None
            if "to_jax_error" in i:
                bad = "accepted grid does not materialise: " + i["to_jax_error"]
            else:
                g = [unq(x) for x in i["grid"]]
                if len(g) != k:
                    bad = f"length {len(g)} != n_points {k}"
                elif any(isinstance(x, str) for x in g):
                    bad = "non-finite grid values"
                elif abs(g[0] - a) > 2e-6 * max(1, abs(a)):  # float32-safe: bool bounds give float32 arrays
                    bad = "first element is not start"
                elif k >= 2 and abs(g[-1] - b) > 2e-6 * max(1, abs(b)):
                    bad = "last element is not stop"
                elif any(not g[j] < g[j + 1] for j in range(k - 1)):
                    bad = "not strictly increasing"
                else:
                    if c["positive_start"]:
                        import math
                        lg = [math.log(float(x)) for x in g]
                        d = [lg[j + 1] - lg[j] for j in range(k - 1)]
                    else:
                        d = [float(g[j + 1] - g[j]) for j in range(k - 1)]
                    if d and max(d) - min(d) > 1e-5 * max(1.0, abs(max(d))):  # float32-safe (bool bounds give float32 arrays)
                        bad = "not equally spaced"
            if bad:
                fam.violations.append({"case": c, "impl": i, "what": bad})
                continue
        fam.exact += 1
    return fam


def gen_values(rng):
    r = rng.random()
    n = rng.randint(0, 5)
    if r < 0.45:
        vals = [{"t": "int", "v": k} for k in range(n)]
        # numerically equal variants
        for k in range(n):
            x = rng.random()
            if x < 0.15:
                vals[k] = {"t": "float", "v": k}
            elif x < 0.25 and k in (0, 1):
                vals[k] = {"t": "bool", "v": bool(k)}
        return vals
    vals = [{"t": "int", "v": k} for k in range(n)]
    for _ in range(rng.randint(1, 2)):
        if not vals:
            break
        k = rng.randrange(len(vals))
        vals[k] = rng.choice([
            {"t": "int", "v": rng.randint(-2, 6)}, {"t": "float", "v": q(Fraction(rng.randint(0, 12), 2))},
            {"t": "str"}, {"t": "none"}, {"t": "float", "v": "nan"}, {"t": "float", "v": "inf"},
            {"t": "bool", "v": rng.choice([True, False])}, {"t": "list"}])
    if rng.random() < 0.3 and len(vals) >= 2:
        rng.shuffle(vals)
    return vals


def spec_discrete(c):
    if not c["is_dataclass"] or not c["values"]:
        return False
    for k, v in enumerate(c["values"]):
        x = num_of(v) if v["t"] in ("int", "bool", "float") else None
        if x is None or x != k:
            return False
    return True


def fam_discrete(rng, n):
    fam = Family("discrete_grid",
                 "category classes with 0-5 fields: the codes 0..n-1 (some written as floats/bools), or "
                 "with gaps, duplicates, reorderings, strings, None, nan, inf, lists; dataclass or plain "
                 "class; distinct = distinct (is_dataclass, values); non-trivial = at least one field")
    cases = []
    for _ in range(n):
        cases.append({"fn": "validate_discrete", "is_dataclass": rng.random() < 0.85, "values": gen_values(rng)})
    mcases = [{**c, "values": [to_model_pyval(v) for v in c["values"]]} for c in cases]
    mres, ires = run_model(mcases), run_impl(cases)
    for c, m, i in zip(cases, mres, ires):
        fam.count(c, len(c["values"]) > 0)
        spec = spec_discrete(c)
        fam.bump("accepted" if spec else "rejected")
        out = i.get("outcome")
        if out not in ("accept", "reject"):
            fam.violations.append({"case": c, "impl": i, "what": f"DiscreteGrid raised {out}"})
        elif (out == "accept") != spec:
            fam.violations.append({"case": c, "impl": i, "spec_accepts": spec,
                                   "what": "discrete grid accepted/rejected contrary to the specification"})
        elif out == "accept" and ("to_jax_error" in i or [unq(x) for x in i["codes"]] != list(range(len(c["values"])))):
            fam.violations.append({"case": c, "impl": i, "what": "array form of an accepted discrete grid is not 0..n-1"})
        elif "error" in m or m.get("model") != (out == "accept") or m.get("spec") != spec:
            fam.disagreements.append({"case": c, "model": m, "impl": i})
        else:
            fam.exact += 1
    return fam


def fam_points(rng, n):
    fam = Family("grid_points", "jnp.linspace vs exact lin_points on dyadic bounds, n in 1..17; all non-trivial")
    cases = []
    for _ in range(n):
        a = Fraction(rng.randint(-80, 80), 4)
        b = a + Fraction(rng.randint(1, 200), 4)
        cases.append({"fn": "lin_points", "start": q(a), "stop": q(b), "n": rng.choice([1, 2, 3, 5, 9, 17, rng.randint(2, 12)])})
    mres, ires = run_model(cases), run_impl(cases)
    for c, m, i in zip(cases, mres, ires):
        fam.count(c)
        r = cmp_tree(m, i, fam, 1e-12)
        if r == "diff":
            fam.disagreements.append({"case": c, "model": m, "impl": i})
        elif r == "exact":
            fam.exact += 1
        else:
            fam.tolerant += 1
    return fam


def run(tier, seed):
    rng = random.Random(seed * 7919 + 16)
    k = 1 if tier == "quick" else 15
    return [fam_continuous(rng, 400 * k), fam_discrete(rng, 300 * k), fam_points(rng, 80 * k)]


def _is_huge_int_case(item):
    c = item.get("case") or {}
    for key in ("start", "stop"):
        v = c.get(key) or {}
        if v.get("t") == "int" and abs(int(v["v"])) >= 2 ** 63:
            return True
    return False


def matches_signature(entry, item):
    if entry.get("signature") == "huge_int_bound":
        return _is_huge_int_case(item) and "OverflowError" in str(item.get("what", ""))
    return False


def replay_known(entry):
    case = entry["replay"]
    i = run_impl([case])[0]
    if entry.get("signature") == "huge_int_bound":
        return i.get("outcome") == "accept" and "to_jax_error" in i
    # fixed entry: the violation is back iff the non-finite / non-positive-log input is accepted again
    return i.get("outcome") == "accept"


def replay(payload):
    v = payload.get("violation") or (payload.get("correspondence_disagreements") or [{}])[0]
    case = v.get("case")
    if not case:
        print("nothing to replay in this file (proof-only breakage):", payload.get("no_longer_checks"))
        return 1
    print("case:", json.dumps(case))
    print("impl :", run_impl([case])[0])
    return 0

"""C02 — simulated decisions are feasible maximisers."""
import e2e
from props import _sim

GEN_FILES = ["Simulate.v", "SimulateKernels.v", "Argmax.v", "CCV.v", "ModelFunctions.v", "ChoiceAxes.v"]
TRUSTED = e2e.TRUSTED
ASSUMPTIONS = e2e.ASSUMPTIONS + [
    "'with JIT compilation on' and 'up to floating-point tolerance' are runtime: every simulation runs jitted and is judged with a 1e-9 relative tolerance",
    "rows whose state has no admissible choice, or whose continuation reads -inf, are outside the domain",
]
FEATS = [{"period_filter"}, {"filter"}, {"mixed_discrete_choices", "filter"}, {"two_cont_choices"}, {"constraint"},
         {"period_filter", "mixed_discrete_choices"}, {"two_cont_choices", "constraint"}, set(), {"period_filter", "stochastic"}, {"filter", "stochastic"}]
run = _sim.make("C02", 2, 30, ("C02",), features=FEATS)
matches_signature, replay_known, replay = _sim.matches_signature, _sim.replay_known, _sim.replay

"""C02 — simulated decisions are feasible maximisers."""
import e2e
from core import Family, run_model, run_impl, cmp_tree
from props import _sim

GEN_FILES = ["Simulate.v", "SimulateKernels.v", "Argmax.v", "CCV.v", "ModelFunctions.v", "ChoiceAxes.v", "ChoiceSegments.v", "DataSCS.v"]
RUNNERS = ["scs_runner"]
TRUSTED = e2e.TRUSTED + ["translator/py2coq_datascs.py: the numpy/dict vocabulary of Gen/DataSCS.v (repeat, tile, meshgrid product, boolean selection, dict assignment), tied by family data_scs_vs_regenerated (bin/scs_runner)"]
ASSUMPTIONS = e2e.ASSUMPTIONS + [
    "'with JIT compilation on' and 'up to floating-point tolerance' are runtime: every simulation runs jitted and is judged with a 1e-9 relative tolerance",
    "rows whose state has no admissible choice, or whose continuation reads -inf, are outside the domain",
]
FEATS = [{"period_filter"}, {"filter"}, {"mixed_discrete_choices", "filter"}, {"two_cont_choices"}, {"constraint"},
         {"period_filter", "mixed_discrete_choices"}, {"two_cont_choices", "constraint"}, set(), {"period_filter", "stochastic"}, {"filter", "stochastic"}]


def fam_data_scs(rng, tier):
    """lcm.simulate.create_data_scs vs the regenerated create_data_scs (Gen/DataSCS.v) extracted to OCaml, on the inputs lcm's own
    reads off the processed model; the filter function itself is evaluated by the Spec"""
    fam = Family("data_scs_vs_regenerated",
                 "random whole models with 0-2 filters over discrete states/choices and the period (restricted choices, "
                 "mixed restricted/unrestricted discrete choices, stochastic states), every period, 1-5 agents with on-grid "
                 "states: names and columns of the sparse and dense variables, segment ids and number of segments of "
                 "lcm.simulate.create_data_scs vs the regenerated definition; non-trivial = restricted choices and >= 2 agents "
                 "and some combination rejected")
    n = 12 if tier == "quick" else 150
    feats = [{"filter"}, {"period_filter"}, {"filter", "mixed_discrete_choices"}, {"period_filter", "stochastic"}, set(),
             {"period_filter", "mixed_discrete_choices"}]
    cases = e2e.gen_cases(rng, n, fn="data_scs", features=feats)
    wc = []
    for c in cases:
        na = rng.randint(1, 5)
        init = e2e.gen_initial_states(rng, c["_mspec"], na, on_grid=True)
        if rng.random() < 0.5:
            rng.shuffle(init)
        for t in range(c["_mspec"]["n_periods"]):
            w = e2e.wire(c)
            w.update(period=t, states=init)
            wc.append(w)
    ires = run_impl(wc)
    mc, keep = [], []
    for w, i in zip(wc, ires):
        if isinstance(i, dict) and "error" in i:
            keep.append(None)
            continue
        m = dict(w)
        m.update(i["inputs"])
        keep.append(len(mc))
        mc.append(m)
    mres = run_model(mc, runner="scs_runner")
    keys = ["sparse_names", "sparse_vars", "dense_names", "dense_vars", "segment_ids", "num_segments"]
    for w, i, k in zip(wc, ires, keep):
        na = len(w["states"][0][1])
        if k is None:
            fam.count({"py": w["py"], "t": w["period"], "init": w["states"]}, False)
            fam.outside.append({"case": w, "impl": i, "what": "create_data_scs raised: " + str(i.get("detail"))[:200]})
            fam.bump("lcm_raised (outside: C12 territory)")
            continue
        s = mres[k]
        if isinstance(s, dict) and "error" in s:
            fam.count({"py": w["py"], "t": w["period"], "init": w["states"]}, False)
            fam.disagreements.append({"case": w, "model": s, "what": "runner error"})
            continue
        rejected = i["segment_ids"] is not None and i["sparse_vars"] and len(i["sparse_vars"][0]) % na == 0 \
            and any(i["segment_ids"].count(a) != i["segment_ids"].count(0) for a in range(na)) or \
            (i["segment_ids"] is not None and len(set(i["segment_ids"])) < na)
        full = i["segment_ids"] is not None
        fam.count({"py": w["py"], "t": w["period"], "init": w["states"]}, bool(full and na >= 2))
        fam.bump("restricted_choices" if full else "no_restricted_choices")
        if rejected:
            fam.bump("agents_with_different_numbers_of_rows")
        bad = [key for key in keys if cmp_tree(i[key], s.get(key), fam) == "diff"]
        if bad:
            fam.disagreements.append({"case": w, "model": {k2: s.get(k2) for k2 in keys}, "impl": {k2: i[k2] for k2 in keys},
                                      "what": f"create_data_scs differs from the regenerated definition in: {bad}"})
        else:
            fam.exact += 1
    return fam


run = _sim.make("C02", 2, 30, ("C02",), features=FEATS, extra_fams=[fam_data_scs])
matches_signature, replay_known, replay = _sim.matches_signature, _sim.replay_known, _sim.replay

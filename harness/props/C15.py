"""C15 — interpolation kernel and grid coordinates: correspondence families + oracles."""
import random
from decimal import Decimal, getcontext
from fractions import Fraction
from math import floor

from core import Family, q, unq, close, run_model, run_impl, cmp_tree

GEN_FILES = ["NdimageKernel.v", "GridHelpersQ.v", "GridHelpersR.v"]
TRUSTED = [
    "translator/py2coq.py (regenerates Gen/NdimageKernel.v, Gen/GridHelpersQ.v, Gen/GridHelpersR.v from ndimage.py / grid_helpers.py)",
    "Model/Ndimage.v map_coordinates (itertools.product over the per-axis pairs) is hand-written: tied by family map_coordinates",
    "extraction ExtrOcamlBasic + ExtrOcamlNativeString, ocaml/driver.ml",
    "get_logspace_coordinate over R (ln/exp) is not executable: tied by the translator only; its float behaviour is checked against a 50-digit decimal oracle",
]
ASSUMPTIONS = [
    "exact arithmetic (Q / R); float rounding is outside the theorems and is bounded in the runs by a 1e-9 tolerance",
    "axis sizes >= 2 (one-point axes make the coordinate functions divide by zero in lcm itself)",
]


def dyadic(rng, lo, hi, bits=3):
    k = 2 ** bits
    return Fraction(rng.randint(lo * k, hi * k), k)


def gen_map_cases(rng, n, big=False):
    cases = []
    for _ in range(n):
        rank = rng.choice([1, 2, 2, 3, 3, 4])
        shape = [rng.randint(2, 5 if big else 4) for _ in range(rank)]
        size = 1
        for s in shape:
            size *= s
        data = [rng.randint(-9, 9) * rng.choice([1, 1, 3]) for _ in range(size)]
        coords = []
        for s in shape:
            mode = rng.choice(["int", "frac", "frac", "below", "above", "edge"])
            if mode == "int":
                c = Fraction(rng.randint(0, s - 1))
            elif mode == "frac":
                c = dyadic(rng, 0, s - 1)
            elif mode == "below":
                c = -dyadic(rng, 0, 3) - Fraction(1, 8)
            elif mode == "above":
                c = s - 1 + dyadic(rng, 0, 3) + Fraction(1, 8)
            else:
                c = Fraction(rng.choice([0, s - 1, s - 2]))
            coords.append(c)
        cases.append({"fn": "map_coordinates", "input": {"shape": shape, "data": data},
                      "coordinates": [q(c) for c in coords]})
    return cases


def py_interp(shape, data, coords):
    """independent oracle: multilinear blend with boundary-cell continuation (Fractions)"""
    def get(idx):
        k = 0
        for s, i in zip(shape, idx):
            k = k * s + i
        return Fraction(data[k])

    def rec(axis, prefix):
        if axis == len(shape):
            return get(prefix)
        c, n = coords[axis], shape[axis]
        lo = min(max(floor(c), 0), n - 2)
        w = c - lo
        return (1 - w) * rec(axis + 1, prefix + [lo]) + w * rec(axis + 1, prefix + [lo + 1])
    return rec(0, [])


def fam_map_coordinates(rng, n, big):
    fam = Family("map_coordinates",
                 "random integer arrays of rank 1-4 (dims 2-5), per-axis coordinates drawn from "
                 "{grid node, dyadic fraction inside, below range, above range, boundary node}; "
                 "distinct = distinct (shape,data,coords); non-trivial = at least one non-integer or "
                 "out-of-range coordinate")
    cases = gen_map_cases(rng, n, big)
    # batched variants: same array, several coordinate tuples at once (impl only)
    mres = run_model(cases)
    ires = run_impl(cases)
    for c, m, i in zip(cases, mres, ires):
        coords = [unq(x) for x in c["coordinates"]]
        nontrivial = any(x.denominator != 1 or x < 0 or x > s - 1 for x, s in zip(coords, c["input"]["shape"]))
        fam.count(c, nontrivial)
        fam.bump(f"rank{len(coords)}")
        if any(x < 0 or x > s - 1 for x, s in zip(coords, c["input"]["shape"])):
            fam.bump("extrapolating")
        spec = q(py_interp(c["input"]["shape"], c["input"]["data"], coords))
        if isinstance(m, dict) and "error" in m:
            fam.disagreements.append({"case": c, "model": m, "impl": i})
            continue
        r_spec = close(i, spec) if not isinstance(i, dict) or "q" in i else "diff"
        r_model = close(i, m["model"]) if not isinstance(i, dict) or "q" in i else "diff"
        r_ms = close(m["model"], m["spec"])
        r_ss = close(m["spec"], spec)
        if r_spec == "diff":
            fam.violations.append({"case": c, "impl": i, "spec": spec,
                                   "what": "map_coordinates differs from the multilinear blend / linear continuation"})
        elif r_model == "diff" or r_ms == "diff" or r_ss == "diff":
            fam.disagreements.append({"case": c, "impl": i, "model": m, "python_oracle": spec})
        else:
            if r_model == "exact":
                fam.exact += 1
            else:
                fam.tolerant += 1
    # batched calls
    bcases = []
    for _ in range(max(2, n // 10)):
        base = gen_map_cases(rng, 1, big)[0]
        pts = [gen_map_cases(rng, 1, big)[0] for _ in range(4)]
        shape = base["input"]["shape"]
        cols = []
        for ax, s in enumerate(shape):
            cols.append([q(dyadic(rng, -2, s + 1)) for _ in range(5)])
        bcases.append({"fn": "map_coordinates", "input": base["input"], "coordinates": cols, "batched": True})
    bres = run_impl(bcases)
    for c, i in zip(bcases, bres):
        fam.count(c)
        fam.bump("batched")
        shape, data = c["input"]["shape"], c["input"]["data"]
        if isinstance(i, dict):
            fam.violations.append({"case": c, "impl": i, "what": "batched map_coordinates raised"})
            continue
        for k in range(5):
            coords = [unq(col[k]) for col in c["coordinates"]]
            spec = q(py_interp(shape, data, coords))
            r = close(i[k], spec)
            if r == "diff":
                fam.violations.append({"case": c, "point": k, "impl": i[k], "spec": spec,
                                       "what": "batched map_coordinates differs from the multilinear blend"})
                break
        else:
            fam.exact += 1
    return fam


def fam_kernel(rng, n):
    fam = Family("indices_weights",
                 "dyadic coordinates in [-4, size+3], sizes 2-9; distinct (coordinate,size); all non-trivial")
    cases = []
    for _ in range(n):
        size = rng.randint(2, 9)
        c = dyadic(rng, -4, size + 3, bits=4)
        if rng.random() < 0.2:
            c = Fraction(rng.randint(-2, size + 1))
        cases.append({"fn": "indices_weights", "coordinate": q(c), "size": size})
    mres, ires = run_model(cases), run_impl(cases)
    for c, m, i in zip(cases, mres, ires):
        fam.count(c)
        co, n_ = unq(c["coordinate"]), c["size"]
        lo = min(max(floor(co), 0), n_ - 2)
        w = co - lo
        spec = [[lo, q(1 - w)], [lo + 1, q(w)]]
        if cmp_tree(i, spec, fam) == "diff":
            fam.violations.append({"case": c, "impl": i, "spec": spec,
                                   "what": "indices/weights differ from (clip(floor c,0,n-2), 1-w, w)"})
        elif cmp_tree(m, i, fam) == "diff":
            fam.disagreements.append({"case": c, "model": m, "impl": i})
        else:
            fam.exact += 1
    return fam


def fam_lin(rng, n):
    fam = Family("lin_coord",
                 "dyadic start<stop, n in 2..17, values at grid points, inside and outside the range; "
                 "non-trivial = value not equal to start")
    cases = []
    for _ in range(n):
        a = dyadic(rng, -20, 20)
        b = a + dyadic(rng, 0, 30) + Fraction(1, 8)
        npts = rng.choice([2, 3, 4, 5, 9, 17, rng.randint(2, 12)])
        mode = rng.choice(["point", "in", "out"])
        if mode == "point":
            i = rng.randint(0, npts - 1)
            v = a + i * (b - a) / (npts - 1)
        elif mode == "in":
            v = a + (b - a) * Fraction(rng.randint(0, 64), 64)
        else:
            v = rng.choice([a - dyadic(rng, 0, 9) - 1, b + dyadic(rng, 0, 9) + 1])
        cases.append({"fn": "lin_coord", "value": q(v), "start": q(a), "stop": q(b), "n": npts})
    mres, ires = run_model(cases), run_impl(cases)
    for c, m, i in zip(cases, mres, ires):
        v, a, b, npts = unq(c["value"]), unq(c["start"]), unq(c["stop"]), c["n"]
        fam.count(c, v != a)
        spec = q((v - a) * (npts - 1) / (b - a))
        # inputs are converted to floats: use the float-rounded value for the oracle
        r = close(i, spec, 1e-9) if not (isinstance(i, dict) and "error" in i) else "diff"
        if r == "diff":
            fam.violations.append({"case": c, "impl": i, "spec": spec,
                                   "what": "linear-grid coordinate differs from (v-start)(n-1)/(stop-start)"})
        elif close(m, i, 1e-9) == "diff":
            fam.disagreements.append({"case": c, "model": m, "impl": i})
        elif r == "exact":
            fam.exact += 1
        else:
            fam.tolerant += 1
    return fam


def fam_log(rng, n):
    """impl only: the R-valued model is not executable; 50-digit decimal oracle"""
    getcontext().prec = 50
    fam = Family("log_coord",
                 "start>0 dyadic, stop>start, n in 2..12; values = every grid point (closed form and "
                 "to_jax), both endpoints, random interior values; oracle in 50-digit decimal: coordinate "
                 "of point i is i, coordinates strictly increase, interpolating the grid at the "
                 "coordinate returns the value; non-trivial = all")
    cases = []
    for _ in range(n):
        a = dyadic(rng, 0, 40) + Fraction(1, 8)
        b = a + dyadic(rng, 0, 200) + Fraction(1, 4)
        npts = rng.randint(2, 12)
        da, db = Decimal(a.numerator) / Decimal(a.denominator), Decimal(b.numerator) / Decimal(b.denominator)
        step = (db.ln() - da.ln()) / (npts - 1)
        pts = [(da.ln() + step * i).exp() for i in range(npts)]
        vals = [a, b]
        for i in range(1, npts - 1):
            vals.append(Fraction(float(pts[i])))
        for _ in range(4):
            vals.append(a + (b - a) * Fraction(rng.randint(1, 255), 256))
        vals = sorted(set(vals))
        cases.append({"fn": "log_coord", "start": q(a), "stop": q(b), "n": npts, "values": [q(v) for v in vals]})
    ires = run_impl(cases)
    for c, i in zip(cases, ires):
        fam.count(c)
        if isinstance(i, dict) and "error" in i:
            fam.violations.append({"case": c, "impl": i, "what": "get_logspace_coordinate raised"})
            continue
        a, b, npts = unq(c["start"]), unq(c["stop"]), c["n"]
        da, db = Decimal(a.numerator) / Decimal(a.denominator), Decimal(b.numerator) / Decimal(b.denominator)
        step = (db.ln() - da.ln()) / (npts - 1)
        pts = [(da.ln() + step * k).exp() for k in range(npts + 1)]
        bad = None
        prev = None
        for vq, cq in zip(c["values"], i["coords"]):
            v = unq(vq)
            if isinstance(cq, str):
                bad = {"value": vq, "coord": cq, "why": "non-finite coordinate"}
                break
            co = unq(cq)
            dv = Decimal(v.numerator) / Decimal(v.denominator)
            k = int(((dv.ln() - da.ln()) / step).to_integral_value(rounding="ROUND_FLOOR"))
            k = min(max(k, 0), npts - 1)
            ref = Decimal(k) + (dv - pts[k]) / (pts[k + 1] - pts[k])
            if abs(Decimal(co.numerator) / Decimal(co.denominator) - ref) > Decimal("1e-7"):
                # floor may land on the other side of a node in floats: accept if continuous
                bad = {"value": vq, "coord": cq, "expected": str(ref), "why": "coordinate differs from reference"}
                break
            if prev is not None and not co > prev:
                bad = {"value": vq, "coord": cq, "why": "coordinates not strictly increasing"}
                break
            prev = co
            # interpolating the grid at the coordinate returns the value
            lo = min(max(floor(co), 0), npts - 2)
            w = Decimal(co.numerator) / Decimal(co.denominator) - lo
            back = (1 - w) * pts[lo] + w * pts[lo + 1]
            if abs(back - dv) > Decimal("1e-7") * max(1, abs(dv)):
                bad = {"value": vq, "coord": cq, "interp": str(back), "why": "interp(grid, coord(v)) != v"}
                break
        # to_jax grid points map to their index
        if bad is None:
            for k, g in enumerate(i["grid"]):
                if abs(float(unq(g)) - float(pts[k])) > 1e-9 * max(1, float(pts[k])):
                    bad = {"grid_index": k, "grid_value": g, "why": "logspace grid point differs from exp(ln a + k step)"}
                    break
        if bad:
            fam.violations.append({"case": c, "impl": i, "what": "log-grid coordinate: " + bad["why"], "detail": bad})
        else:
            fam.tolerant += 1
    return fam


def run(tier, seed):
    rng = random.Random(seed * 7919 + 15)
    k = 1 if tier == "quick" else 12
    return [fam_kernel(rng, 200 * k), fam_map_coordinates(rng, 240 * k, tier != "quick"),
            fam_lin(rng, 200 * k), fam_log(rng, 40 * k)]


def matches_signature(entry, item):
    return False


def replay_known(entry):
    return False


def replay(payload):
    import json
    v = payload.get("violation") or (payload.get("correspondence_disagreements") or [{}])[0]
    case = v.get("case")
    if not case:
        print("nothing to replay in this file (proof-only breakage):", payload.get("no_longer_checks"))
        return 1
    print("case:", json.dumps(case))
    print("impl :", run_impl([case])[0])
    if case["fn"] != "log_coord":
        print("model:", run_model([case])[0])
    return 0

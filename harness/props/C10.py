"""C10 — equivalent model specifications yield equal solutions (metamorphic, lcm vs lcm)."""
import json
import random

import e2e
import meta
from core import Family, run_impl, run_model

GEN_FILES = []
TRUSTED = e2e.TRUSTED + ["the documented position of each state is taken from Spec/Layout.v (proved in C05) to align the two solutions"]
ASSUMPTIONS = e2e.ASSUMPTIONS + ["renamings keep the naming conventions (next_, _filter, _constraint, utility)"]


def fam_rewrites(rng, n):
    fam = Family("rewritings",
                 "for a random whole model M: (1) states, choices, functions and signatures permuted, (2) all "
                 "variables and auxiliary functions renamed, (3) an always-true constraint or filter added, "
                 "(4) every filter re-declared as a constraint; lcm solves M and the rewritten model, the values "
                 "are aligned state by state through the documented layout and must agree (for (4): on the "
                 "states that remain in the space); distinct = distinct model; non-trivial = the rewriting "
                 "changed the layout or the restricted set")
    bases = e2e.gen_cases(rng, n, features=[{"period_filter"}, {"two_stochastic"}, {"filter"}, {"period_filter", "constraint"}, set(), {"period_filter", "stochastic"}, {"filter", "stochastic"}, {"two_stochastic", "constraint"}])
    jobs = []       # (kind, base index, case, ren)
    cases = []
    for bi, c in enumerate(bases):
        m, p = c["_mspec"], c["_params"]
        cases.append(meta.case_of(m, p))
        jobs.append(("base", bi, None))
        m2, p2 = meta.permute(rng, m, p)
        cases.append(meta.case_of(m2, p2))
        jobs.append(("permuted", bi, None))
        m3, p3, ren = meta.rename(rng, m, p)
        cases.append(meta.case_of(m3, p3))
        jobs.append(("renamed", bi, ren))
        r = meta.add_true_restriction(rng, m, p)
        if r:
            cases.append(meta.case_of(*r))
            jobs.append(("true_restriction", bi, None))
        r = meta.filter_to_constraint(rng, m, p)
        if r:
            cases.append(meta.case_of(*r))
            jobs.append(("filter_as_constraint", bi, None))
    ires, lres = meta.solve_all(cases)
    base = {}
    for (kind, bi, ren), c, i, l in zip(jobs, cases, ires, lres):
        if kind == "base":
            base[bi] = (c, i, l)
    for (kind, bi, ren), c, i, l in zip(jobs, cases, ires, lres):
        if kind == "base":
            continue
        c0, i0, l0 = base[bi]
        fam.count({"py": c["py"], "kind": kind}, c0["py"] != c["py"])
        fam.bump(kind)
        if (isinstance(i0, dict) and "error" in i0) or (isinstance(l0, dict) and "error" in l0) or (isinstance(l, dict) and "error" in l):
            fam.outside.append({"case": c0, "what": "base model not solvable / layout not available"})
            continue
        if isinstance(i, dict) and "error" in i:
            fam.violations.append({"case": c, "base": c0, "impl": i, "what": f"the {kind} model raised although the original solves: " + str(i.get("detail"))[:200]})
            continue
        inv = {v: k for k, v in ren.items()} if ren else None
        mis = [(t, a["shape"], b["shape"]) for which, (sol, lay) in (("original", (i0, l0)), (kind, (i, l)))
               for t, (a, b) in enumerate(zip(sol, lay)) if a["shape"] != b["shape"]]
        if mis:
            fam.violations.append({"case": c, "base": c0, "impl": i, "impl_base": i0,
                                   "what": f"{kind}: a value array has shape {mis[0][1]} in period {mis[0][0]} but the documented layout gives {mis[0][2]}; the solutions cannot be aligned"})
            continue
        va = meta.by_state(i0, l0)
        vb = meta.by_state(i, l, inv)
        diff = meta.compare_by_state(va, vb, only_common=(kind == "filter_as_constraint"))
        if diff:
            fam.violations.append({"case": c, "base": c0, "impl": i, "impl_base": i0, "what": f"{kind}: solutions differ at {diff}"})
        else:
            fam.exact += 1
    return fam


def run(tier, seed):
    rng = random.Random(seed * 7919 + 10)
    k = 1 if tier == "quick" else 15
    return [fam_rewrites(rng, 14 * k)]


def matches_signature(entry, item):
    return False


def replay_known(entry):
    return False


def replay(payload):
    v = payload.get("violation") or (payload.get("correspondence_disagreements") or [{}])[0]
    for key in ("base", "case"):
        c = v.get(key)
        if c:
            print(f"---- {key} ----")
            print(c.get("py", ""))
            print("lcm:", json.dumps(run_impl([c])[0])[:1500])
    print("what:", v.get("what"))
    return 0 if v else 1

"""C07 — the parameter template is complete and parameters are routed by function name."""
import copy
import json
import random
from fractions import Fraction

import e2e
import gen_models as G
from core import Family, q, unq, run_model, run_impl, cmp_tree, close

GEN_FILES = ["ParamsTemplateGen.v", "WeightFunc.v"]
TRUSTED = e2e.TRUSTED + ["Model/ParamsTemplate.v is the hand model of create_params_template: tied by family template"]
ASSUMPTIONS = e2e.ASSUMPTIONS


def fam_template(rng, n):
    fam = Family("template",
                 "random whole models (shared parameter names across utility, auxiliary functions, constraints "
                 "and transitions; functions taking the output of a transition function as argument; stochastic "
                 "transitions with dependencies in random signature order incl. the period): keys and their "
                 "order, the parameter list of every function, the shape of every transition array vs the "
                 "model of the template; non-trivial = a shared parameter name or a stochastic state")
    cases = e2e.gen_cases(rng, n, fn="template", features=[set(), {"stochastic"}, {"constraint"}, {"stochastic", "filter"}, {"next_arg"}, {"next_arg", "stochastic"}])
    wc = [e2e.wire(c) for c in cases]
    sres, ires = run_model(wc), run_impl(wc)
    for c, w, s, i in zip(cases, wc, sres, ires):
        names = [pn for f in c["_params"]["fpar"].values() for pn in f]
        fam.count({"py": c["py"]}, len(names) != len(set(names)) or bool(c["_params"]["shocks"]))
        if isinstance(i, dict) and "error" in i:
            fam.violations.append({"case": w, "impl": i, "what": "get_lcm_function raised: " + str(i.get("detail"))[:200]})
            continue
        if isinstance(s, dict) and "error" in s:
            fam.disagreements.append({"case": w, "spec": s})
            continue
        bad = []
        if i["keys"] != s["keys"]:
            bad.append(f"keys {i['keys']} vs {s['keys']}")
        for fn, ps in s["entries"].items():
            if i["entries"].get(fn) != ps:
                bad.append(f"entry of {fn}: {i['entries'].get(fn)} vs free arguments {ps}")
        for st, sh in s["shocks"].items():
            if i["shocks"].get(st) != sh:
                bad.append(f"shape of shocks[{st}]: {i['shocks'].get(st)} vs {sh}")
        if set(i["shocks"]) != set(s["shocks"]):
            bad.append(f"shock entries {sorted(i['shocks'])} vs {sorted(s['shocks'])}")
        if bad:
            fam.violations.append({"case": w, "impl": i, "expected": s, "what": "template differs: " + "; ".join(bad[:3])})
        else:
            fam.exact += 1
    return fam


def fam_routing(rng, n):
    fam = Family("routing",
                 "a model solved with params P and with P' that differs in ONE parameter of ONE function (a name "
                 "shared with other functions): the Spec says which value entries change; lcm must change the same "
                 "entries to the same values (and nothing else); all non-trivial")
    cases = e2e.gen_cases(rng, n, features=[set(), {"constraint"}, {"stochastic"}, {"next_arg"}])
    wc, meta = [], []
    for c in cases:
        p = c["_params"]
        cands = [(fn, pn) for fn, ps in p["fpar"].items() for pn in ps]
        if not cands:
            continue
        fn, pn = rng.choice(cands)
        p2 = copy.deepcopy(p)
        p2["fpar"][fn][pn] = p["fpar"][fn][pn] + Fraction(rng.choice([1, 3, -2]), 2)
        w1 = e2e.wire(c)
        w2 = dict(w1)
        w2["params"] = G.params_json(p2, q)
        wc += [w1, w2]
        meta.append((c, fn, pn))
    sres, ires = run_model(wc), run_impl(wc)
    for k, (c, fn, pn) in enumerate(meta):
        fam.count({"py": c["py"], "changed": [fn, pn]})
        ok = True
        for j in (0, 1):
            s, i, w = sres[2 * k + j], ires[2 * k + j], wc[2 * k + j]
            if isinstance(i, dict) and "error" in i:
                fam.violations.append({"case": w, "impl": i, "what": "lcm raised: " + str(i.get("detail"))[:200]})
                ok = False
                break
            if isinstance(s, dict) and "error" in s:
                ok = False
                break
            for a, b in zip(i, s):
                if a["shape"] != b["shape"] or any(y is not None and (x is None or close(x, y) == "diff") for x, y in zip(a["data"], b["data"])):
                    fam.violations.append({"case": w, "impl": i, "spec": s, "changed_parameter": [fn, pn],
                                           "what": f"solution with parameter {pn} of {fn} {'changed' if j else 'as generated'} differs from the Spec (parameters routed by function name)"})
                    ok = False
                    break
            if not ok:
                break
        if ok:
            fam.exact += 1
    return fam


def run(tier, seed):
    rng = random.Random(seed * 7919 + 7)
    k = 1 if tier == "quick" else 15
    fam_w, _ = e2e.fam_solve(rng, 16 * k, name="weights_indexed_by_dependency_labels", jit_modes=(True,),
                             features=[{"stochastic"}, {"stochastic", "filter"}, {"stochastic", "constraint"}])
    return [fam_template(rng, 24 * k), fam_routing(rng, 10 * k), fam_w]


def matches_signature(entry, item):
    return False


def replay_known(entry):
    return False


def replay(payload):
    v = payload.get("violation") or (payload.get("correspondence_disagreements") or [{}])[0]
    case = v.get("case")
    if not case:
        print("nothing to replay in this file (proof-only breakage):", payload.get("no_longer_checks"))
        return 1
    print(case.get("py", ""))
    print("lcm :", json.dumps(run_impl([case])[0])[:2000])
    print("spec:", json.dumps(run_model([case])[0])[:2000])
    return 0

"""exprlang.py — the small expression language of generated models: random generation,
rendering to Python/JAX source (for lcm) and to the runner's JSON (for the Coq side)."""
from fractions import Fraction


def c(x):
    return ["c", Fraction(x)]


def v(name):
    return ["v", name]


def to_json(e, q):
    op = e[0]
    if op == "c":
        return ["c", q(e[1])]
    if op == "v":
        return ["v", e[1]]
    if op == "asum":
        op = "+"
    return [op] + [to_json(a, q) for a in e[1:]]


def to_py(e):
    op = e[0]
    if op == "c":
        fr = e[1]
        return f"({fr.numerator})" if fr.denominator == 1 else f"({fr.numerator}.0/{fr.denominator}.0)"
    if op == "v":
        return e[1]
    a = [to_py(x) for x in e[1:]]
    if op == "asum":      # a sum written as a reduction over a stacked array: not element-wise on columns
        return f"jnp.sum(jnp.array([{a[0]}, {a[1]}]))"
    if op in ("+", "-", "*"):
        return f"({a[0]} {op} {a[1]})"
    if op in ("<", "<=", "=="):
        return f"({a[0]} {op} {a[1]})"
    if op == "neg":
        return f"(-{a[0]})"
    if op == "not":
        return f"jnp.logical_not({a[0]})"
    if op == "and":
        return f"jnp.logical_and({a[0]}, {a[1]})"
    if op == "or":
        return f"jnp.logical_or({a[0]}, {a[1]})"
    if op == "where":
        return f"jnp.where({a[0]}, {a[1]}, {a[2]})"
    if op == "clip":
        return f"jnp.clip({a[0]}, {a[1]}, {a[2]})"
    if op == "min":
        return f"jnp.minimum({a[0]}, {a[1]})"
    if op == "max":
        return f"jnp.maximum({a[0]}, {a[1]})"
    raise ValueError(op)


def ev(e, env):
    """reference evaluation with Fractions (used by harness-side oracles)"""
    op = e[0]
    if op == "c":
        return e[1]
    if op == "v":
        return env[e[1]]
    a = [ev(x, env) for x in e[1:]]
    t = lambda x: x != 0  # noqa: E731
    if op in ("+", "asum"):
        return a[0] + a[1]
    if op == "-":
        return a[0] - a[1]
    if op == "*":
        return a[0] * a[1]
    if op == "neg":
        return -a[0]
    if op == "<":
        return Fraction(int(a[0] < a[1]))
    if op == "<=":
        return Fraction(int(a[0] <= a[1]))
    if op == "==":
        return Fraction(int(a[0] == a[1]))
    if op == "not":
        return Fraction(int(not t(a[0])))
    if op == "and":
        return Fraction(int(t(a[0]) and t(a[1])))
    if op == "or":
        return Fraction(int(t(a[0]) or t(a[1])))
    if op == "where":
        return a[1] if t(a[0]) else a[2]
    if op == "clip":
        return min(max(a[0], a[1]), a[2])
    if op == "min":
        return min(a[0], a[1])
    if op == "max":
        return max(a[0], a[1])
    raise ValueError(op)


def names_in(e, acc=None):
    acc = set() if acc is None else acc
    if e[0] == "v":
        acc.add(e[1])
    elif e[0] != "c":
        for a in e[1:]:
            names_in(a, acc)
    return acc


def gen_num(rng, names, depth):
    """random numeric expression over the given names (all must be usable as numbers)"""
    if depth <= 0 or rng.random() < 0.25:
        if names and rng.random() < 0.75:
            return v(rng.choice(names))
        return c(Fraction(rng.randint(-6, 6), rng.choice([1, 1, 2, 4])))
    r = rng.random()
    if r < 0.55:
        return [rng.choice(["+", "-", "+", "*"]), gen_num(rng, names, depth - 1), gen_num(rng, names, depth - 1)]
    if r < 0.65:
        return ["where", gen_bool(rng, names, depth - 1), gen_num(rng, names, depth - 1), gen_num(rng, names, depth - 1)]
    if r < 0.75:
        lo = Fraction(rng.randint(-4, 0))
        return ["clip", gen_num(rng, names, depth - 1), c(lo), c(lo + rng.randint(1, 6))]
    if r < 0.9:
        return [rng.choice(["min", "max"]), gen_num(rng, names, depth - 1), gen_num(rng, names, depth - 1)]
    return ["neg", gen_num(rng, names, depth - 1)]


def gen_bool(rng, names, depth):
    if depth <= 0 or rng.random() < 0.55:
        return [rng.choice(["<", "<=", "=="]), gen_num(rng, names, max(depth - 1, 0)), gen_num(rng, names, max(depth - 1, 0))]
    r = rng.random()
    if r < 0.45:
        return ["and", gen_bool(rng, names, depth - 1), gen_bool(rng, names, depth - 1)]
    if r < 0.9:
        return ["or", gen_bool(rng, names, depth - 1), gen_bool(rng, names, depth - 1)]
    return ["not", gen_bool(rng, names, depth - 1)]


def sum_of(terms):
    e = terms[0]
    for t in terms[1:]:
        e = ["+", e, t]
    return e

(* Extract/Extract.v — extraction of the executable model to OCaml.              *)
(* Directives in force: those of ExtrOcamlBasic (bool, option, unit, prod, list,  *)
(* sumbool, sumor to the OCaml built-ins) and of ExtrOcamlNativeString (ascii to  *)
(* char, string to string, String.eqb/append/concat/... inlined to their OCaml    *)
(* counterparts).  No Extract Constant of our own; nat, positive, Z, Q stay the   *)
(* Coq datatypes.                                                                 *)
Require Coq.extraction.Extraction.
Require Import Coq.extraction.ExtrOcamlBasic Coq.extraction.ExtrOcamlNativeString.
From LCM Require Import Base.Json Model.Runner.
Extraction Language OCaml.
Extraction "model.ml" Runner.run BinInt.Z.add BinInt.Z.mul BinInt.Z.opp BinInt.Z.of_nat
  BinInt.Z.div_eucl BinInt.Z.eqb BinInt.Z.ltb.

(* Extract/ExtractSCS.v — extraction of the second runner (Model/RunnerSCS.v) to OCaml; same directives as Extract/Extract.v:  *)
(* ExtrOcamlBasic and ExtrOcamlNativeString only, no Extract Constant of our own; nat, positive, Z, Q stay the Coq datatypes.   *)
Require Coq.extraction.Extraction.
Require Import Coq.extraction.ExtrOcamlBasic Coq.extraction.ExtrOcamlNativeString.
From LCM Require Import Base.Json Model.RunnerSCS.
Extraction Language OCaml.
Extraction "model.ml" RunnerSCS.run BinInt.Z.add BinInt.Z.mul BinInt.Z.opp BinInt.Z.of_nat
  BinInt.Z.div_eucl BinInt.Z.eqb BinInt.Z.ltb.

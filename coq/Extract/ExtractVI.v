(* Extract/ExtractVI.v — extraction of the fourth runner (Model/RunnerVI.v) to OCaml; same directives as Extract/Extract.v:     *)
(* ExtrOcamlBasic and ExtrOcamlNativeString only, no Extract Constant of our own; nat, positive, Z, Q stay the Coq datatypes.   *)
Require Coq.extraction.Extraction.
Require Import Coq.extraction.ExtrOcamlBasic Coq.extraction.ExtrOcamlNativeString.
From LCM Require Import Base.Json Model.RunnerVI.
Extraction Language OCaml.
Extraction "model.ml" RunnerVI.run BinInt.Z.add BinInt.Z.mul BinInt.Z.opp BinInt.Z.of_nat
  BinInt.Z.div_eucl BinInt.Z.eqb BinInt.Z.ltb.

(* Properties/C10.v — equivalent model specifications yield equal solutions.                   *)
(* STATUS: proved on the specification (Spec/Bellman.v) — for whole solutions: any permutation of  *)
(* the declaration order of the functions gives identical tables; any permutation of the          *)
(* declaration order of the choice variables keeps every entry of every table; more generally two   *)
(* function lists that resolve identically by name give the same solution.  Underneath: the        *)
(* maximum depends only on the set of candidate values (enumeration order, grouping into           *)
(* restricted / unrestricted / continuous choices are irrelevant), admissibility depends only on    *)
(* the collection of restriction functions and not on whether each is a filter or a constraint,     *)
(* an always-true restriction is irrelevant.  Not stated as theorems: permutation of the STATES     *)
(* (it transposes the tables as the layout contract says; C01's layout theorems describe the axes)  *)
(* and renaming (needs alpha-equivalence of the expression language); both are covered by the       *)
(* metamorphic families, which compare lcm with lcm on every run, and lcm is tied to the            *)
(* specification entry by entry by C01/C05.                                                         *)
From Coq Require Import Permutation.
From LCM Require Import Base.Prelude Base.Arr Spec.Lang Spec.Bellman.
From LCM Require Import Proofs.Spec_Algebra Proofs.Spec_Restrictions Proofs.C10_Rewrite Proofs.C10_Choices.

Theorem C10_enumeration_order_is_irrelevant : forall l l' : list val,
  Permutation l l' -> veq (vmaxl l) (vmaxl l').
Proof. exact vmaxl_perm. Qed.
Print Assumptions C10_enumeration_order_is_irrelevant.

Theorem C10_max_over_product_is_nested_max : forall (A : Type) (g : A -> list val) (l : list A),
  veq (vmaxl (flat_map g l)) (vmaxl (map (fun x => vmaxl (g x)) l)).
Proof. exact @vmaxl_flat_map. Qed.
Print Assumptions C10_max_over_product_is_nested_max.

Theorem C10_filter_or_constraint_is_irrelevant : forall m m' p p' e e',
  Permutation (map (fun f => holds m p e f) (filters m ++ constraints m))
              (map (fun f => holds m' p' e' f) (filters m' ++ constraints m')) ->
  feasible m p e = feasible m' p' e'.
Proof. exact feasible_filter_or_constraint. Qed.
Print Assumptions C10_filter_or_constraint_is_irrelevant.

Theorem C10_true_restriction_is_irrelevant : forall vals : list bool,
  forallb (fun b => b) (true :: vals) = forallb (fun b => b) vals.
Proof. exact true_restriction_is_irrelevant. Qed.
Print Assumptions C10_true_restriction_is_irrelevant.

(* ---- whole solutions of the specification ---------------------------------------------------- *)
(* any permutation of the declaration order of the functions (names unique): identical tables *)
Theorem C10_function_order_is_irrelevant : forall m m2 p,
  n_periods m2 = n_periods m -> states m2 = states m -> choices m2 = choices m ->
  Permutation (functions m) (functions m2) -> NoDup (map fname (functions m)) ->
  solve_spec m2 p = solve_spec m p.
Proof. exact function_order_is_irrelevant. Qed.
Print Assumptions C10_function_order_is_irrelevant.

(* any permutation of the declaration order of the choice variables (names unique), together with *)
(* any rewriting of the function list that resolves identically by name: every entry of every     *)
(* table keeps its value (choices are no axes of the solution, so nothing is reordered)           *)
Theorem C10_choice_order_is_irrelevant : forall m m2 p,
  same_functions m m2 -> Permutation (choices m) (choices m2) -> NoDup (map fst (choices m)) ->
  forall t idx, n_periods m2 = n_periods m ->
    veq (get VUndef (nth t (solve_spec m2 p) (scalar VUndef)) idx)
        (get VUndef (nth t (solve_spec m p) (scalar VUndef)) idx).
Proof. exact choice_order_is_irrelevant. Qed.
Print Assumptions C10_choice_order_is_irrelevant.

(* the maximum depends only on the set of candidate values *)
Theorem C10_max_depends_on_the_set_of_values : forall l l' : list val,
  (forall x, In x l -> exists y, In y l' /\ veq x y) ->
  (forall y, In y l' -> exists x, In x l /\ veq y x) ->
  veq (vmaxl l) (vmaxl l').
Proof. exact vmaxl_same_values. Qed.
Print Assumptions C10_max_depends_on_the_set_of_values.

Local Open Scope string_scope.
Definition demo_a : model :=
  mkModel 2 [("w", GLin 0 2 3)] [("c", GLin 0 2 3); ("d", GDisc 2)]
    [mkUfun "utility" ["c"; "w"; "d"] (EAdd (EVar "c") (EMul (EVar "w") (EVar "d"))) false;
     mkUfun "next_w" ["w"; "c"] (ESub (EVar "w") (EVar "c")) false;
     mkUfun "budget_constraint" ["c"; "w"] (ELe (EVar "c") (EVar "w")) false].
Definition demo_b : model :=
  mkModel 2 [("w", GLin 0 2 3)] [("d", GDisc 2); ("c", GLin 0 2 3)]
    [mkUfun "budget_constraint" ["c"; "w"] (ELe (EVar "c") (EVar "w")) false;
     mkUfun "utility" ["c"; "w"; "d"] (EAdd (EVar "c") (EMul (EVar "w") (EVar "d"))) false;
     mkUfun "next_w" ["w"; "c"] (ESub (EVar "w") (EVar "c")) false].
Example C10_rewritings_nonvacuous :
  Permutation (functions demo_a) (functions demo_b) /\ NoDup (map fname (functions demo_a)) /\
  Permutation (choices demo_a) (choices demo_b) /\ NoDup (map fst (choices demo_a)) /\
  map (fun a => map vred (data a)) (solve_spec demo_a (mkParams (1 # 2) [] []))
  = map (fun a => map vred (data a)) (solve_spec demo_b (mkParams (1 # 2) [] [])) /\
  Forall (fun tab => Forall (fun v => exists q, v = VFin q) (data tab)) (solve_spec demo_a (mkParams (1 # 2) [] [])).
Proof.
  split; [|split; [|split; [|split; [|split]]]].
  - apply Permutation_sym. apply (Permutation_cons_app [_; _] []). apply Permutation_refl.
  - repeat constructor; simpl; intuition discriminate.
  - apply perm_swap.
  - repeat constructor; simpl; intuition discriminate.
  - vm_compute. reflexivity.
  - vm_compute. repeat constructor; eexists; reflexivity.
Qed.
Local Close Scope string_scope.

Example C10_nonvacuous :
  veq (vmaxl [VFin 1; VNegInf; VFin (7 # 2)]) (vmaxl [VFin (7 # 2); VFin 1; VNegInf]).
Proof.
  apply vmaxl_perm. apply Permutation_sym.
  change [VFin 1; VNegInf; VFin (7 # 2)] with ([VFin 1; VNegInf] ++ VFin (7 # 2) :: []).
  apply Permutation_cons_app. simpl. apply Permutation_refl.
Qed.

(* Properties/C10.v — equivalent model specifications yield equal solutions.                   *)
(* STATUS (partial): proved on the specification (Spec/Bellman.v) — the facts that make the      *)
(* Bellman value independent of how the model is written down: the maximum does not depend on    *)
(* the enumeration order of the choices (any declaration order of the choice variables), the     *)
(* maximum over a product of choice sets is the nested maximum (choices may be grouped as        *)
(* restricted/unrestricted/continuous in any way), admissibility depends only on the collection  *)
(* of restriction functions and not on whether each is a filter or a constraint, an always-true  *)
(* restriction is irrelevant.  lcm is tied to the specification entry by entry (C01/C05), and the *)
(* metamorphic families (permutation, renaming, true restriction, filter<->constraint) compare    *)
(* lcm with lcm on every run.  Renaming invariance is not stated as a theorem (it needs           *)
(* alpha-equivalence of the expression language); it is covered by the runs only.                 *)
From Coq Require Import Permutation.
From LCM Require Import Base.Prelude Spec.Lang Spec.Bellman.
From LCM Require Import Proofs.Spec_Algebra Proofs.Spec_Restrictions.

Theorem C10_enumeration_order_is_irrelevant : forall l l' : list val,
  Permutation l l' -> veq (vmaxl l) (vmaxl l').
Proof. exact vmaxl_perm. Qed.
Print Assumptions C10_enumeration_order_is_irrelevant.

Theorem C10_max_over_product_is_nested_max : forall (A : Type) (g : A -> list val) (l : list A),
  veq (vmaxl (flat_map g l)) (vmaxl (map (fun x => vmaxl (g x)) l)).
Proof. exact @vmaxl_flat_map. Qed.
Print Assumptions C10_max_over_product_is_nested_max.

Theorem C10_filter_or_constraint_is_irrelevant : forall m m' p p' e e',
  Permutation (map (fun f => holds m p e f) (filters m ++ constraints m))
              (map (fun f => holds m' p' e' f) (filters m' ++ constraints m')) ->
  feasible m p e = feasible m' p' e'.
Proof. exact feasible_filter_or_constraint. Qed.
Print Assumptions C10_filter_or_constraint_is_irrelevant.

Theorem C10_true_restriction_is_irrelevant : forall vals : list bool,
  forallb (fun b => b) (true :: vals) = forallb (fun b => b) vals.
Proof. exact true_restriction_is_irrelevant. Qed.
Print Assumptions C10_true_restriction_is_irrelevant.

Example C10_nonvacuous :
  veq (vmaxl [VFin 1; VNegInf; VFin (7 # 2)]) (vmaxl [VFin (7 # 2); VFin 1; VNegInf]).
Proof.
  apply vmaxl_perm. apply Permutation_sym.
  change [VFin 1; VNegInf; VFin (7 # 2)] with ([VFin 1; VNegInf] ++ VFin (7 # 2) :: []).
  apply Permutation_cons_app. simpl. apply Permutation_refl.
Qed.

(* Properties/C14.v — pre-computed values on a grid are represented as a faithful function.    *)
(* Model/FunctionRepresentation.v is the mechanistic hand model of                              *)
(* function_representation.get_function_representation (tied by family function_representation); *)
(* it is built on the REGENERATED kernels get_linspace_coordinate and map_coordinates' kernel.    *)
From LCM Require Import Base.Prelude Base.Arr Base.QKernel Gen.GridHelpersQ Spec.Interp.
From LCM Require Import Model.Ndimage Model.FunctionRepresentation.
From LCM Require Import Proofs.C14_FunRep Proofs.C15_Lin.
Local Open Scope Q_scope.

(* 1. the value is the multilinear interpolant, in the continuous variables, of the sub-array
      selected by the discrete labels (through the indexer for restricted states) *)
Theorem C14_funrep_is_interpolation_of_selected : forall vf indexer rlabels dlabels conts,
  conts <> [] -> length conts = length (cont_shape vf indexer rlabels dlabels) ->
  Forall (fun n => (2 <= n)%nat) (cont_shape vf indexer rlabels dlabels) ->
  function_representation vf indexer rlabels dlabels conts
  == interp (get 0 (selected vf indexer rlabels dlabels)) (cont_shape vf indexer rlabels dlabels)
            (coords conts).
Proof. exact funrep_is_interpolation. Qed.
Print Assumptions C14_funrep_is_interpolation_of_selected.

Theorem C14_selected_entries : forall vf indexer rlabels dlabels idx,
  in_bounds (cont_shape vf indexer rlabels dlabels) idx ->
  get 0 (selected vf indexer rlabels dlabels) idx
  = get 0 vf (positions vf indexer rlabels dlabels ++ idx).
Proof. exact selected_entries. Qed.
Print Assumptions C14_selected_entries.

(* labels of the grid select exactly their own positions (no wrap-around, no clamping) *)
Theorem C14_valid_labels_select_their_positions : forall (vf : arr Q) (labels : list Z),
  Forall2 (fun n i => (0 <= i < Z.of_nat n)%Z) (firstn (length labels) (shape vf)) labels ->
  jax_positions (shape vf) labels = map Z.to_nat labels.
Proof. exact positions_of_valid_labels. Qed.
Print Assumptions C14_valid_labels_select_their_positions.

(* 2. stored values are reproduced at grid nodes *)
Theorem C14_reproduces_nodes : forall vf indexer rlabels dlabels conts idx,
  conts <> [] -> length conts = length (cont_shape vf indexer rlabels dlabels) ->
  Forall (fun n => (2 <= n)%nat) (cont_shape vf indexer rlabels dlabels) ->
  in_bounds (cont_shape vf indexer rlabels dlabels) idx -> coords conts = map Qofnat idx ->
  function_representation vf indexer rlabels dlabels conts
  == get 0 vf (positions vf indexer rlabels dlabels ++ idx).
Proof. intros vf ix rl dl conts idx H1 H2 H3. exact (funrep_reproduces_nodes vf ix rl dl conts H1 H2 H3 idx). Qed.
Print Assumptions C14_reproduces_nodes.

(* ... and the coordinate of the i-th grid point of a linear grid is i *)
Theorem C14_node_coordinate : forall a b n i, a < b -> (2 <= n)%nat ->
  get_linspace_coordinate (lin_point a b n i) a b (Z.of_nat n) == i.
Proof. exact lin_coord_of_point. Qed.
Print Assumptions C14_node_coordinate.

(* 3. linear in each continuous variable between neighbouring nodes, and the outermost segment
      continues linearly outside a linear grid: on the cell of coordinate c the interpolant is
      A + (c - lo) (B - A) with A, B the interpolants of the two neighbouring slices *)
Theorem C14_affine_on_cell : forall f n sh c cs,
  interp f (n :: sh) (c :: cs) ==
  interp (fun idx => f (cell_lo c n :: idx)) sh cs
  + (c - inject_Z (Z.of_nat (cell_lo c n)))
    * (interp (fun idx => f (S (cell_lo c n) :: idx)) sh cs - interp (fun idx => f (cell_lo c n :: idx)) sh cs).
Proof. intros. cbn [interp]. unfold cell_w. ring. Qed.
Print Assumptions C14_affine_on_cell.

Theorem C14_outermost_cells_extend : forall n c, (2 <= n)%nat ->
  (c < 1 -> cell_lo c n = 0%nat) /\ (Qofnat n - 2 <= c -> cell_lo c n = (n - 2)%nat).
Proof. intros n c H. split; [now apply cell_lo_below|now apply cell_lo_above]. Qed.
Print Assumptions C14_outermost_cells_extend.

Theorem C14_coordinate_is_affine_in_the_value : forall a b n v, a < b -> (2 <= n)%nat ->
  get_linspace_coordinate v a b (Z.of_nat n) == (v - a) * (Qofnat n - 1) / (b - a).
Proof. exact lin_coord_is_spec. Qed.
Print Assumptions C14_coordinate_is_affine_in_the_value.

Local Open Scope string_scope.
Example C14_nonvacuous :
  let vf := mkArr [2; 2; 3]%nat [0; 1; 2; 10; 11; 12; 100; 101; 102; 110; 111; 112] in
  let ix := mkArr [3]%nat [-1; 0; 1]%Z in
  Qeq_bool (function_representation vf (Some ix) [2%Z] [1%Z] [mkCont 0 4 3 3]) (223 # 2) = true /\
  interpolation_axes_are_last ["state_index"; "h"; "w"] ["w"] = true /\
  interpolation_axes_are_last ["w"; "h"] ["w"] = false.
Proof. vm_compute. repeat split. Qed.

(* ---- refinement: the function representation computes the specification's read of V_{t+1} ------- *)
From LCM Require Import Spec.Lang Spec.Bellman Proofs.C14_Refine.
(* For the states of the next period in declaration order (sts), a finite table F indexed in that      *)
(* order, and next-state values vals with valid discrete labels: if the array vf holds the table in the  *)
(* documented layout (Hlayout: C05's contract, after indexing with the state index and the discrete       *)
(* labels the remaining axes are the continuous states), then the function representation evaluated at    *)
(* the continuous axes of sts/vals is the value q that the specification's vread returns.                 *)
Theorem C14_function_representation_refines_the_specifications_read :
  forall (sts : list (string * grid)) (F : list nat -> Q) (vals : list Q) (q : Q) (dl : list nat)
         (vf : arr Q) (indexer : option (arr Z)) (rlabels dlabels : list Z),
  grids_valid sts -> length vals = length sts ->
  qread sts F vals = Some q -> disc_labels sts vals = Some dl ->
  conts_of sts vals <> [] ->
  cont_shape vf indexer rlabels dlabels = cont_sizes sts ->
  (forall cidx, in_bounds (cont_sizes sts) cidx ->
     get 0 vf (positions vf indexer rlabels dlabels ++ cidx) == F (merge sts dl cidx)) ->
  vread sts (fun idx => VFin (F idx)) vals = VFin q /\
  function_representation vf indexer rlabels dlabels (conts_of sts vals) == q.
Proof. exact function_representation_is_vread. Qed.
Print Assumptions C14_function_representation_refines_the_specifications_read.

Theorem C14_function_representation_refines_the_specifications_read_discrete :
  forall (sts : list (string * grid)) (F : list nat -> Q) (vals : list Q) (q : Q) (dl : list nat)
         (vf : arr Q) (indexer : option (arr Z)) (rlabels dlabels : list Z),
  qread sts F vals = Some q -> disc_labels sts vals = Some dl -> cont_sizes sts = [] ->
  cont_shape vf indexer rlabels dlabels = [] ->
  get 0 vf (positions vf indexer rlabels dlabels) == F (merge sts dl []) ->
  function_representation vf indexer rlabels dlabels (conts_of sts vals) == q.
Proof. exact function_representation_discrete_only. Qed.
Print Assumptions C14_function_representation_refines_the_specifications_read_discrete.

(* the specification's read on a finite table IS qread *)
Theorem C14_specification_read_on_finite_tables : forall sts F vals,
  vread sts (fun idx => VFin (F idx)) vals = match qread sts F vals with Some q => VFin q | None => VUndef end.
Proof. exact vread_finite. Qed.
Print Assumptions C14_specification_read_on_finite_tables.

(* capstone: on THE array that stores a finite table in the documented layout (discrete states first, *)
(* then continuous states, each group in declaration order; no indexer = no filter-restricted state),  *)
(* called with the discrete labels and the continuous axes of the next state, the function             *)
(* representation returns exactly the value the specification's read returns -- no layout hypothesis    *)
From LCM Require Import Proofs.C14_OnLayout.
Theorem C14_function_representation_on_the_layout_array_is_the_specifications_read :
  forall (sts : list (string * grid)) (F : list nat -> Q) (vals : list Q) (q : Q) (dl : list nat),
  grids_valid sts -> length vals = length sts ->
  qread sts F vals = Some q -> disc_labels sts vals = Some dl ->
  vread sts (fun idx => VFin (F idx)) vals = VFin q /\
  function_representation (layout_array sts F) None [] (map Z.of_nat dl) (conts_of sts vals) == q.
Proof. exact function_representation_on_the_layout_array. Qed.
Print Assumptions C14_function_representation_on_the_layout_array_is_the_specifications_read.

(* capstone with filter-restricted states: the array stores the table as [rank of the restricted-state  *)
(* combination among the remaining ones] ++ unrestricted discrete states ++ continuous states, the        *)
(* indexer maps restricted labels to that rank (-1 for combinations that do not remain); called with the   *)
(* next state's restricted labels, unrestricted discrete labels and continuous axes, the function           *)
(* representation returns the value the specification's read returns, provided the next state's            *)
(* restricted combination remains (the supported class of C01)                                              *)
From LCM Require Import Proofs.C14_OnLayoutIx.
Theorem C14_function_representation_on_the_indexed_layout_is_the_specifications_read :
  forall (isr : string -> bool) (remaining : list (list nat))
         (sts : list (string * grid)) (F : list nat -> Q) (vals : list Q) (q : Q) (dl_all : list nat),
  grids_valid sts -> length vals = length sts ->
  qread sts F vals = Some q -> disc_labels sts vals = Some dl_all ->
  In (fst (split_labels isr sts dl_all)) remaining ->
  vread sts (fun idx => VFin (F idx)) vals = VFin q /\
  function_representation (layout_array_ix isr remaining sts F) (Some (indexer_array isr remaining sts))
                          (map Z.of_nat (fst (split_labels isr sts dl_all)))
                          (map Z.of_nat (snd (split_labels isr sts dl_all))) (conts_of sts vals) == q.
Proof. exact function_representation_on_the_indexed_layout. Qed.
Print Assumptions C14_function_representation_on_the_indexed_layout_is_the_specifications_read.

(* ---- the indexer assumed above IS the one the state-space code builds ------------------------------------------------------ *)
From LCM Require Import Model.StateSpace Proofs.C17_StateSpace Proofs.C17_IndexerTie.
(* when the remaining restricted-state combinations are those with a filter-passing choice combination (C17), the indexer of   *)
(* the theorem above is the array create_indexers_and_segments returns on the filter mask (C17's model): rank among the         *)
(* remaining combinations, -1 elsewhere                                                                                         *)
Theorem C14_indexer_of_the_capstone_is_the_state_space_indexer :
  forall (isr : string -> bool) (sts : list (string * grid)) (mask : arr bool) (n : nat),
  rsizes isr sts = state_shape_of mask n ->
  indexer_array isr (feasible_states mask n) sts = state_indexer (create_indexers_and_segments mask n).
Proof. exact indexer_of_the_capstone_is_the_codes. Qed.
Print Assumptions C14_indexer_of_the_capstone_is_the_state_space_indexer.

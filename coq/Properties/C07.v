(* Properties/C07.v — the parameter template is complete and parameters are routed by function *)
(* name.  Model/ParamsTemplate.v is the hand model of create_params_template (tied by family    *)
(* `template`); routing is proved on Spec.Lang.eval_fun, the evaluation by name that lcm.solve   *)
(* and simulate are compared with on every run (colliding parameter names with distinct values). *)
From LCM Require Import Base.Prelude Spec.Lang Spec.Bellman Spec.Layout Model.ParamsTemplate Proofs.C07_Params.
Local Open Scope string_scope.

Theorem C07_template_keys : forall m,
  template_keys m = ("beta" :: map fname (functions m) ++ (if has_stochastic m then ["shocks"] else []))%list.
Proof. reflexivity. Qed.
Print Assumptions C07_template_keys.

Theorem C07_function_entry_is_exactly_the_free_arguments : forall m f pn,
  In pn (function_params m f) <->
  In pn (fargs f) /\ ~ In pn (map fname (functions m)) /\ ~ In pn (map fst (choices m)) /\
  ~ In pn (map fst (states m)) /\ pn <> period_name.
Proof. exact function_params_exact. Qed.
Print Assumptions C07_function_entry_is_exactly_the_free_arguments.

Theorem C07_shock_shape : forall m s f g dims,
  find_fun m ("next_" ++ s) = Some f -> grid_of m s = Some g ->
  omap (fun d => if String.eqb d period_name then Some (n_periods m)
                 else match grid_of m d with Some gd => Some (grid_size gd) | None => None end) (fargs f) = Some dims ->
  shock_shape m s = Some (dims ++ [grid_size g])%list.
Proof. intros m s f g dims Hf Hg Hd. unfold shock_shape. rewrite Hf. cbn [obind]. rewrite Hg. cbn [obind]. now rewrite Hd. Qed.
Print Assumptions C07_shock_shape.

(* every function receives exactly the values stored under its own name (and, through the DAG,
   the functions it calls receive theirs) *)
Theorem C07_routing_by_function_name : forall fuel m p p' e name,
  agree_on p p' (name :: ancestors fuel m name) ->
  eval_fun fuel m p e name = eval_fun fuel m p' e name.
Proof. exact eval_fun_reads_only_own_and_called_parameters. Qed.
Print Assumptions C07_routing_by_function_name.

Theorem C07_equal_names_never_interact : forall fuel m p p' e name g,
  (forall fn pn, fn <> g -> par p fn pn = par p' fn pn) ->
  name <> g -> ~ In g (ancestors fuel m name) ->
  eval_fun fuel m p e name = eval_fun fuel m p' e name.
Proof. exact no_interference. Qed.
Print Assumptions C07_equal_names_never_interact.

Theorem C07_beta_is_the_only_discount_factor : forall m p vnext e u c,
  eval_fun (depth m) m p e "utility" = Some u -> continuation m p vnext e = VFin c ->
  objective m p false vnext e = VFin (u + beta p * c)%Q.
Proof. exact beta_enters_once. Qed.
Print Assumptions C07_beta_is_the_only_discount_factor.

Example C07_nonvacuous :
  let m := mkModel 2 [("h", GDisc 2)] [("c", GDisc 3)]
             [mkUfun "utility" ["c"; "h"; "scale"; "a"] (EVar "c") false;
              mkUfun "next_h" ["c"; "_period"; "h"] (EConst 0) true] in
  function_params m (mkUfun "utility" ["c"; "h"; "scale"; "a"] (EVar "c") false) = ["a"; "scale"] /\
  template_keys m = ["beta"; "utility"; "next_h"; "shocks"] /\
  shock_shape m "h" = Some [3; 2; 2; 2]%nat.
Proof. vm_compute. repeat split. Qed.

(* ---- about the regenerated template construction (Gen/ParamsTemplateGen.v) ---------------------- *)
From LCM Require Import Gen.ParamsTemplateGen Proofs.C07_TemplateGen.
(* _create_function_params computes, for every function in declaration order, exactly the entry    *)
(* characterised above; the dimensions computed in _create_stochastic_transition_params are the      *)
(* shape characterised above                                                                          *)
Theorem C07_code_function_entries : forall m,
  gen_function_params m = map (fun f => (fname f, function_params m f)) (functions m).
Proof. exact gen_function_params_is_model. Qed.
Print Assumptions C07_code_function_entries.

Theorem C07_code_shock_dimensions : forall m s f,
  find_fun m ("next_" ++ s) = Some f -> gen_shock_dimensions m s (fargs f) = shock_shape m s.
Proof. exact gen_shock_dimensions_is_model. Qed.
Print Assumptions C07_code_shock_dimensions.

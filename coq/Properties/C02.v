(* Properties/C02.v — simulated decisions are feasible maximisers of the agent's objective.   *)
(* STATUS (partial): theorems about the specification used as the row oracle (for ANY state,  *)
(* on or off the grid, and ANY next-period table): the oracle's maximum is the maximum over    *)
(* exactly the admissible grid choices, so a reported choice that is admissible and whose      *)
(* objective equals that maximum is a maximiser.  lcm.simulate is tied to the oracle row by    *)
(* row on every run (family simulate_vs_spec); the arg-max machinery it uses is C18.           *)
From LCM Require Import Base.Prelude Base.Arr Spec.Lang Spec.Bellman.
From LCM Require Import Proofs.ArrLemmas2 Proofs.Spec_Bellman.

Theorem C02_oracle_maximum_is_max_over_admissible : forall m p t last vnext sigma,
  (forall gamma, In gamma (choice_set m) -> defined (cand m p t last vnext sigma gamma)) ->
  let V := value_at m p t last vnext sigma in
  defined V /\
  (forall gamma, In gamma (choice_set m) -> feasible m p (env_of_choice t sigma gamma) = true ->
                 vle (objective m p last vnext (env_of_choice t sigma gamma)) V) /\
  (V = VNegInf \/
   exists gamma, In gamma (choice_set m) /\ feasible m p (env_of_choice t sigma gamma) = true /\
                 objective m p last vnext (env_of_choice t sigma gamma) = V).
Proof. exact value_is_max_over_admissible. Qed.
Print Assumptions C02_oracle_maximum_is_max_over_admissible.

(* the criterion applied to every simulated row *)
Theorem C02_accepted_row_is_feasible_maximiser : forall m p t last vnext sigma gamma,
  (forall g, In g (choice_set m) -> defined (cand m p t last vnext sigma g)) ->
  In gamma (choice_set m) -> feasible m p (env_of_choice t sigma gamma) = true ->
  objective m p last vnext (env_of_choice t sigma gamma) = value_at m p t last vnext sigma ->
  forall gamma', In gamma' (choice_set m) -> feasible m p (env_of_choice t sigma gamma') = true ->
    vle (objective m p last vnext (env_of_choice t sigma gamma'))
        (objective m p last vnext (env_of_choice t sigma gamma)).
Proof.
  intros m p t last vnext sigma gamma Hd Hin Hf E gamma' Hin' Hf'. rewrite E.
  exact (proj1 (proj2 (value_is_max_over_admissible m p t last vnext sigma Hd)) gamma' Hin' Hf').
Qed.
Print Assumptions C02_accepted_row_is_feasible_maximiser.

(* ---- about the regenerated forward loop of lcm.simulate.simulate (Gen/Simulate.v) ---------------- *)
From LCM Require Import Model.RandomChoice Gen.Simulate Proofs.C04_SimulateLoop.
(* the decision recorded for period t is taken at the states the agents are in at t, with period t's *)
(* own grids, policy function and state indexers, and with the solved array of period t+1 (none in    *)
(* the last period) -- for arbitrary decision procedures and components                               *)
Theorem C02_code_decision_of_period_uses_its_own_components_and_the_next_array : forall (E : sim_env) t d,
  (t < sim_n_periods E)%nat ->
  nth t (sim_results E) d
  = (fst (sim_decision E (fst (sim_at E t)) t), snd (sim_decision E (fst (sim_at E t)) t), fst (sim_at E t)).
Proof. exact bundled_result_of_period. Qed.
Print Assumptions C02_code_decision_of_period_uses_its_own_components_and_the_next_array.

Theorem C02_code_lookup_array_is_the_next_periods : forall (E : sim_env),
  (forall t d, (S t < length (sim_solved E))%nat -> nth t (sim_lookup E) None = Some (nth (S t) (sim_solved E) d)) /\
  (sim_solved E <> nil -> nth (length (sim_solved E) - 1) (sim_lookup E) None = None) /\
  (sim_solved E <> nil -> sim_n_periods E = length (sim_solved E)).
Proof.
  intros E. split; [exact (bundled_lookup_next E)|split; [exact (bundled_no_lookup_last E)|exact (bundled_n_periods E)]].
Qed.
Print Assumptions C02_code_lookup_array_is_the_next_periods.

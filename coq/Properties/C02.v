(* Properties/C02.v — simulated decisions are feasible maximisers of the agent's objective.   *)
(* STATUS (partial): theorems about the specification used as the row oracle (for ANY state,  *)
(* on or off the grid, and ANY next-period table): the oracle's maximum is the maximum over    *)
(* exactly the admissible grid choices, so a reported choice that is admissible and whose      *)
(* objective equals that maximum is a maximiser.  lcm.simulate is tied to the oracle row by    *)
(* row on every run (family simulate_vs_spec); the arg-max machinery it uses is C18.           *)
From LCM Require Import Base.Prelude Base.Arr Spec.Lang Spec.Bellman.
From LCM Require Import Proofs.ArrLemmas2 Proofs.Spec_Bellman.

Theorem C02_oracle_maximum_is_max_over_admissible : forall m p t last vnext sigma,
  (forall gamma, In gamma (choice_set m) -> defined (cand m p t last vnext sigma gamma)) ->
  let V := value_at m p t last vnext sigma in
  defined V /\
  (forall gamma, In gamma (choice_set m) -> feasible m p (env_of_choice t sigma gamma) = true ->
                 vle (objective m p last vnext (env_of_choice t sigma gamma)) V) /\
  (V = VNegInf \/
   exists gamma, In gamma (choice_set m) /\ feasible m p (env_of_choice t sigma gamma) = true /\
                 objective m p last vnext (env_of_choice t sigma gamma) = V).
Proof. exact value_is_max_over_admissible. Qed.
Print Assumptions C02_oracle_maximum_is_max_over_admissible.

(* the criterion applied to every simulated row *)
Theorem C02_accepted_row_is_feasible_maximiser : forall m p t last vnext sigma gamma,
  (forall g, In g (choice_set m) -> defined (cand m p t last vnext sigma g)) ->
  In gamma (choice_set m) -> feasible m p (env_of_choice t sigma gamma) = true ->
  objective m p last vnext (env_of_choice t sigma gamma) = value_at m p t last vnext sigma ->
  forall gamma', In gamma' (choice_set m) -> feasible m p (env_of_choice t sigma gamma') = true ->
    vle (objective m p last vnext (env_of_choice t sigma gamma'))
        (objective m p last vnext (env_of_choice t sigma gamma)).
Proof.
  intros m p t last vnext sigma gamma Hd Hin Hf E gamma' Hin' Hf'. rewrite E.
  exact (proj1 (proj2 (value_is_max_over_admissible m p t last vnext sigma Hd)) gamma' Hin' Hf').
Qed.
Print Assumptions C02_accepted_row_is_feasible_maximiser.

(* Properties/C02.v — simulated decisions are feasible maximisers of the agent's objective.   *)
(* STATUS (partial): theorems about the specification used as the row oracle (for ANY state,  *)
(* on or off the grid, and ANY next-period table): the oracle's maximum is the maximum over    *)
(* exactly the admissible grid choices, so a reported choice that is admissible and whose      *)
(* objective equals that maximum is a maximiser.  lcm.simulate is tied to the oracle row by    *)
(* row on every run (family simulate_vs_spec); the arg-max machinery it uses is C18.           *)
From LCM Require Import Base.Prelude Base.Arr Spec.Lang Spec.Bellman.
From LCM Require Import Proofs.ArrLemmas2 Proofs.Spec_Bellman.

Theorem C02_oracle_maximum_is_max_over_admissible : forall m p t last vnext sigma,
  (forall gamma, In gamma (choice_set m) -> defined (cand m p t last vnext sigma gamma)) ->
  let V := value_at m p t last vnext sigma in
  defined V /\
  (forall gamma, In gamma (choice_set m) -> feasible m p (env_of_choice t sigma gamma) = true ->
                 vle (objective m p last vnext (env_of_choice t sigma gamma)) V) /\
  (V = VNegInf \/
   exists gamma, In gamma (choice_set m) /\ feasible m p (env_of_choice t sigma gamma) = true /\
                 objective m p last vnext (env_of_choice t sigma gamma) = V).
Proof. exact value_is_max_over_admissible. Qed.
Print Assumptions C02_oracle_maximum_is_max_over_admissible.

(* the criterion applied to every simulated row *)
Theorem C02_accepted_row_is_feasible_maximiser : forall m p t last vnext sigma gamma,
  (forall g, In g (choice_set m) -> defined (cand m p t last vnext sigma g)) ->
  In gamma (choice_set m) -> feasible m p (env_of_choice t sigma gamma) = true ->
  objective m p last vnext (env_of_choice t sigma gamma) = value_at m p t last vnext sigma ->
  forall gamma', In gamma' (choice_set m) -> feasible m p (env_of_choice t sigma gamma') = true ->
    vle (objective m p last vnext (env_of_choice t sigma gamma'))
        (objective m p last vnext (env_of_choice t sigma gamma)).
Proof.
  intros m p t last vnext sigma gamma Hd Hin Hf E gamma' Hin' Hf'. rewrite E.
  exact (proj1 (proj2 (value_is_max_over_admissible m p t last vnext sigma Hd)) gamma' Hin' Hf').
Qed.
Print Assumptions C02_accepted_row_is_feasible_maximiser.

(* ---- about the regenerated forward loop of lcm.simulate.simulate (Gen/Simulate.v) ---------------- *)
From LCM Require Import Model.RandomChoice Gen.Simulate Proofs.C04_SimulateLoop.
(* the decision recorded for period t is taken at the states the agents are in at t, with period t's *)
(* own grids, policy function and state indexers, and with the solved array of period t+1 (none in    *)
(* the last period) -- for arbitrary decision procedures and components                               *)
Theorem C02_code_decision_of_period_uses_its_own_components_and_the_next_array : forall (E : sim_env) t d,
  (t < sim_n_periods E)%nat ->
  nth t (sim_results E) d
  = (fst (sim_decision E (fst (sim_at E t)) t), snd (sim_decision E (fst (sim_at E t)) t), fst (sim_at E t)).
Proof. exact bundled_result_of_period. Qed.
Print Assumptions C02_code_decision_of_period_uses_its_own_components_and_the_next_array.

Theorem C02_code_lookup_array_is_the_next_periods : forall (E : sim_env),
  (forall t d, (S t < length (sim_solved E))%nat -> nth t (sim_lookup E) None = Some (nth (S t) (sim_solved E) d)) /\
  (sim_solved E <> nil -> nth (length (sim_solved E) - 1) (sim_lookup E) None = None) /\
  (sim_solved E <> nil -> sim_n_periods E = length (sim_solved E)).
Proof.
  intros E. split; [exact (bundled_lookup_next E)|split; [exact (bundled_no_lookup_last E)|exact (bundled_n_periods E)]].
Qed.
Print Assumptions C02_code_lookup_array_is_the_next_periods.

(* ---- about the regenerated index kernels of simulate (Gen/SimulateKernels.v) --------------------- *)
From LCM Require Import Gen.ChoiceAxes Gen.SimulateKernels Proofs.C02_SimKernels.
(* the choice of variable j reported for row i is the grid point whose index is the j-th component of  *)
(* the row-major multi-index of row i's flat arg-max position; so if the arg-max position is that of     *)
(* the multi-index idx, the reported choices are the grid points idx (dense and continuous choices)      *)
Theorem C02_code_reported_choice_is_the_grid_point_of_the_argmax_position :
  forall (indices : list nat) (grids : list (string * list Q)) (grid_shape idx : list nat) j i d,
  (j < length grids)%nat -> (i < length indices)%nat -> in_bounds grid_shape idx ->
  nth i indices 0%nat = ravel grid_shape idx ->
  nth i (snd (nth j (retrieve_non_sparse_choices (Some indices) grids grid_shape) d)) 0%Q
  = nth (nth j idx 0%nat) (snd (nth j grids d)) 0%Q.
Proof. exact retrieved_choice_at_a_multi_index. Qed.
Print Assumptions C02_code_reported_choice_is_the_grid_point_of_the_argmax_position.

(* the continuous arg-max position of a row is read at the multi-index of that row's dense arg-max *)
Theorem C02_code_continuous_argmax_is_that_of_the_chosen_discrete_combination :
  forall (ccv_policy : arr nat) (dense_argmax : nat) (dense_shape r : list nat),
  in_bounds (skipn (length (unravel dense_shape dense_argmax)) (shape ccv_policy)) r ->
  get 0%nat (filter_ccv_policy_row ccv_policy (Some dense_argmax) dense_shape) r
  = get 0%nat ccv_policy (unravel dense_shape dense_argmax ++ r)%list.
Proof. exact filtered_policy_is_the_policy_of_the_chosen_dense_combination. Qed.
Print Assumptions C02_code_continuous_argmax_is_that_of_the_chosen_discrete_combination.

(* in the data state-choice space the unfiltered discrete choices are the axes 1..k *)
Theorem C02_code_discrete_choice_axes_of_the_data_space : forall vi : list varinfo,
  let k := length (filter (fun v => negb (is_continuous v) && is_dense v && is_choice v) vi) in
  SimulateKernels.determine_discrete_dense_choice_axes vi = match k with O => None | _ => Some (seq 1 k) end.
Proof. exact simulate_choice_axes. Qed.
Print Assumptions C02_code_discrete_choice_axes_of_the_data_space.

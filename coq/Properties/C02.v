(* Properties/C02.v — simulated decisions are feasible maximisers of the agent's objective.   *)
(* STATUS (partial): theorems about the specification used as the row oracle (for ANY state,  *)
(* on or off the grid, and ANY next-period table): the oracle's maximum is the maximum over    *)
(* exactly the admissible grid choices, so a reported choice that is admissible and whose      *)
(* objective equals that maximum is a maximiser.  lcm.simulate is tied to the oracle row by    *)
(* row on every run (family simulate_vs_spec); the arg-max machinery it uses is C18.           *)
From LCM Require Import Base.Prelude Base.Arr Spec.Lang Spec.Bellman.
From LCM Require Import Proofs.ArrLemmas2 Proofs.Spec_Bellman.

Theorem C02_oracle_maximum_is_max_over_admissible : forall m p t last vnext sigma,
  (forall gamma, In gamma (choice_set m) -> defined (cand m p t last vnext sigma gamma)) ->
  let V := value_at m p t last vnext sigma in
  defined V /\
  (forall gamma, In gamma (choice_set m) -> feasible m p (env_of_choice t sigma gamma) = true ->
                 vle (objective m p last vnext (env_of_choice t sigma gamma)) V) /\
  (V = VNegInf \/
   exists gamma, In gamma (choice_set m) /\ feasible m p (env_of_choice t sigma gamma) = true /\
                 objective m p last vnext (env_of_choice t sigma gamma) = V).
Proof. exact value_is_max_over_admissible. Qed.
Print Assumptions C02_oracle_maximum_is_max_over_admissible.

(* the criterion applied to every simulated row *)
Theorem C02_accepted_row_is_feasible_maximiser : forall m p t last vnext sigma gamma,
  (forall g, In g (choice_set m) -> defined (cand m p t last vnext sigma g)) ->
  In gamma (choice_set m) -> feasible m p (env_of_choice t sigma gamma) = true ->
  objective m p last vnext (env_of_choice t sigma gamma) = value_at m p t last vnext sigma ->
  forall gamma', In gamma' (choice_set m) -> feasible m p (env_of_choice t sigma gamma') = true ->
    vle (objective m p last vnext (env_of_choice t sigma gamma'))
        (objective m p last vnext (env_of_choice t sigma gamma)).
Proof.
  intros m p t last vnext sigma gamma Hd Hin Hf E gamma' Hin' Hf'. rewrite E.
  exact (proj1 (proj2 (value_is_max_over_admissible m p t last vnext sigma Hd)) gamma' Hin' Hf').
Qed.
Print Assumptions C02_accepted_row_is_feasible_maximiser.

(* ---- about the regenerated forward loop of lcm.simulate.simulate (Gen/Simulate.v) ---------------- *)
From LCM Require Import Model.RandomChoice Gen.Simulate Proofs.C04_SimulateLoop.
(* the decision recorded for period t is taken at the states the agents are in at t, with period t's *)
(* own grids, policy function and state indexers, and with the solved array of period t+1 (none in    *)
(* the last period) -- for arbitrary decision procedures and components                               *)
Theorem C02_code_decision_of_period_uses_its_own_components_and_the_next_array : forall (E : sim_env) t d,
  (t < sim_n_periods E)%nat ->
  nth t (sim_results E) d
  = (fst (sim_decision E (fst (sim_at E t)) t), snd (sim_decision E (fst (sim_at E t)) t), fst (sim_at E t)).
Proof. exact bundled_result_of_period. Qed.
Print Assumptions C02_code_decision_of_period_uses_its_own_components_and_the_next_array.

Theorem C02_code_lookup_array_is_the_next_periods : forall (E : sim_env),
  (forall t d, (S t < length (sim_solved E))%nat -> nth t (sim_lookup E) None = Some (nth (S t) (sim_solved E) d)) /\
  (sim_solved E <> nil -> nth (length (sim_solved E) - 1) (sim_lookup E) None = None) /\
  (sim_solved E <> nil -> sim_n_periods E = length (sim_solved E)).
Proof.
  intros E. split; [exact (bundled_lookup_next E)|split; [exact (bundled_no_lookup_last E)|exact (bundled_n_periods E)]].
Qed.
Print Assumptions C02_code_lookup_array_is_the_next_periods.

(* ---- about the regenerated index kernels of simulate (Gen/SimulateKernels.v) --------------------- *)
From LCM Require Import Gen.ChoiceAxes Gen.SimulateKernels Proofs.C02_SimKernels.
(* the choice of variable j reported for row i is the grid point whose index is the j-th component of  *)
(* the row-major multi-index of row i's flat arg-max position; so if the arg-max position is that of     *)
(* the multi-index idx, the reported choices are the grid points idx (dense and continuous choices)      *)
Theorem C02_code_reported_choice_is_the_grid_point_of_the_argmax_position :
  forall (indices : list nat) (grids : list (string * list Q)) (grid_shape idx : list nat) j i d,
  (j < length grids)%nat -> (i < length indices)%nat -> in_bounds grid_shape idx ->
  nth i indices 0%nat = ravel grid_shape idx ->
  nth i (snd (nth j (retrieve_non_sparse_choices (Some indices) grids grid_shape) d)) 0%Q
  = nth (nth j idx 0%nat) (snd (nth j grids d)) 0%Q.
Proof. exact retrieved_choice_at_a_multi_index. Qed.
Print Assumptions C02_code_reported_choice_is_the_grid_point_of_the_argmax_position.

(* the continuous arg-max position of a row is read at the multi-index of that row's dense arg-max *)
Theorem C02_code_continuous_argmax_is_that_of_the_chosen_discrete_combination :
  forall (ccv_policy : arr nat) (dense_argmax : nat) (dense_shape r : list nat),
  in_bounds (skipn (length (unravel dense_shape dense_argmax)) (shape ccv_policy)) r ->
  get 0%nat (filter_ccv_policy_row ccv_policy (Some dense_argmax) dense_shape) r
  = get 0%nat ccv_policy (unravel dense_shape dense_argmax ++ r)%list.
Proof. exact filtered_policy_is_the_policy_of_the_chosen_dense_combination. Qed.
Print Assumptions C02_code_continuous_argmax_is_that_of_the_chosen_discrete_combination.

(* in the data state-choice space the unfiltered discrete choices are the axes 1..k *)
Theorem C02_code_discrete_choice_axes_of_the_data_space : forall vi : list varinfo,
  let k := length (filter (fun v => negb (is_continuous v) && is_dense v && is_choice v) vi) in
  SimulateKernels.determine_discrete_dense_choice_axes vi = match k with O => None | _ => Some (seq 1 k) end.
Proof. exact simulate_choice_axes. Qed.
Print Assumptions C02_code_discrete_choice_axes_of_the_data_space.

(* ---- ONE SIMULATED DECISION OF THE CODE IS A MAXIMISER OF THE SPECIFICATION'S OBJECTIVE ------------------------ *)
From Coq Require Import Permutation.
From LCM Require Import Base.ArrOps Model.DispatchersG Gen.Argmax Proofs.C14_Refine Proofs.C01_MaxCompose Proofs.C01_Period
                        Proofs.C02_ArgmaxAll Proofs.C02_Decision.
(* the regenerated argmax (Gen/Argmax.v) over a trailing block of axes, with or without mask and initial value:    *)
(* the value is the masked maximum of the block in row-major order, the position the first row-major position of   *)
(* an unmasked entry that attains it (used for compute_ccv_policy: all axes, mask = feasibility, initial -inf;      *)
(* and for _calculate_discrete_argmax: axes 1..k, no mask)                                                          *)
Theorem C02_code_argmax_over_trailing_axes :
  forall (a : arr val) (initial : option val) (w : option (arr bool)) (r : nat),
  match w with Some w0 => shape w0 = shape a | None => True end -> (r <= length (shape a))%nat ->
  forall outer, in_bounds (firstn r (shape a)) outer ->
  let res := argmax a (Some (seq r (length (shape a) - r))) initial w in
  get VUndef (snd res) outer = block_max a initial w r outer /\
  get 0%nat (fst res) outer
  = first_true (map (fun k => veqb_num (entry_ a r outer k) (block_max a initial w r outer) && okk_ a w r outer k)
                    (seq 0 (size (skipn r (shape a))))).
Proof.
  intros a initial w r Hw Hr outer Ho. split.
  - exact (argmax_trailing_value a initial w r Hw Hr outer Ho).
  - exact (argmax_trailing_position a initial w r Hw Hr outer Ho).
Qed.
Print Assumptions C02_code_argmax_over_trailing_axes.

(* For a model without filter-restricted variables and ANY states of the agents (one column per state variable,    *)
(* one row per agent; on or off the grid): what one period of simulate computes -- compute_ccv_policy (regenerated) *)
(* on utility_and_feasibility (the regenerated u_and_f) product-mapped over the continuous choice grids; the space   *)
(* map of it, jointly over the agents' rows first, then over the dense discrete choice grids; the regenerated        *)
(* _calculate_discrete_argmax over the choice axes 1..k (none without a dense discrete choice); the regenerated      *)
(* filter_ccv_policy reading the continuous arg-max at the chosen discrete combination -- gives for EVERY agent:     *)
(*  (1) a value that is the specification's value_at of the agent's state (the maximum over all admissible grid      *)
(*      choices of utility + beta * expected interpolated next value);                                              *)
(*  (2) unless that is -inf, choice indices inside the grids whose choice passes all filters and constraints and      *)
(*      whose objective IS that value.                                                                              *)
Theorem C02_simulated_decision_of_the_code_is_a_feasible_maximiser :
  forall (m : model) (p : params) (t : nat) (F : list nat -> Q) (dst dch cst cch : list (string * grid)),
  Permutation (dch ++ cch) (choices m) -> NoDup (map fst (choices m)) -> NoDup (map fst (states m)) -> grids_valid (states m) ->
  forall (n : nat) (colsD colsC : list (list Q)),
  length colsD = length dst -> length colsC = length cst ->
  Forall (fun c : list Q => length c = n) (colsD ++ colsC) -> (colsD ++ colsC)%list <> [] ->
  (forall i dc cc, (i < n)%nat -> in_bounds (sizes dch) dc -> in_bounds (sizes cch) cc ->
     evaluates_at m p F (agent_env t dst dch cst cch colsD colsC i dc cc)) ->
  let uf := uf_code m p t F dst dch cst cch in
  forall i, (i < n)%nat ->
  veq (value_g dst dch cst cch uf colsD colsC i) (value_at m p t false (fun idx => VFin (F idx)) (agent_state dst cst colsD colsC i)) /\
  (value_g dst dch cst cch uf colsD colsC i <> VNegInf ->
   let red := red_g dst dch cst cch uf colsD colsC i in
   let cidx := unravel (sizes cch) (cont_argmax_g dst dch cst cch uf colsD colsC i) in
   in_bounds (sizes dch) red /\ in_bounds (sizes cch) cidx /\
   feasible m p (agent_env t dst dch cst cch colsD colsC i red cidx) = true /\
   veq (objective m p false (fun idx => VFin (F idx)) (agent_env t dst dch cst cch colsD colsC i red cidx))
       (value_g dst dch cst cch uf colsD colsC i)).
Proof.
  intros m p t F dst dch cst cch H1 H2 H3 H4 n colsD colsC H5 H6 H7 H8 H9 uf i Hi.
  exact (decision_of_the_code_is_optimal m p t F dst dch cst cch H1 H2 H3 H4 n colsD colsC H5 H6 H7 H8 H9 i Hi).
Qed.
Print Assumptions C02_simulated_decision_of_the_code_is_a_feasible_maximiser.

(* the same in the last period (the regenerated last-period u_and_f: no continuation) *)
Theorem C02_simulated_last_decision_of_the_code_is_a_feasible_maximiser :
  forall (m : model) (p : params) (t : nat) (vnext : list nat -> val) (dst dch cst cch : list (string * grid)),
  Permutation (dch ++ cch) (choices m) -> NoDup (map fst (choices m)) ->
  forall (n : nat) (colsD colsC : list (list Q)),
  length colsD = length dst -> length colsC = length cst ->
  Forall (fun c : list Q => length c = n) (colsD ++ colsC) -> (colsD ++ colsC)%list <> [] ->
  (forall i dc cc, (i < n)%nat -> in_bounds (sizes dch) dc -> in_bounds (sizes cch) cc ->
     exists u, eval_fun (depth m) m p (agent_env t dst dch cst cch colsD colsC i dc cc) "utility" = Some u) ->
  let uf := uf_code_last m p t dst dch cst cch in
  forall i, (i < n)%nat ->
  veq (value_g dst dch cst cch uf colsD colsC i) (value_at m p t true vnext (agent_state dst cst colsD colsC i)) /\
  (value_g dst dch cst cch uf colsD colsC i <> VNegInf ->
   let red := red_g dst dch cst cch uf colsD colsC i in
   let cidx := unravel (sizes cch) (cont_argmax_g dst dch cst cch uf colsD colsC i) in
   in_bounds (sizes dch) red /\ in_bounds (sizes cch) cidx /\
   feasible m p (agent_env t dst dch cst cch colsD colsC i red cidx) = true /\
   veq (objective m p true vnext (agent_env t dst dch cst cch colsD colsC i red cidx))
       (value_g dst dch cst cch uf colsD colsC i)).
Proof.
  intros m p t vnext dst dch cst cch H1 H2 n colsD colsC H5 H6 H7 H8 H9 uf i Hi.
  exact (last_decision_of_the_code_is_optimal m p t vnext dst dch cst cch H1 H2 n colsD colsC H5 H6 H7 H8 H9 i Hi).
Qed.
Print Assumptions C02_simulated_last_decision_of_the_code_is_a_feasible_maximiser.

(* non-vacuity: three agents off the grid in a model with a discrete and a continuous choice, a stochastic and a   *)
(* continuous state and a constraint; the hypotheses hold (decided), the agents decide differently, the reported   *)
(* value is the specification's                                                                                      *)
Local Open Scope string_scope. Local Open Scope Q_scope.
Definition dec_model : model :=
  mkModel 3 [("h", GDisc 2); ("w", GLin 0 2 3)] [("d", GDisc 2); ("c", GLin 0 2 5)]
    [mkUfun "utility" ["c"; "w"; "h"; "d"] (ESub (EAdd (EVar "c") (EMul (EVar "w") (EVar "h"))) (EMul (EConst (1#4)) (EVar "d"))) false;
     mkUfun "next_w" ["w"; "c"; "d"] (EAdd (ESub (EVar "w") (EVar "c")) (EMul (EConst (1#2)) (EVar "d"))) false;
     mkUfun "next_h" ["h"] (EConst 0) true;
     mkUfun "budget_constraint" ["c"; "w"; "d"] (ELe (EVar "c") (EAdd (EVar "w") (EMul (EConst (1#2)) (EVar "d")))) false].
Definition dec_params : params := mkParams (9 # 10) [] [("h", mkArr [2; 2]%nat [1 # 4; 3 # 4; 1 # 2; 1 # 2])].
Definition dec_table (idx : list nat) : Q := match idx with [a; b] => Qofnat a + (1 # 2) * Qofnat b | _ => 0 end.
Definition dec_D : list (list Q) := [[0; 1; 1]].
Definition dec_C : list (list Q) := [[1 # 3; 3 # 2; 5 # 2]].
Definition dec_point_okb : bool :=
  forallb (fun i => forallb (fun dc => forallb (fun cc =>
    evaluates_atb dec_model dec_params dec_table
      (agent_env 0 [("h", GDisc 2)] [("d", GDisc 2)] [("w", GLin 0 2 3)] [("c", GLin 0 2 5)] dec_D dec_C i dc cc))
    (indices [5%nat])) (indices [2%nat])) (seq 0 3).
Example C02_decision_nonvacuous :
  let dst := [("h", GDisc 2)] in let dch := [("d", GDisc 2)] in let cst := [("w", GLin 0 2 3)] in let cch := [("c", GLin 0 2 5)] in
  Permutation (dch ++ cch) (choices dec_model) /\ NoDup (map fst (choices dec_model)) /\
  NoDup (map fst (states dec_model)) /\ grids_valid (states dec_model) /\
  dec_point_okb = true /\
  map (fun i => (vred (value_g dst dch cst cch (uf_code dec_model dec_params 0 dec_table dst dch cst cch) dec_D dec_C i),
                 red_g dst dch cst cch (uf_code dec_model dec_params 0 dec_table dst dch cst cch) dec_D dec_C i,
                 cont_argmax_g dst dch cst cch (uf_code dec_model dec_params 0 dec_table dst dch cst cch) dec_D dec_C i,
                 vred (value_at dec_model dec_params 0 false (fun i => VFin (dec_table i)) (agent_state dst cst dec_D dec_C i))))
      [0; 1; 2]%nat
  = [(VFin (43 # 40), [1%nat], 1%nat, VFin (43 # 40)); (VFin (37 # 10), [1%nat], 4%nat, VFin (37 # 10));
     (VFin (207 # 40), [0%nat], 4%nat, VFin (207 # 40))].
Proof.
  cbv zeta. split; [apply Permutation_refl|].
  split; [repeat constructor; simpl; intuition discriminate|].
  split; [repeat constructor; simpl; intuition discriminate|].
  split; [repeat constructor; vm_compute; reflexivity|].
  split; vm_compute; reflexivity.
Qed.

(* the decision of the theorems above (decision_g) IS what the regenerated get_discrete_policy_calculator returns on   *)
(* the conditional-value array, for the variable_info of a model without filter-restricted variables                    *)
From LCM Require Import Gen.SimulateKernels Proofs.C18_AxesFilterFree Proofs.C18_AxesSimulation.
Theorem C02_code_policy_calculator_of_a_model_without_filters :
  forall (dst dch cst cch : list (string * grid)) uf colsD colsC,
  NoDup (map fst (dst ++ dch ++ cst ++ cch)) ->
  get_discrete_policy_calculator (vi_of dst dch cst cch) (ccv_arr dst dch cst cch uf colsD colsC) None
  = decision_g dst dch cst cch uf colsD colsC.
Proof. exact decision_is_the_policy_calculators. Qed.
Print Assumptions C02_code_policy_calculator_of_a_model_without_filters.

(* ---- EVERY ROW OF WHAT simulate RETURNS ------------------------------------------------------------------------------ *)
From LCM Require Import Model.RandomChoice Proofs.C14_OnLayout Proofs.C04_SimulateLoop Proofs.C01_Solve Proofs.C02_SimulateAll.
(* the_sim (Proofs/C02_SimulateAll.v) is the regenerated forward loop of simulate (Gen/Simulate.v) with: the decision of  *)
(* the theorem above as the decision block of every period (u_and_f of period t on the array of period t+1, the            *)
(* last-period function in the last period), the arrays of the regenerated solve (code_solve, C01) as value arrays, an     *)
(* arbitrary law of motion `trans` (C03's subject) and arbitrary initial states.  For every period t and agent i, the      *)
(* recorded value is the specification's value_at of the state the agent is in at t, and, unless it is -inf, the recorded  *)
(* choice passes all filters and constraints at that state and its objective IS the recorded value -- the next value       *)
(* function being the solved array of period t+1 (which is the specification's solve_spec,                                *)
(* C01_lcm_solve_is_the_specifications_solve).  Hypotheses about the trajectory (decidable: trajectory_okb, proved sound): *)
(* the state columns keep their format and the model evaluates at every (agent, choice) point the decision looks at.       *)
Theorem C02_every_simulated_row_is_a_feasible_maximiser :
  forall (m : model) (p : params) (n : nat) (dch cch : list (string * grid)),
  let dst := dstates (states m) in let cst := cstates (states m) in
  Permutation (dch ++ cch) (choices m) -> NoDup (map fst (choices m)) -> NoDup (map fst (states m)) -> grids_valid (states m) ->
  NoDup (map fst (dst ++ dch ++ cst ++ cch)) -> (1 <= n)%nat ->
  forall (nag : nat) (trans : S_states -> list (list nat * list nat) -> nat -> list key -> S_states)
         (initial : S_states) (seed : nat) (prng : nat -> key) (n_stoch : nat),
  let st := states_at m p n dch cch nag trans initial seed prng n_stoch in
  (forall t, (t < n)%nat ->
     length (fst (st t)) = length dst /\ length (snd (st t)) = length cst /\
     Forall (fun c : list Q => length c = nag) (fst (st t) ++ snd (st t)) /\ (fst (st t) ++ snd (st t))%list <> []) ->
  (forall t i dc cc, (S t < n)%nat -> (i < nag)%nat -> in_bounds (sizes dch) dc -> in_bounds (sizes cch) cc ->
     evaluates_at m p (next_table m p n dch cch t) (agent_env t dst dch cst cch (fst (st t)) (snd (st t)) i dc cc)) ->
  (forall t i dc cc, S t = n -> (i < nag)%nat -> in_bounds (sizes dch) dc -> in_bounds (sizes cch) cc ->
     exists u, eval_fun (depth m) m p (agent_env t dst dch cst cch (fst (st t)) (snd (st t)) i dc cc) "utility" = Some u) ->
  forall t i, (t < n)%nat -> (i < nag)%nat ->
  let V := row_value m p n dch cch nag trans initial seed prng n_stoch t i in
  let ch := row_choice m p n dch cch nag trans initial seed prng n_stoch t i in
  let cD := fst (row_states m p n dch cch nag trans initial seed prng n_stoch t) in
  let cC := snd (row_states m p n dch cch nag trans initial seed prng n_stoch t) in
  let vnext := fun idx => VFin (next_table m p n dch cch t idx) in
  let last := (t =? n - 1)%nat in
  row_states m p n dch cch nag trans initial seed prng n_stoch t = st t /\
  veq V (value_at m p t last vnext (agent_state dst cst cD cC i)) /\
  (V <> VNegInf ->
   in_bounds (sizes dch) (fst ch) /\ in_bounds (sizes cch) (snd ch) /\
   feasible m p (agent_env t dst dch cst cch cD cC i (fst ch) (snd ch)) = true /\
   veq (objective m p last vnext (agent_env t dst dch cst cch cD cC i (fst ch) (snd ch))) V).
Proof.
  intros m p n dch cch dst cst H1 H2 H3 H4 H5 H6 nag trans initial seed prng n_stoch st F1 F2 F3 t i Ht Hi. cbv zeta.
  split.
  - exact (proj1 (row_unfold m p n dch cch H6 nag trans initial seed prng n_stoch t i Ht Hi)).
  - exact (every_simulated_row_is_a_feasible_maximiser m p n dch cch H1 H2 H3 H4 H5 H6 nag trans initial seed prng n_stoch F1 F2 F3 t i Ht Hi).
Qed.
Print Assumptions C02_every_simulated_row_is_a_feasible_maximiser.

(* ---- the trajectory of that loop ---------------------------------------------------------------------------------- *)
(* with the decision block of C02's theorem and an arbitrary law of motion `trans`: period 0 starts from the supplied      *)
(* initial states, and the states of period t+1 are `trans` applied to the states the agents were in at t, the choices     *)
(* RECORDED for t (those of C02's rows), the period t and period t's draw keys                                              *)
Theorem C02_code_trajectory_uses_the_recorded_choices :
  forall (m : model) (p : params) (n : nat) (dch cch : list (string * grid)), (1 <= n)%nat ->
  forall (nag : nat) (trans : S_states -> list (list nat * list nat) -> nat -> list key -> S_states)
         (initial : S_states) (seed : nat) (prng : nat -> key) (n_stoch : nat),
  states_at m p n dch cch nag trans initial seed prng n_stoch 0 = initial /\
  forall t, (t < n)%nat ->
    states_at m p n dch cch nag trans initial seed prng n_stoch (S t)
    = trans (states_at m p n dch cch nag trans initial seed prng n_stoch t)
            (map (fun i => row_choice m p n dch cch nag trans initial seed prng n_stoch t i) (seq 0 nag)) t
            (sim_draw_keys (the_sim m p n dch cch nag trans initial seed prng n_stoch) t).
Proof. intros m p n dch cch Hn nag trans initial seed prng n_stoch. exact (trajectory_of_the_states m p n dch cch Hn nag trans initial seed prng n_stoch). Qed.
Print Assumptions C02_code_trajectory_uses_the_recorded_choices.

(* non-vacuity: two periods, two off-grid agents, a law of motion that moves both states; the trajectory hypotheses hold    *)
(* (decided), the rows computed                                                                                              *)
Definition dec_trans (st : S_states) (ch : list (list nat * list nat)) (t : nat) (ks : list key) : S_states :=
  let hcol := hd [] (fst st) in let wcol := hd [] (snd st) in
  ([map (fun h => 1 - h) hcol],
   [map (fun wi : Q * (list nat * list nat) =>
           fst wi - grid_point (GLin 0 2 5) (hd 0%nat (snd (snd wi))) + (1 # 2) * Qofnat (hd 0%nat (fst (snd wi))))
        (combine wcol ch)]).
Definition dec_init : S_states := ([[0; 1]], [[1 # 3; 3 # 2]]).
Definition dec_prng (s : nat) : key := [].
Example C02_simulation_nonvacuous :
  let dch := [("d", GDisc 2)] in let cch := [("c", GLin 0 2 5)] in
  NoDup (map fst (dstates (states dec_model) ++ dch ++ cstates (states dec_model) ++ cch)) /\
  trajectory_okb dec_model dec_params 2 dch cch 2 dec_trans dec_init 0 dec_prng 1 = true /\
  map (fun t => (map (fun i => (vred (row_value dec_model dec_params 2 dch cch 2 dec_trans dec_init 0 dec_prng 1 t i),
                                row_choice dec_model dec_params 2 dch cch 2 dec_trans dec_init 0 dec_prng 1 t i)) [0; 1]%nat,
                 row_states dec_model dec_params 2 dch cch 2 dec_trans dec_init 0 dec_prng 1 t)) [0; 1]%nat
  = [([(VFin (103 # 80), ([1%nat], [0%nat])); (VFin (79 # 20), ([1%nat], [0%nat]))], ([[0; 1]], [[1 # 3; 3 # 2]]));
     ([(VFin (19 # 12), ([1%nat], [2%nat])); (VFin 2, ([0%nat], [4%nat]))], ([[1; 0]], [[5 # 6; 8 # 4]]))].
Proof.
  cbv zeta. split; [repeat constructor; simpl; intuition discriminate|]. split; vm_compute; reflexivity.
Qed.

(* ---- ONE SIMULATED DECISION WITH FILTER-RESTRICTED CHOICES ----------------------------------------------------------------- *)
From LCM Require Import Spec.Layout Proofs.C01_Sparse Proofs.C02_SparseDecision.
(* The rows of the data space are the stored (agent, restricted-choice combination) pairs (create_data_scs: the agents'      *)
(* states repeated, the sparse choice product tiled, masked by the filters), one column per sparse variable (restricted        *)
(* states, restricted choices, free discrete states) and per continuous state; the segments group the rows by agent (C08).    *)
(* The regenerated compute_ccv_policy / u_and_f (rank axis + indexer) per row as above, the regenerated                         *)
(* _calculate_discrete_argmax with choice axes AND segments: dense arg-max per row, then segment_argmax over the rows of        *)
(* every agent.  For an agent whose rows are exactly its filter-passing restricted-choice combinations:                         *)
(*  (1) the reported value is the specification's value_at of the agent's state (maximum over ALL admissible choices,           *)
(*      restricted, dense discrete and continuous);                                                                              *)
(*  (2) unless that is -inf, the chosen row is a row of the agent, and its restricted choices together with the dense and       *)
(*      continuous choices read at that row are admissible and attain the reported value.                                       *)
Theorem C02_simulated_decision_with_filtered_choices_is_a_feasible_maximiser :
  forall (m : model) (p : params) (t : nat) (F : list nat -> Q) (rs rc dst dch cst cch : list (string * grid))
         (isr : string -> bool) (remaining : list (list nat)),
  Permutation (rc ++ dch ++ cch) (choices m) -> NoDup (map fst (choices m)) ->
  NoDup (map fst (rs ++ rc ++ dst ++ cst ++ dch ++ cch) ++ [period_name]) ->
  NoDup (map fst (states m)) -> grids_valid (states m) ->
  forall (nrows : nat) (colsA colsC : list (list Q)),
  length colsA = length ((rs ++ rc) ++ dst) -> length colsC = length cst ->
  Forall (fun c : list Q => length c = nrows) (colsA ++ colsC) -> (colsA ++ colsC)%list <> [] ->
  let uf := uf_code_sparse m p t F rs rc dst dch cst cch isr remaining in
  (forall row dc cc, (row < nrows)%nat -> in_bounds (sizes dch) dc -> in_bounds (sizes cch) cc ->
     evaluates_at_ix m p F isr remaining (env_of_vals6 t rs rc dst dch cst cch (agent_vals dch cch colsA colsC row dc cc))) ->
  forall (ids : list nat) (num : nat), length ids = nrows ->
  forall (a : nat) (vRs vDst vCst : list Q) (keep : list nat -> bool) (ci_of : nat -> list nat),
  (a < num)%nat -> length vRs = length rs -> length vDst = length dst -> length vCst = length cst ->
  (forall row, In row (rows_of_segment ids a) ->
     in_bounds (sizes rc) (ci_of row) /\ row_is rc colsA colsC vRs vDst vCst row (ci_of row)) ->
  (forall ci, in_bounds (sizes rc) ci -> keep ci = true -> exists row, In row (rows_of_segment ids a) /\ ci_of row = ci) ->
  (forall ci dc cidx, in_bounds (sizes rc) ci -> in_bounds (sizes dch) dc -> in_bounds (sizes cch) cidx -> keep ci = false ->
     feasible m p (sigma_agent rs dst cst vRs vDst vCst ++ (env_of_idx rc ci ++ env_of_idx dch dc ++ env_of_idx cch cidx) ++ [(period_name, Qofnat t)])%list = false) ->
  rows_of_segment ids a <> [] ->
  let vnext := fun idx => VFin (F idx) in
  let sigma := sigma_agent rs dst cst vRs vDst vCst in
  let V := value_agent rs rc dst dch cst cch uf colsA colsC ids num a in
  veq V (value_at m p t false vnext sigma) /\
  (V <> VNegInf ->
   let row := row_agent rs rc dst dch cst cch uf colsA colsC ids num a in
   let ci := ci_of row in
   let red := red_g ((rs ++ rc) ++ dst) dch cst cch uf colsA colsC row in
   let cidx := unravel (sizes cch) (cont_argmax_g ((rs ++ rc) ++ dst) dch cst cch uf colsA colsC row) in
   In row (rows_of_segment ids a) /\ in_bounds (sizes rc) ci /\ in_bounds (sizes dch) red /\ in_bounds (sizes cch) cidx /\
   feasible m p (sigma ++ (env_of_idx rc ci ++ env_of_idx dch red ++ env_of_idx cch cidx) ++ [(period_name, Qofnat t)])%list = true /\
   veq (objective m p false vnext (sigma ++ (env_of_idx rc ci ++ env_of_idx dch red ++ env_of_idx cch cidx) ++ [(period_name, Qofnat t)])%list) V).
Proof. exact sparse_decision_of_the_code_is_optimal. Qed.
Print Assumptions C02_simulated_decision_with_filtered_choices_is_a_feasible_maximiser.

(* non-vacuity: the health-filter model; agent 0 (bad health) has one row (not working), agent 1 two; both sides computed *)
Definition fsp_model : model :=
  mkModel 3 [("h", GDisc 2); ("w", GLin 0 2 3)] [("d", GDisc 2); ("c", GLin 0 2 5)]
    [mkUfun "utility" ["c"; "w"; "h"; "d"] (ESub (EAdd (EVar "c") (EMul (EVar "w") (EVar "h"))) (EMul (EConst (1#4)) (EVar "d"))) false;
     mkUfun "next_w" ["w"; "c"; "d"] (EAdd (ESub (EVar "w") (EVar "c")) (EMul (EConst (1#2)) (EVar "d"))) false;
     mkUfun "next_h" ["h"] (EConst 0) true;
     mkUfun "health_filter" ["h"; "d"] (ELe (EVar "d") (EVar "h")) false;
     mkUfun "budget_constraint" ["c"; "w"; "d"] (ELe (EVar "c") (EAdd (EVar "w") (EMul (EConst (1#2)) (EVar "d")))) false].
Example C02_sparse_decision_nonvacuous :
  let RS := [("h", GDisc 2)] in let RC := [("d", GDisc 2)] in let CST := [("w", GLin 0 2 3)] in let CCH := [("c", GLin 0 2 5)] in
  let uf := uf_code_sparse fsp_model dec_params 0 dec_table RS RC [] [] CST CCH (is_restricted fsp_model) [[0%nat]; [1%nat]] in
  let cA : list (list Q) := [[0; 1; 1]; [0; 0; 1]] in let cC : list (list Q) := [[1 # 3; 3 # 2; 3 # 2]] in
  restricted_states fsp_model = RS /\ restricted_choices fsp_model = RC /\
  forallb (fun row => forallb (fun cc =>
     evaluates_at_ixb fsp_model dec_params dec_table (is_restricted fsp_model) [[0%nat]; [1%nat]]
       (env_of_vals6 0 RS RC [] [] CST CCH (agent_vals [] CCH cA cC row [] cc))) (indices [5%nat])) [0; 1; 2]%nat = true /\
  map (fun a => (vred (value_agent RS RC [] [] CST CCH uf cA cC [0; 1; 1]%nat 2 a), row_agent RS RC [] [] CST CCH uf cA cC [0; 1; 1]%nat 2 a,
                 unravel [5%nat] (cont_argmax_g ((RS ++ RC) ++ []) [] CST CCH uf cA cC (row_agent RS RC [] [] CST CCH uf cA cC [0; 1; 1]%nat 2 a))))
      [0; 1]%nat
  = [(VFin (33 # 40), 0%nat, [0%nat]); (VFin (37 # 10), 2%nat, [4%nat])] /\
  [vred (value_at fsp_model dec_params 0 false (fun i => VFin (dec_table i)) (sigma_agent RS [] CST [0] [] [1 # 3]));
   vred (value_at fsp_model dec_params 0 false (fun i => VFin (dec_table i)) (sigma_agent RS [] CST [1] [] [3 # 2]))]
  = [VFin (33 # 40); VFin (37 # 10)].
Proof. cbv zeta. repeat split; vm_compute; reflexivity. Qed.

(* ---- the same on a model of the data space ------------------------------------------------------------------------------------ *)
From LCM Require Import Proofs.C02_DataRows.
(* data_rows (Proofs/C02_DataRows.v) models what create_data_scs builds with filter-restricted choices: for every agent, in       *)
(* agent order, the restricted-choice combinations that pass the filters at the agent's states (keep_of: the model's filters       *)
(* evaluated there), the columns repeating the agent's states and listing the combination's grid values, the segment of a row      *)
(* being its agent.  On it the row-structure hypotheses of the theorem above are theorems (data_rows_structure), and a rejected     *)
(* combination is inadmissible (dropped_on_data_rows).  What remains is about the model and the agents only.                        *)
Theorem C02_simulated_decision_on_the_data_space_is_a_feasible_maximiser :
  forall (m : model) (p : params) (t : nat) (F : list nat -> Q) (rs rc dst dch cst cch : list (string * grid))
         (isr : string -> bool) (remaining : list (list nat)),
  Permutation (rc ++ dch ++ cch) (choices m) -> NoDup (map fst (choices m)) ->
  NoDup (map fst (rs ++ rc ++ dst ++ cst ++ dch ++ cch) ++ [period_name]) ->
  NoDup (map fst (states m)) -> grids_valid (states m) ->
  (forall x, In x (map fst (dch ++ cch)) -> is_restricted m x = false) ->
  forall (nag : nat) (stRs stDst stCst : list (list Q)),
  length stRs = length rs -> length stDst = length dst -> length stCst = length cst ->
  let keepA := keep_of m p t rs rc dst cst stRs stDst stCst in
  let rows := data_rows rc nag keepA in
  let colsA := data_colsA rc nag keepA stRs stDst in
  let colsC := data_colsC rc nag keepA stCst in
  let ids := data_ids rc nag keepA in
  (colsA ++ colsC)%list <> [] ->
  let uf := uf_code_sparse m p t F rs rc dst dch cst cch isr remaining in
  (forall row dc cc, (row < length rows)%nat -> in_bounds (sizes dch) dc -> in_bounds (sizes cch) cc ->
     evaluates_at_ix m p F isr remaining (env_of_vals6 t rs rc dst dch cst cch (agent_vals dch cch colsA colsC row dc cc))) ->
  forall a, (a < nag)%nat ->
  (exists ci, in_bounds (sizes rc) ci /\ keepA a ci = true) ->
  let vnext := fun idx => VFin (F idx) in
  let sigma := agent_sigma rs dst cst stRs stDst stCst a in
  let V := value_agent rs rc dst dch cst cch uf colsA colsC ids nag a in
  veq V (value_at m p t false vnext sigma) /\
  (V <> VNegInf ->
   let row := row_agent rs rc dst dch cst cch uf colsA colsC ids nag a in
   let ci := ci_of_row rc nag keepA row in
   let red := red_g ((rs ++ rc) ++ dst) dch cst cch uf colsA colsC row in
   let cidx := unravel (sizes cch) (cont_argmax_g ((rs ++ rc) ++ dst) dch cst cch uf colsA colsC row) in
   In row (rows_of_segment ids a) /\ in_bounds (sizes rc) ci /\ in_bounds (sizes dch) red /\ in_bounds (sizes cch) cidx /\
   feasible m p (sigma ++ (env_of_idx rc ci ++ env_of_idx dch red ++ env_of_idx cch cidx) ++ [(period_name, Qofnat t)])%list = true /\
   veq (objective m p false vnext (sigma ++ (env_of_idx rc ci ++ env_of_idx dch red ++ env_of_idx cch cidx) ++ [(period_name, Qofnat t)])%list) V).
Proof. exact sparse_decision_on_the_data_space. Qed.
Print Assumptions C02_simulated_decision_on_the_data_space_is_a_feasible_maximiser.

Example C02_data_space_nonvacuous :
  let RS := [("h", GDisc 2)] in let RC := [("d", GDisc 2)] in let CST := [("w", GLin 0 2 3)] in
  let keepA := keep_of fsp_model dec_params 0 RS RC [] CST [[0; 1]] [] [[1 # 3; 3 # 2]] in
  data_rows RC 2 keepA = [(0, [0]); (1, [0]); (1, [1])]%nat /\
  data_ids RC 2 keepA = [0; 1; 1]%nat /\
  data_colsA RC 2 keepA [[0; 1]] [] = [[0; 1; 1]; [0; 0; 1]] /\
  data_colsC RC 2 keepA [[1 # 3; 3 # 2]] = [[1 # 3; 3 # 2; 3 # 2]].
Proof. cbv zeta. repeat split; vm_compute; reflexivity. Qed.

(* ---- EVERY ROW OF simulate WITH FILTER-RESTRICTED VARIABLES ------------------------------------------------------------------- *)
From LCM Require Import Model.StateSpace Proofs.C01_SparseSolve Proofs.C02_SimulateAllSparse.
(* sp_sim (Proofs/C02_SimulateAllSparse.v): the regenerated forward loop with, in every period, the data space of the agents'     *)
(* current states (data_rows), the decision with segments as decision block, the arrays of the regenerated solve with filters        *)
(* (code_solve_sparse) as value arrays and the state indexers of the NEXT period as lookup objects (the shifted list of the glue),    *)
(* an arbitrary law of motion.  For every period t before the last and every agent a that has an admissible restricted-choice        *)
(* combination: the recorded value is the specification's value_at of the agent's state and, unless -inf, the recorded restricted,    *)
(* dense and continuous choices are admissible and attain it.  (The last period: the theorem below.)                                 *)
Theorem C02_every_simulated_row_with_filters_is_a_feasible_maximiser :
  forall (m : model) (p : params) (n : nat) (dch cch : list (string * grid)),
  let rs := restricted_states m in let rc := restricted_choices m in
  let dst := free_discrete_states m in let cst := free_continuous_states m in
  Permutation (rc ++ dch ++ cch) (choices m) -> NoDup (map fst (choices m)) -> NoDup (map fst (rs ++ rc)) -> rs <> [] ->
  (forall x, In x (map fst (dst ++ cst ++ dch ++ cch)) -> is_restricted m x = false) ->
  NoDup (map fst (states m)) -> grids_valid (states m) ->
  (forall sg, In sg (states m) -> is_restricted m (fst sg) = true -> is_cont (snd sg) = false) ->
  NoDup (map fst (rc ++ dst ++ dch ++ cst ++ cch)) -> ~ In "__sparse__"%string (map fst (rc ++ dch ++ cch)) ->
  NoDup (map fst (rs ++ rc ++ dst ++ cst ++ dch ++ cch) ++ [period_name]) -> (1 <= n)%nat ->
  forall (nag : nat) (trans : S3 -> list (list nat * list nat * list nat) -> nat -> list key -> S3)
         (initial : S3) (seed : nat) (prng : nat -> key) (n_stoch : nat) (t a : nat),
  (t < n)%nat -> (a < nag)%nat ->
  let '(stRs, stDst, stCst) := sp_states_at m p n dch cch nag trans initial seed prng n_stoch t in
  let keepA := keep_of m p t rs rc dst cst stRs stDst stCst in
  let colsA := data_colsA rc nag keepA stRs stDst in
  let colsC := data_colsC rc nag keepA stCst in
  length stRs = length rs -> length stDst = length dst -> length stCst = length cst -> (colsA ++ colsC)%list <> [] ->
  (exists ci, in_bounds (sizes rc) ci /\ keepA a ci = true) ->
  (S t < n)%nat ->
  (forall row dc cc, (row < length (data_rows rc nag keepA))%nat -> in_bounds (sizes dch) dc -> in_bounds (sizes cch) cc ->
     evaluates_at_ix m p (next_table_sparse m p n dch cch t) (is_restricted m) (rem_at m p (S t))
                     (env_of_vals6 t rs rc dst dch cst cch (agent_vals dch cch colsA colsC row dc cc))) ->
  let vnext := fun idx => VFin (next_table_sparse m p n dch cch t idx) in
  let sigma := agent_sigma rs dst cst stRs stDst stCst a in
  sp_row_states m p n dch cch nag trans initial seed prng n_stoch t = sp_states_at m p n dch cch nag trans initial seed prng n_stoch t /\
  veq (sp_row_value m p n dch cch nag trans initial seed prng n_stoch t a) (value_at m p t false vnext sigma) /\
  (sp_row_value m p n dch cch nag trans initial seed prng n_stoch t a <> VNegInf ->
   let '(ci, red, cidx) := sp_row_choice m p n dch cch nag trans initial seed prng n_stoch t a in
   in_bounds (sizes rc) ci /\ in_bounds (sizes dch) red /\ in_bounds (sizes cch) cidx /\
   feasible m p (sigma ++ (env_of_idx rc ci ++ env_of_idx dch red ++ env_of_idx cch cidx) ++ [(period_name, Qofnat t)])%list = true /\
   veq (objective m p false vnext (sigma ++ (env_of_idx rc ci ++ env_of_idx dch red ++ env_of_idx cch cidx) ++ [(period_name, Qofnat t)])%list)
       (sp_row_value m p n dch cch nag trans initial seed prng n_stoch t a)).
Proof.
  intros m p n dch cch rs rc dst cst H1 H2 H3 H4 H5 H6 H7 H8 H9 H10 H11 H12 nag trans initial seed prng n_stoch t a Ht Ha.
  exact (every_simulated_row_with_filters_is_a_feasible_maximiser m p n dch cch H1 H2 H3 H4 H5 H6 H7 H8 H9 H10 H11 H12
           nag trans initial seed prng n_stoch t a Ht Ha).
Qed.
Print Assumptions C02_every_simulated_row_with_filters_is_a_feasible_maximiser.

Theorem C02_every_simulated_row_with_filters_in_the_last_period_is_a_feasible_maximiser :
  forall (m : model) (p : params) (n : nat) (dch cch : list (string * grid)),
  let rs := restricted_states m in let rc := restricted_choices m in
  let dst := free_discrete_states m in let cst := free_continuous_states m in
  Permutation (rc ++ dch ++ cch) (choices m) -> NoDup (map fst (choices m)) -> NoDup (map fst (rs ++ rc)) ->
  (forall x, In x (map fst (dst ++ cst ++ dch ++ cch)) -> is_restricted m x = false) ->
  NoDup (map fst (rc ++ dst ++ dch ++ cst ++ cch)) -> ~ In "__sparse__"%string (map fst (rc ++ dch ++ cch)) ->
  NoDup (map fst (rs ++ rc ++ dst ++ cst ++ dch ++ cch) ++ [period_name]) -> (1 <= n)%nat ->
  forall (nag : nat) (trans : S3 -> list (list nat * list nat * list nat) -> nat -> list key -> S3)
         (initial : S3) (seed : nat) (prng : nat -> key) (n_stoch : nat) (t a : nat) (vnext : list nat -> val),
  (t < n)%nat -> (a < nag)%nat -> S t = n ->
  let '(stRs, stDst, stCst) := sp_states_at m p n dch cch nag trans initial seed prng n_stoch t in
  let keepA := keep_of m p t rs rc dst cst stRs stDst stCst in
  let colsA := data_colsA rc nag keepA stRs stDst in
  let colsC := data_colsC rc nag keepA stCst in
  length stRs = length rs -> length stDst = length dst -> length stCst = length cst -> (colsA ++ colsC)%list <> [] ->
  (exists ci, in_bounds (sizes rc) ci /\ keepA a ci = true) ->
  (forall row dc cc, (row < length (data_rows rc nag keepA))%nat -> in_bounds (sizes dch) dc -> in_bounds (sizes cch) cc ->
     exists u, eval_fun (depth m) m p (env_of_vals6 t rs rc dst dch cst cch (agent_vals dch cch colsA colsC row dc cc)) "utility" = Some u) ->
  let sigma := agent_sigma rs dst cst stRs stDst stCst a in
  sp_row_states m p n dch cch nag trans initial seed prng n_stoch t = sp_states_at m p n dch cch nag trans initial seed prng n_stoch t /\
  veq (sp_row_value m p n dch cch nag trans initial seed prng n_stoch t a) (value_at m p t true vnext sigma) /\
  (sp_row_value m p n dch cch nag trans initial seed prng n_stoch t a <> VNegInf ->
   let '(ci, red, cidx) := sp_row_choice m p n dch cch nag trans initial seed prng n_stoch t a in
   in_bounds (sizes rc) ci /\ in_bounds (sizes dch) red /\ in_bounds (sizes cch) cidx /\
   feasible m p (sigma ++ (env_of_idx rc ci ++ env_of_idx dch red ++ env_of_idx cch cidx) ++ [(period_name, Qofnat t)])%list = true /\
   veq (objective m p true vnext (sigma ++ (env_of_idx rc ci ++ env_of_idx dch red ++ env_of_idx cch cidx) ++ [(period_name, Qofnat t)])%list)
       (sp_row_value m p n dch cch nag trans initial seed prng n_stoch t a)).
Proof.
  intros m p n dch cch rs rc dst cst H1 H2 H3 H5 H9 H10 H11 H12 nag trans initial seed prng n_stoch t a vnext Ht Ha Hl.
  exact (every_simulated_row_with_filters_in_the_last_period_is_a_feasible_maximiser m p n dch cch H1 H2 H3 H5 H9 H10 H11 H12
           nag trans initial seed prng n_stoch t a vnext Ht Ha Hl).
Qed.
Print Assumptions C02_every_simulated_row_with_filters_in_the_last_period_is_a_feasible_maximiser.

(* non-vacuity: two periods of the health-filter model, two agents; the recorded rows computed *)
Definition fsp_trans (st : S3) (ch : list (list nat * list nat * list nat)) (t : nat) (ks : list key) : S3 :=
  let '(stRs, stDst, stCst) := st in
  let wcol := hd [] stCst in
  (stRs, stDst,
   [map (fun wi : Q * (list nat * list nat * list nat) =>
           fst wi - grid_point (GLin 0 2 5) (hd 0%nat (snd (snd wi))) + (1 # 2) * Qofnat (hd 0%nat (fst (fst (snd wi)))))
        (combine wcol ch)]).
Definition fsp_init : S3 := ([[0; 1]], [], [[1 # 3; 3 # 2]]).
Example C02_simulation_with_filters_nonvacuous :
  let cch := [("c", GLin 0 2 5)] in
  map (fun t => (map (fun a => (vred (sp_row_value fsp_model dec_params 2 [] cch 2 fsp_trans fsp_init 0 dec_prng 1 t a),
                                sp_row_choice fsp_model dec_params 2 [] cch 2 fsp_trans fsp_init 0 dec_prng 1 t a)) [0; 1]%nat,
                 sp_row_states fsp_model dec_params 2 [] cch 2 fsp_trans fsp_init 0 dec_prng 1 t)) [0; 1]%nat
  = [([(VFin (111 # 160), ([0%nat], [], [0%nat])); (VFin (79 # 20), ([1%nat], [], [0%nat]))], ([[0; 1]], [], [[1 # 3; 3 # 2]]));
     ([(VFin 0, ([0%nat], [], [0%nat])); (VFin 4, ([0%nat], [], [4%nat]))], ([[0; 1]], [], [[2 # 6; 8 # 4]]))].
Proof. vm_compute. reflexivity. Qed.

(* ---- C06 for the code: an on-grid agent's recorded value is the entry of the solved array ---------------------------------- *)
From LCM Require Import Proofs.C01_Agents.
(* In the loop of C02_every_simulated_row_is_a_feasible_maximiser (no filter-restricted variables): when agent i is, in period t,   *)
(* at the grid point (ds, cs), the value recorded for (t, i) is the entry of the array solve returned for period t at position       *)
(* ds ++ cs -- both are the specification's value of that state with the array of period t+1 as next value function.                 *)
Theorem C02_on_grid_simulated_value_is_the_solved_entry :
  forall (m : model) (p : params) (n : nat) (dch cch : list (string * grid)),
  let dst := dstates (states m) in let cst := cstates (states m) in
  Permutation (dch ++ cch) (choices m) -> NoDup (map fst (choices m)) -> NoDup (map fst (states m)) -> grids_valid (states m) ->
  NoDup (map fst (dst ++ dch ++ cst ++ cch)) -> (1 <= n)%nat ->
  forall (nag : nat) (trans : S_states -> list (list nat * list nat) -> nat -> list key -> S_states)
         (initial : S_states) (seed : nat) (prng : nat -> key) (n_stoch : nat),
  let st := states_at m p n dch cch nag trans initial seed prng n_stoch in
  (forall t, (t < n)%nat ->
     length (fst (st t)) = length dst /\ length (snd (st t)) = length cst /\
     Forall (fun c : list Q => length c = nag) (fst (st t) ++ snd (st t)) /\ (fst (st t) ++ snd (st t))%list <> []) ->
  (forall t i dc cc, (S t < n)%nat -> (i < nag)%nat -> in_bounds (sizes dch) dc -> in_bounds (sizes cch) cc ->
     evaluates_at m p (next_table m p n dch cch t) (agent_env t dst dch cst cch (fst (st t)) (snd (st t)) i dc cc)) ->
  (forall t i dc cc, S t = n -> (i < nag)%nat -> in_bounds (sizes dch) dc -> in_bounds (sizes cch) cc ->
     exists u, eval_fun (depth m) m p (agent_env t dst dch cst cch (fst (st t)) (snd (st t)) i dc cc) "utility" = Some u) ->
  forall t i ds cs, (t < n)%nat -> (i < nag)%nat -> in_bounds (sizes dst) ds -> in_bounds (sizes cst) cs ->
  at_row (fst (st t)) i = map snd (env_of_idx dst ds) -> at_row (snd (st t)) i = map snd (env_of_idx cst cs) ->
  ((S t < n)%nat -> forall ds' dc cs' cc,
     in_bounds (sizes dst) ds' -> in_bounds (sizes dch) dc -> in_bounds (sizes cst) cs' -> in_bounds (sizes cch) cc ->
     evaluates_at m p (next_table m p n dch cch t) (spec_env t dst dch cst cch ds' dc cs' cc)) ->
  (S t = n -> forall ds' dc cs' cc,
     in_bounds (sizes dst) ds' -> in_bounds (sizes dch) dc -> in_bounds (sizes cst) cs' -> in_bounds (sizes cch) cc ->
     exists u, eval_fun (depth m) m p (spec_env t dst dch cst cch ds' dc cs' cc) "utility" = Some u) ->
  veq (C02_SimulateAll.row_value m p n dch cch nag trans initial seed prng n_stoch t i)
      (get VUndef (nth t (code_solve m p n dch cch) (scalar VUndef)) (ds ++ cs)%list).
Proof.
  intros m p n dch cch dst cst H1 H2 H3 H4 H5 H6 nag trans initial seed prng n_stoch st F1 F2 F3 t i ds cs Ht Hi Hds Hcs E1 E2 G1 G2.
  exact (on_grid_row_value_is_the_solved_entry m p n dch cch H1 H2 H3 H4 H5 H6 nag trans initial seed prng n_stoch F1 F2 F3 t i ds cs
           Ht Hi Hds Hcs E1 E2 G1 G2).
Qed.
Print Assumptions C02_on_grid_simulated_value_is_the_solved_entry.

(* ---- END TO END: every row of simulate is optimal for THE SPECIFICATION's solution ----------------------------------------- *)
From LCM Require Import Proofs.C01_SolveSpec Proofs.C02_SimulateSpec.
(* The all-rows theorem speaks about the arrays the code computed; composed with C01_lcm_solve_is_the_specifications_solve      *)
(* (those arrays ARE the specification's solve_spec) and with the fact that the specification reads its next value function only  *)
(* on the grid: for every period and agent, the recorded value is the specification's value_at of the agent's state WITH THE       *)
(* SPECIFICATION's table of the next period as next value function, and the recorded choice is admissible and attains it.          *)
(* (Models without filter-restricted variables; hypotheses: those of the two theorems.)                                            *)
Theorem C02_every_simulated_row_is_optimal_for_the_specifications_solution :
  forall (m : model) (p : params) (dch cch : list (string * grid)),
  let n := Lang.n_periods m in let dst := dstates (states m) in let cst := cstates (states m) in
  Permutation (dch ++ cch) (choices m) -> NoDup (map fst (choices m)) -> NoDup (map fst (states m)) -> grids_valid (states m) ->
  NoDup (map fst (dst ++ dch ++ cst ++ cch)) -> (1 <= n)%nat ->
  (forall t, (S t < n)%nat -> forall ds dc cs cc,
     in_bounds (sizes dst) ds -> in_bounds (sizes dch) dc -> in_bounds (sizes cst) cs -> in_bounds (sizes cch) cc ->
     evaluates_at m p (fun _ => 0%Q) (spec_env t dst dch cst cch ds dc cs cc)) ->
  (forall t, S t = n -> forall ds dc cs cc,
     in_bounds (sizes dst) ds -> in_bounds (sizes dch) dc -> in_bounds (sizes cst) cs -> in_bounds (sizes cch) cc ->
     exists u, eval_fun (depth m) m p (spec_env t dst dch cst cch ds dc cs cc) "utility" = Some u) ->
  (forall t idx, (t < n)%nat -> in_bounds (state_shape m) idx ->
     exists q, get VUndef (nth t (solve_spec m p) (scalar VUndef)) idx = VFin q) ->
  forall (nag : nat) (trans : S_states -> list (list nat * list nat) -> nat -> list key -> S_states)
         (initial : S_states) (seed : nat) (prng : nat -> key) (n_stoch : nat),
  let st := states_at m p n dch cch nag trans initial seed prng n_stoch in
  (forall t, (t < n)%nat ->
     length (fst (st t)) = length dst /\ length (snd (st t)) = length cst /\
     Forall (fun c : list Q => length c = nag) (fst (st t) ++ snd (st t)) /\ (fst (st t) ++ snd (st t))%list <> []) ->
  (forall t i dc cc, (S t < n)%nat -> (i < nag)%nat -> in_bounds (sizes dch) dc -> in_bounds (sizes cch) cc ->
     evaluates_at m p (fun _ => 0%Q) (agent_env t dst dch cst cch (fst (st t)) (snd (st t)) i dc cc)) ->
  (forall t i dc cc, S t = n -> (i < nag)%nat -> in_bounds (sizes dch) dc -> in_bounds (sizes cch) cc ->
     exists u, eval_fun (depth m) m p (agent_env t dst dch cst cch (fst (st t)) (snd (st t)) i dc cc) "utility" = Some u) ->
  forall t i, (t < n)%nat -> (i < nag)%nat ->
  let V := C02_SimulateAll.row_value m p n dch cch nag trans initial seed prng n_stoch t i in
  let ch := row_choice m p n dch cch nag trans initial seed prng n_stoch t i in
  let cD := fst (st t) in let cC := snd (st t) in
  let vspec := fun idx => get VUndef (nth (S t) (solve_spec m p) (scalar VUndef)) idx in
  let last := (t =? n - 1)%nat in
  veq V (value_at m p t last vspec (agent_state dst cst cD cC i)) /\
  (V <> VNegInf ->
   in_bounds (sizes dch) (fst ch) /\ in_bounds (sizes cch) (snd ch) /\
   feasible m p (agent_env t dst dch cst cch cD cC i (fst ch) (snd ch)) = true /\
   veq (objective m p last vspec (agent_env t dst dch cst cch cD cC i (fst ch) (snd ch))) V).
Proof.
  intros m p dch cch n dst cst H1 H2 H3 H4 H5 H6 H7 H8 H9 nag trans initial seed prng n_stoch st F1 F2 F3 t i Ht Hi.
  exact (every_simulated_row_is_optimal_for_the_specifications_solution m p dch cch H1 H2 H3 H4 H5 H6 H7 H8 H9
           nag trans initial seed prng n_stoch F1 F2 F3 t i Ht Hi).
Qed.
Print Assumptions C02_every_simulated_row_is_optimal_for_the_specifications_solution.

(* ---- END TO END WITH FILTERS ---------------------------------------------------------------------------------------------------- *)
From LCM Require Import Proofs.C01_SparseSpec Proofs.C02_SimulateSparseSpec.
(* the all-rows theorem with filters composed with C01_lcm_solve_with_filters_is_the_specifications_solve: for every period before   *)
(* the last and every agent with an admissible restricted-choice combination, the recorded value is the specification's value_at of    *)
(* the agent's state WITH THE SPECIFICATION's own table of the next period, and the recorded restricted, dense and continuous choices   *)
(* are admissible and attain it.  (In the last period there is no next table: the theorem above already is the end-to-end statement.)   *)
Theorem C02_every_simulated_row_with_filters_is_optimal_for_the_specifications_solution :
  forall (m : model) (p : params) (dch cch : list (string * grid)),
  let n := Lang.n_periods m in
  let rs := restricted_states m in let rc := restricted_choices m in
  let dst := free_discrete_states m in let cst := free_continuous_states m in
  Permutation (rc ++ dch ++ cch) (choices m) -> NoDup (map fst (choices m)) -> NoDup (map fst (rs ++ rc)) -> rs <> [] ->
  (forall x, In x (map fst (dst ++ cst ++ dch ++ cch)) -> is_restricted m x = false) ->
  NoDup (map fst (states m)) -> grids_valid (states m) ->
  (forall sg, In sg (states m) -> is_restricted m (fst sg) = true -> is_cont (snd sg) = false) ->
  NoDup (map fst (rc ++ dst ++ dch ++ cst ++ cch)) -> ~ In "__sparse__"%string (map fst (rc ++ dch ++ cch)) ->
  NoDup (map fst (rs ++ rc ++ dst ++ cst ++ dch ++ cch) ++ [period_name]) -> (1 <= n)%nat ->
  (forall t, (S t < n)%nat -> forall si ci ds dc cs cidx,
     in_bounds (sizes rs) si -> in_bounds (sizes rc) ci -> in_bounds (sizes dst) ds -> in_bounds (sizes dch) dc ->
     in_bounds (sizes cst) cs -> in_bounds (sizes cch) cidx ->
     evaluates_at_ix m p (fun _ => 0%Q) (is_restricted m) (rem_at m p (S t)) (sp_env t rs rc dst dch cst cch si ci ds dc cs cidx)) ->
  (forall t, S t = n -> forall si ci ds dc cs cidx,
     in_bounds (sizes rs) si -> in_bounds (sizes rc) ci -> in_bounds (sizes dst) ds -> in_bounds (sizes dch) dc ->
     in_bounds (sizes cst) cs -> in_bounds (sizes cch) cidx ->
     exists u, eval_fun (depth m) m p (sp_env t rs rc dst dch cst cch si ci ds dc cs cidx) "utility" = Some u) ->
  (forall t idx, (t < n)%nat -> in_bounds (state_shape m) idx -> In (rpart (is_restricted m) (states m) idx) (rem_at m p t) ->
     exists q, get VUndef (nth t (solve_spec m p) (scalar VUndef)) idx = VFin q) ->
  forall (nag : nat) (trans : S3 -> list (list nat * list nat * list nat) -> nat -> list key -> S3)
         (initial : S3) (seed : nat) (prng : nat -> key) (n_stoch : nat) (t a : nat),
  (t < n)%nat -> (a < nag)%nat -> (S t < n)%nat ->
  let '(stRs, stDst, stCst) := sp_states_at m p n dch cch nag trans initial seed prng n_stoch t in
  let keepA := keep_of m p t rs rc dst cst stRs stDst stCst in
  let colsA := data_colsA rc nag keepA stRs stDst in
  let colsC := data_colsC rc nag keepA stCst in
  length stRs = length rs -> length stDst = length dst -> length stCst = length cst -> (colsA ++ colsC)%list <> [] ->
  (exists ci, in_bounds (sizes rc) ci /\ keepA a ci = true) ->
  (forall row dc cc, (row < length (data_rows rc nag keepA))%nat -> in_bounds (sizes dch) dc -> in_bounds (sizes cch) cc ->
     evaluates_at_ix m p (fun _ => 0%Q) (is_restricted m) (rem_at m p (S t))
                     (env_of_vals6 t rs rc dst dch cst cch (agent_vals dch cch colsA colsC row dc cc))) ->
  let vspec := fun idx => get VUndef (nth (S t) (solve_spec m p) (scalar VUndef)) idx in
  let sigma := agent_sigma rs dst cst stRs stDst stCst a in
  veq (sp_row_value m p n dch cch nag trans initial seed prng n_stoch t a) (value_at m p t false vspec sigma) /\
  (sp_row_value m p n dch cch nag trans initial seed prng n_stoch t a <> VNegInf ->
   let '(ci, red, cidx) := sp_row_choice m p n dch cch nag trans initial seed prng n_stoch t a in
   in_bounds (sizes rc) ci /\ in_bounds (sizes dch) red /\ in_bounds (sizes cch) cidx /\
   feasible m p (sigma ++ (env_of_idx rc ci ++ env_of_idx dch red ++ env_of_idx cch cidx) ++ [(period_name, Qofnat t)])%list = true /\
   veq (objective m p false vspec (sigma ++ (env_of_idx rc ci ++ env_of_idx dch red ++ env_of_idx cch cidx) ++ [(period_name, Qofnat t)])%list)
       (sp_row_value m p n dch cch nag trans initial seed prng n_stoch t a)).
Proof.
  intros m p dch cch n rs rc dst cst H1 H2 H3 H4 H5 H6 H7 H8 H9 H10 H11 H12 H13 H14 H15 nag trans initial seed prng n_stoch t a Ht Ha Ht'.
  exact (every_simulated_row_with_filters_is_optimal_for_the_specifications_solution m p dch cch H1 H2 H3 H4 H5 H6 H7 H8 H9 H10 H11 H12 H13 H14 H15
           nag trans initial seed prng n_stoch t a Ht Ha Ht').
Qed.
Print Assumptions C02_every_simulated_row_with_filters_is_optimal_for_the_specifications_solution.

(* ---- the data state-choice space: the regenerated create_data_scs (Gen/DataSCS.v) ------------------------------------------ *)
From LCM Require Import Model.Dispatchers Model.PyVocab Gen.DataSCS Proofs.C02_DataSCS Proofs.C02_DataSCSTie.
(* With filter-restricted choices, create_data_scs returns: one row per (agent, filter-passing combination of the restricted      *)
(* choices), agents in order, combinations in row-major order; a state's column repeats the agent's value, a restricted choice's   *)
(* column lists the combination's grid value, the segment of a row is its agent; the dense variables are the dense discrete        *)
(* choices.  The filter is evaluated at the values of the row itself (never at a mix of rows) and at `_period` = the period.       *)
Theorem C02_code_data_state_choice_space :
  forall (sig : list string) (scalar_filter : list qarr -> qarr),
  (forall a, wf (scalar_filter a) /\ shape (scalar_filter a) = []) -> NoDup sig ->
  forall (states : list (string * list Q)) (vi : list varinfo) (grids : list (string * list Q)) (period : nat),
  NoDup (map fst states) -> NoDup (map fst grids) ->
  (forall s col, In (s, col) states -> length col = scs_n states) ->
  (forall s, In s (map fst states) -> ~ In s (map fst (scs_choices vi grids))) ->
  filter (fun v => (is_sparse v && is_choice v)) vi <> [] ->
  set_eqb (map vname (filter (fun v => is_state v) vi)) (map fst states) = true ->
  scs_vmapped sig <> [] ->
  (forall p, In p (scs_vmapped sig) -> In p (map fst states) \/ In p (map fst (scs_choices vi grids))) ->
  (0 < scs_n states)%nat ->
  let rows := scs_rows sig scalar_filter states vi grids period in
  rows = flat_map (fun a => map (pair a) (filter (fun ci => scs_keep sig scalar_filter states vi grids period (a, ci)) (scs_cis vi grids)))
                  (seq 0 (scs_n states)) /\
  exists ds, create_data_scs sig scalar_filter states vi grids period = Some ds /\
  map fst (ds_sparse_vars ds) = (map fst states ++ map fst (scs_choices vi grids))%list /\
  (forall s col, In (s, col) states ->
     assoc s (ds_sparse_vars ds) = Some (map (fun r : nat * list nat => nth (fst r) col 0%Q) rows)) /\
  (forall j name arr, nth_error (scs_choices vi grids) j = Some (name, arr) ->
     assoc name (ds_sparse_vars ds) = Some (map (fun r : nat * list nat => nth (nth j (snd r) 0%nat) arr 0%Q) rows)) /\
  ds_choice_segments ds = Some (map fst rows, length (nodup Nat.eq_dec (map fst rows))) /\
  ds_dense_vars ds
  = filter (fun ng => mem_str (fst ng) (map vname (filter (fun v => ((is_dense v && is_choice v) && negb (is_continuous v))) vi))) grids.
Proof.
  intros sig sf H1 H2 states vi grids period H3 H4 H5 H6 H7 H8 H9 H10 H11. split.
  - exact (rows_by_agent sig sf states vi grids period).
  - exact (create_data_scs_rows sig sf H1 H2 states vi grids period H3 H4 H5 H6 H7 H8 H9 H10 H11).
Qed.
Print Assumptions C02_code_data_state_choice_space.

(* these rows and columns ARE the data rows the decision theorems with filters above are stated on *)
Theorem C02_code_data_rows_are_the_models :
  forall (sig : list string) (scalar_filter : list qarr -> qarr) (states : list (string * list Q)) (vi : list varinfo)
         (grids : list (string * list Q)) (period : nat) (rc : list (string * grid)),
  scs_choices vi grids = map (fun xg : string * grid => (fst xg, grid_points (snd xg))) rc ->
  forall keep' : nat -> list nat -> bool,
  (forall a ci, (a < scs_n states)%nat -> in_bounds (sizes rc) ci -> keep' a ci = scs_keep sig scalar_filter states vi grids period (a, ci)) ->
  let rows := scs_rows sig scalar_filter states vi grids period in
  rows = data_rows rc (scs_n states) keep' /\
  (forall col, map (fun r : nat * list nat => nth (fst r) col 0%Q) rows = rep_col rc (scs_n states) keep' col) /\
  map (fun jxg : nat * (string * grid) =>
         map (fun r : nat * list nat => nth (nth (fst jxg) (snd r) 0%nat) (grid_points (snd (snd jxg))) 0%Q) rows)
      (combine (seq 0 (length rc)) rc) = rc_cols rc (scs_n states) keep' /\
  map fst rows = data_ids rc (scs_n states) keep'.
Proof. exact data_scs_is_the_data_rows_model. Qed.
Print Assumptions C02_code_data_rows_are_the_models.

Local Open Scope string_scope.
Example C02_data_scs_nonvacuous :
  (* two agents with wealth 1 and 3; a restricted choice d in {0, 1, 2}; the filter admits d <= w *)
  let sf := fun a : list qarr => scalar (Qofbool (Qleb (qget (nth 0 a dflt_arr) []) (qget (nth 1 a dflt_arr) []))) in
  let vi := [mkVarinfo "w" true false false true false false false true; mkVarinfo "d" false true false true false false true false;
             mkVarinfo "e" false true false true false false false true] in
  let grids := [("w", [0%Q; 1%Q; 2%Q; 3%Q]); ("d", [0%Q; 1%Q; 2%Q]); ("e", [0%Q; 1%Q])] in
  match create_data_scs ["d"; "w"; "_period"] sf [("w", [1%Q; 3%Q])] vi grids 0 with
  | Some ds => ds_sparse_vars ds = [("w", [1%Q; 1%Q; 3%Q; 3%Q; 3%Q]); ("d", [0%Q; 1%Q; 0%Q; 1%Q; 2%Q])] /\
               ds_choice_segments ds = Some ([0; 0; 1; 1; 1]%nat, 2%nat) /\ map fst (ds_dense_vars ds) = ["e"]
  | None => False
  end.
Proof. vm_compute. repeat split. Qed.

(* Properties/C16.v — a grid is either rejected or materialises exactly as specified. *)
(* validate_continuous_grid is REGENERATED from /repo/src/lcm/grids.py on every run;   *)
(* validate_discrete_grid (Proofs/C16_Points.v) is the hand-written model of            *)
(* _validate_discrete_grid, tied to the code by the unit correspondence family          *)
(* `discrete_grid`; lin_points / log_point are the exact-arithmetic meaning given to    *)
(* jnp.linspace / jnp.logspace (trusted, validated by the family `grid_points`).        *)
From Coq Require Import Reals.
From LCM Require Import Base.Prelude Base.PyVal Gen.GridValidate Spec.Interp Spec.GridRules.
From LCM Require Import Model.Grids Proofs.C16_Validate Proofs.C16_Points Proofs.C15_Log.
Local Open Scope Q_scope.

(* 1. the validator never raises TypeError and accepts exactly the specified inputs *)
Theorem C16_validator_decides_spec : forall start stop n_points positive_start,
  validate_continuous_grid start stop n_points positive_start
  = ROk (spec_accepts start stop n_points positive_start).
Proof. exact validate_is_spec. Qed.
Print Assumptions C16_validator_decides_spec.

(* 2. what acceptance means: finite bounds inside the float range, start < stop,
      an int n_points >= 1, and a positive start for logarithmic grids *)
Theorem C16_accepted_inputs : forall start stop n_points positive_start,
  validate_continuous_grid start stop n_points positive_start = ROk true ->
  exists a b k,
    py_num start = Some (FFin a) /\ py_num stop = Some (FFin b) /\ spec_int n_points = Some k /\
    - float_max_Q <= a /\ a <= float_max_Q /\ - float_max_Q <= b /\ b <= float_max_Q /\
    a < b /\ (1 <= k)%Z /\ (positive_start = true -> 0 < a).
Proof. exact accepted_inputs. Qed.
Print Assumptions C16_accepted_inputs.

(* 3. an accepted linear grid materialises as n_points strictly increasing, equally
      spaced values from start to stop *)
Theorem C16_linear_grid : forall a b n, a < b -> (1 <= n)%nat ->
  length (lin_points a b n) = n /\
  nth 0 (lin_points a b n) 0 == a /\
  ((2 <= n)%nat -> nth (n - 1) (lin_points a b n) 0 == b) /\
  (forall i, (S i < n)%nat ->
     nth i (lin_points a b n) 0 < nth (S i) (lin_points a b n) 0 /\
     nth (S i) (lin_points a b n) 0 - nth i (lin_points a b n) 0 == (b - a) / (Qofnat n - 1)).
Proof. exact linear_grid. Qed.
Print Assumptions C16_linear_grid.

(* 4. an accepted logarithmic grid (over R): first, last, strictly increasing,
      constant ratio of neighbours *)
Local Open Scope R_scope.
Theorem C16_log_grid : forall a b n, 0 < a -> a < b -> (2 <= n)%Z ->
  log_point a b n 0 = a /\ log_point a b n (IZR n - 1) = b /\
  (forall i j, i < j -> log_point a b n i < log_point a b n j) /\
  (forall i, log_point a b n (i + 1) / log_point a b n i = exp ((ln b - ln a) / (IZR n - 1))).
Proof. exact log_grid. Qed.
Print Assumptions C16_log_grid.

(* 5. discrete grids: accepted exactly when the class is a dataclass whose field
      values are, in declaration order, numerically 0, 1, 2, ... *)
Theorem C16_discrete : forall is_dataclass values,
  validate_discrete_grid is_dataclass values = true
  <-> is_dataclass = true /\ values <> [] /\ codes_from 0 values.
Proof. exact validate_discrete_iff. Qed.
Print Assumptions C16_discrete.

(* ... and the executable specification used as the oracle of the runs says the same *)
Theorem C16_discrete_spec_oracle : forall is_dataclass values,
  spec_accepts_discrete is_dataclass values = true
  <-> is_dataclass = true /\ values <> [] /\ codes_from 0 values.
Proof. exact spec_discrete_iff. Qed.
Print Assumptions C16_discrete_spec_oracle.

(* non-vacuity: accepted and rejected inputs exist, incl. the formerly accepted ones *)
Example C16_nonvacuous :
  validate_continuous_grid (PInt 1) (PFloat (FFin (5 # 2))) (PInt 4) true = ROk true /\
  validate_continuous_grid (PInt 0) (PFloat FPInf) (PInt 3) false = ROk false /\
  validate_continuous_grid (PFloat FNaN) (PInt 1) (PInt 2) false = ROk false /\
  validate_continuous_grid (PInt 0) (PInt 1) (PInt 3) true = ROk false /\
  validate_discrete_grid true [PInt 0; PFloat (FFin 1); PInt 2] = true /\
  validate_discrete_grid true [PInt 0; PInt 2] = false.
Proof. vm_compute. repeat split. Qed.

(* Properties/C03.v — simulated states follow the model's law of motion.                       *)
(* STATUS (partial): the row oracle's transition (Spec.Bellman.next_det / weight_row) is the     *)
(* model function next_<state> evaluated by name at the agent's states, choices, period and      *)
(* parameters, and the row of shocks[state] selected by the labels of the dependencies in        *)
(* signature order; a drawn label has positive probability in that row (inverse-CDF theorem).    *)
(* lcm.simulate is tied to the oracle row by row on every run (family simulate_vs_spec).         *)
From Coq Require Import Lqa.
From LCM Require Import Base.Prelude Base.Arr Spec.Lang Spec.Bellman Model.RandomChoice Proofs.C04_Choice.
Local Open Scope Q_scope.

Theorem C03_deterministic_transition_is_the_model_function : forall m p e s,
  next_det m p e s = eval_fun (depth m) m p e ("next_" ++ s).
Proof. reflexivity. Qed.
Print Assumptions C03_deterministic_transition_is_the_model_function.

(* the selected row: one index per dependency, in the order of the transition's signature *)
Theorem C03_weight_row_selected_by_dependency_labels : forall m p e s f a idx,
  find_fun m ("next_" ++ s) = Some f -> assoc s (shocks p) = Some a ->
  omap (fun d => let v := look e d in
                 if Qeqb (inject_Z (Qfloor v)) v && (0 <=? Qfloor v)%Z
                 then Some (Z.to_nat (Qfloor v)) else None) (fargs f) = Some idx ->
  in_boundsb (removelast (shape a)) idx = true ->
  weight_row m p e s = Some (map (fun k => get 0 a (idx ++ [k])) (seq 0 (last (shape a) 0%nat))).
Proof.
  intros m p e s f a idx Hf Ha Hi Hb. unfold weight_row. rewrite Hf. cbn [obind]. rewrite Ha. cbn [obind].
  cbv zeta in Hi. rewrite Hi. cbn [obind]. now rewrite Hb.
Qed.
Print Assumptions C03_weight_row_selected_by_dependency_labels.

Theorem C03_drawn_label_has_positive_probability : forall row u,
  Forall (fun x => 0 <= x) row -> 0 < total row -> 0 <= u -> u < 1 ->
  (choice row u < length row)%nat /\ 0 < nth (choice row u) row 0.
Proof.
  intros row u H1 H2 H3 H4. destruct (choice_spec row u H1 H2 H3 H4) as (A & B & _). auto.
Qed.
Print Assumptions C03_drawn_label_has_positive_probability.

(* ---- about the regenerated forward loop of lcm.simulate.simulate (Gen/Simulate.v) ---------------- *)
From LCM Require Import Model.RandomChoice Gen.Simulate Proofs.C04_SimulateLoop.
(* period 0 starts from the initial states; the states of period t+1 are next_state applied to the   *)
(* states and the recorded choices of period t, the period t, the params and period t's draw keys,   *)
(* with the next_ prefix removed                                                                      *)
Theorem C03_code_law_of_motion : forall (E : sim_env),
  fst (sim_at E 0) = e_initial_states E /\
  forall t, fst (sim_at E (S t))
            = e_remove_next_prefix E (e_next_state E (fst (sim_at E t)) (snd (sim_decision E (fst (sim_at E t)) t)) t
                                                     (e_params E) (sim_draw_keys E t)).
Proof. intros E. split; [exact (bundled_initial_states E)|exact (bundled_law_of_motion E)]. Qed.
Print Assumptions C03_code_law_of_motion.

(* ---- about the regenerated stochastic weight function (Gen/WeightFunc.v) ------------------------- *)
From LCM Require Import Gen.WeightFunc Proofs.C03_WeightFunc.
(* the row of transition probabilities the code reads for a stochastic state is the row the            *)
(* specification selects: indexed by the dependencies' labels in the next function's signature order   *)
Theorem C03_code_weight_row_is_the_specifications : forall m p e s f a,
  find_fun m ("next_" ++ s) = Some f -> assoc s (shocks p) = Some a ->
  weight_func (fargs f) a e = weight_row m p e s.
Proof. exact weight_func_is_spec_weight_row. Qed.
Print Assumptions C03_code_weight_row_is_the_specifications.

(* Properties/C19.v — vectorisation dispatchers equal nested loops; wrappers reject bad calls. *)
(* Model/Dispatchers.v and Model/Functools.v are hand-written mechanistic models of            *)
(* lcm/dispatchers.py and lcm/functools.py, tied to the code by the correspondence families     *)
(* dispatchers / dispatchers_pytree / wrappers on every run.                                    *)
From LCM Require Import Base.Prelude Base.Arr Model.Dispatchers Model.Functools.
From Coq Require Import Permutation.
From LCM Require Import Proofs.C19_Dispatch Proofs.C19_Wrappers Proofs.C19_Binding.
Local Open Scope nat_scope.

(* 1. product map: entry (i1..ik ++ r) is f applied to the i1-th .. ik-th slices of the listed
      arguments (all others passed through); the axes follow the order of the LISTED positions *)
Theorem C19_productmap_entry : forall (f : list qarr -> qarr) (osh : list nat),
  (forall a, wf (f a) /\ shape (f a) = osh) ->
  forall ps args idx r, NoDup ps ->
  in_bounds (dims ps args) idx -> in_bounds osh r ->
  qget (base_productmap f ps args) (idx ++ r) = qget (f (slice_all args ps idx)) r.
Proof.
  intros f osh Hf ps args idx r Hnd Hi Hr.
  exact (bpm_get f osh (fun _ => True) (fun _ => True) (fun _ _ _ _ _ => I) (fun a _ => Hf a)
                 ps args idx r I Hnd (proj2 (Forall_forall _ _) (fun _ _ => I)) Hi Hr).
Qed.
Print Assumptions C19_productmap_entry.

Theorem C19_productmap_shape : forall (f : list qarr -> qarr) (osh : list nat),
  (forall a, wf (f a) /\ shape (f a) = osh) ->
  forall ps args, NoDup ps ->
  wf (base_productmap f ps args) /\ shape (base_productmap f ps args) = dims ps args ++ osh.
Proof.
  intros f osh Hf ps args Hnd.
  exact (bpm_wf_shape f osh (fun _ => True) (fun _ => True) (fun _ _ _ _ _ => I) (fun a _ => Hf a)
                      ps args I Hnd (proj2 (Forall_forall _ _) (fun _ _ => I))).
Qed.
Print Assumptions C19_productmap_shape.

(* 2. joint map: all listed arguments are sliced at the same position *)
Theorem C19_vmap_1d_entry : forall f positions args osh j r,
  (forall a, wf (f a) /\ shape (f a) = osh) ->
  j < lead (nth (hd 0 positions) args dflt_arr) -> in_bounds osh r ->
  qget (vmap_1d f positions args) (j :: r) = qget (f (slice_at args positions j)) r /\
  shape (vmap_1d f positions args) = lead (nth (hd 0 positions) args dflt_arr) :: osh.
Proof. exact vmap_1d_get. Qed.
Print Assumptions C19_vmap_1d_entry.

Theorem C19_joint_slices : forall args mapped i p, p < length args ->
  nth p (slice_at args mapped i) dflt_arr
  = if existsb (Nat.eqb p) mapped then qslice (nth p args dflt_arr) i else nth p args dflt_arr.
Proof. exact slice_at_spec. Qed.
Print Assumptions C19_joint_slices.

(* 3. space map: joint axis first (put_dense_first = false) or last (true) *)
Theorem C19_spacemap_sparse_first : forall f dense sparse args osh j idx r,
  (forall a, wf (f a) /\ shape (f a) = osh) -> sparse <> [] -> NoDup dense ->
  (forall p, In p dense -> In p sparse -> False) ->
  j < lead (nth (hd 0 sparse) args dflt_arr) ->
  in_bounds (dims dense args) idx -> in_bounds osh r ->
  qget (spacemap f dense sparse false args) (j :: idx ++ r)
  = qget (f (slice_all (slice_at args sparse j) dense idx)) r /\
  shape (spacemap f dense sparse false args)
  = lead (nth (hd 0 sparse) args dflt_arr) :: dims dense args ++ osh.
Proof. exact spacemap_sparse_first. Qed.
Print Assumptions C19_spacemap_sparse_first.

Theorem C19_spacemap_dense_first : forall f dense sparse args osh j idx r,
  (forall a, wf (f a) /\ shape (f a) = osh) -> sparse <> [] -> NoDup dense ->
  (forall p, In p dense -> In p sparse -> False) ->
  j < lead (nth (hd 0 sparse) args dflt_arr) ->
  in_bounds (dims dense args) idx -> in_bounds osh r ->
  qget (spacemap f dense sparse true args) (idx ++ j :: r)
  = qget (f (slice_at (slice_all args dense idx) sparse j)) r /\
  shape (spacemap f dense sparse true args)
  = dims dense args ++ lead (nth (hd 0 sparse) args dflt_arr) :: osh.
Proof. exact spacemap_dense_first. Qed.
Print Assumptions C19_spacemap_dense_first.

(* 4. wrappers reject positional arguments (allow_only_kwargs), unknown keywords, keywords
      naming a positionally filled parameter (allow_args) and missing parameters *)
Theorem C19_allow_only_kwargs_rejects : forall (V : Type) (s : sig) f (kw : kwargs V),
  (forall (a : V) args, allow_only_kwargs s f (a :: args) kw = PErr ValueError) /\
  (forall k, In k (map fst kw) -> ~ In k (names s) -> allow_only_kwargs s f [] kw = PErr ValueError) /\
  (forall p, In p (names s) -> ~ In p (map fst kw) -> allow_only_kwargs s f [] kw = PErr ValueError).
Proof.
  intros V s f kw. split; [intros; apply aok_rejects_positional|].
  split; [apply aok_rejects_unexpected|apply aok_rejects_missing].
Qed.
Print Assumptions C19_allow_only_kwargs_rejects.

Theorem C19_allow_args_rejects : forall (V : Type) (s : sig) f (args : list V) (kw : kwargs V),
  (length args + length kw <> length (names s) -> allow_args s f args kw = PErr ValueError) /\
  (forall k, In k (map fst kw) -> ~ In k (skipn (length args) (names s)) ->
             allow_args s f args kw = PErr ValueError) /\
  (forall p, In p (skipn (length args) (names s)) -> ~ In p (map fst kw) ->
             allow_args s f args kw = PErr ValueError).
Proof.
  intros V s f args kw. split; [apply aa_rejects_count|].
  split; [apply aa_rejects_unexpected|apply aa_rejects_missing].
Qed.
Print Assumptions C19_allow_args_rejects.

(* 5. the positive half: a well-formed call binds every value to the parameter of the same name,
      whatever the order of the keywords, for signatures with positional-only (po),
      positional-or-keyword (pk) and keyword-only (ko) parameters.  [v p] is the value intended for
      parameter p; [kw] is ANY permutation of the keyword items. *)
Theorem C19_allow_only_kwargs_binds_by_name : forall (V : Type) (v : string -> V) (po pk ko : list string),
  NoDup (po ++ pk ++ ko) ->
  forall kw : kwargs V, Permutation kw (named V v (po ++ pk ++ ko)) ->
  let s := (with_kind PosOnly po ++ with_kind PosOrKw pk ++ with_kind KwOnly ko)%list in
  allow_only_kwargs s (bind s) [] kw = POk (named V v (names s)).
Proof. exact allow_only_kwargs_binds_by_name. Qed.
Print Assumptions C19_allow_only_kwargs_binds_by_name.

(* allow_args: the first n_pos parameters positionally, the remaining ones by keyword in any order *)
Theorem C19_allow_args_binds_by_name : forall (V : Type) (v : string -> V) (po pk ko : list string),
  NoDup (po ++ pk ++ ko) ->
  forall n_pos, n_pos <= length (po ++ pk) ->
  forall kw : kwargs V, Permutation kw (named V v (skipn n_pos (po ++ pk ++ ko))) ->
  let s := (with_kind PosOnly po ++ with_kind PosOrKw pk ++ with_kind KwOnly ko)%list in
  allow_args s (bind s) (map v (firstn n_pos (po ++ pk ++ ko))) kw = POk (named V v (names s)).
Proof. exact allow_args_binds_by_name. Qed.
Print Assumptions C19_allow_args_binds_by_name.

Local Open Scope string_scope.
Example C19_wrappers_all_orders :
  let s := [("a", PosOnly); ("b", PosOrKw); ("c", PosOrKw); ("d", KwOnly)] in
  let want := POk [("a", 1%Z); ("b", 2%Z); ("c", 3%Z); ("d", 4%Z)] in
  allow_only_kwargs s (bind s) [] [("d", 4%Z); ("b", 2%Z); ("a", 1%Z); ("c", 3%Z)] = want /\
  allow_only_kwargs s (bind s) [] [("c", 3%Z); ("a", 1%Z); ("d", 4%Z); ("b", 2%Z)] = want /\
  allow_args s (bind s) [1%Z] [("d", 4%Z); ("c", 3%Z); ("b", 2%Z)] = want /\
  allow_args s (bind s) [1%Z; 2%Z] [("d", 4%Z); ("c", 3%Z)] = want /\
  allow_args s (bind s) [1%Z; 2%Z; 3%Z; 4%Z] [] = want /\
  allow_args s (bind s) [1%Z] [("a", 9%Z); ("c", 3%Z); ("d", 4%Z)] = PErr ValueError.
Proof. vm_compute. repeat split. Qed.

(* non-vacuity of the dispatcher theorems: a 2-argument function mapped over both arguments *)
Local Open Scope nat_scope.
Example C19_nonvacuous :
  let f := fun args : list qarr =>
             scalar (Qred (2 * qget (nth 0 args dflt_arr) [] + 3 * qget (nth 1 args dflt_arr) [])%Q) in
  let args := [vec [1%Q; 2%Q]; vec [10%Q; 20%Q; 30%Q]] in
  (forall a, wf (f a) /\ shape (f a) = []) /\
  shape (base_productmap f [1; 0] args) = [3; 2] /\
  Qeq_bool (qget (base_productmap f [1; 0] args) [2; 1]) 94 = true.
Proof. cbv zeta. split; [intros a; split; reflexivity|]. split; vm_compute; reflexivity. Qed.

(* ---- the regenerated dispatchers (Gen/DispatchersGen.v) ARE the model the theorems above are about - *)
From LCM Require Import Model.VmapSpec Gen.DispatchersGen Proofs.C19_DispGen.
Theorem C19_code_base_productmap_is_the_model : forall f parameters axes,
  (forall ax, In ax axes -> index_in parameters ax < length parameters) ->
  gen_base_productmap f parameters axes = base_productmap f (map (index_in parameters) axes).
Proof. exact gen_base_productmap_is_model. Qed.
Print Assumptions C19_code_base_productmap_is_the_model.

Theorem C19_code_vmap_1d_is_the_model : forall f parameters variables args,
  variables <> [] ->
  (forall v, In v variables -> index_in parameters v < length parameters) ->
  (forall p q, In p (map (index_in parameters) variables) -> In q (map (index_in parameters) variables) ->
     lead (nth p args dflt_arr) = lead (nth q args dflt_arr)) ->
  gen_vmap_1d f parameters variables args = vmap_1d f (map (index_in parameters) variables) args.
Proof. exact gen_vmap_1d_is_model. Qed.
Print Assumptions C19_code_vmap_1d_is_the_model.

(* spacemap as the solver calls it (put_dense_first = False, see C05_driver_maps_sparse_variables_first) *)
Theorem C19_code_spacemap_sparse_first_is_the_model : forall f parameters dense sparse args,
  (forall v, In v dense -> index_in parameters v < length parameters) ->
  (forall v, In v sparse -> index_in parameters v < length parameters) ->
  (forall p q, In p (map (index_in parameters) sparse) -> In q (map (index_in parameters) sparse) ->
     lead (nth p args dflt_arr) = lead (nth q args dflt_arr)) ->
  gen_spacemap f parameters dense sparse false args
  = spacemap f (map (index_in parameters) dense) (map (index_in parameters) sparse) false args.
Proof. exact gen_spacemap_sparse_first_is_model. Qed.
Print Assumptions C19_code_spacemap_sparse_first_is_the_model.

(* ---- the regenerated wrappers (Gen/FunctoolsGen.v) ARE the model the theorems above are about ------ *)
From LCM Require Import Gen.FunctoolsGen Proofs.C19_FunctoolsGen.
Theorem C19_code_wrappers_are_the_model : forall (V : Type) s f args kw,
  gen_allow_only_kwargs V s f args kw = allow_only_kwargs s f args kw /\
  gen_allow_args V s f args kw = allow_args s f args kw.
Proof. intros. split; [apply gen_allow_only_kwargs_is_model|apply gen_allow_args_is_model]. Qed.
Print Assumptions C19_code_wrappers_are_the_model.

(* ---- the product map for functions with an output of any element type ----------------------- *)
From LCM Require Import Model.DispatchersG Proofs.C19_DispatchG.
(* Model/DispatchersG.v generalises the element type of the OUTPUT array (values with -inf, booleans: *)
(* what compute_ccv and utility_and_feasibility return); at element type Q it is the model above,      *)
(* by computation; the entry and shape theorems hold for every output type                            *)
Theorem C19_generic_productmap_is_the_model : forall f ps, base_productmapG (A:=Q) f ps = base_productmap f ps.
Proof. exact base_productmapG_is_base_productmap. Qed.
Print Assumptions C19_generic_productmap_is_the_model.

Theorem C19_productmap_entry_for_any_output_type : forall (A : Type) (dA : A) (f : list qarr -> arr A) (osh : list nat),
  (forall a, wf (f a) /\ shape (f a) = osh) ->
  forall ps args idx r, NoDup ps ->
  in_bounds (dims ps args) idx -> in_bounds osh r ->
  get dA (base_productmapG f ps args) (idx ++ r) = get dA (f (slice_all args ps idx)) r /\
  wf (base_productmapG f ps args) /\ shape (base_productmapG f ps args) = (dims ps args ++ osh)%list.
Proof.
  intros A dA f osh Hf ps args idx r Hnd Hi Hr. split.
  - exact (bpmG_get dA f osh (fun _ => True) (fun _ => True) (fun _ _ _ _ _ => I) (fun a _ => Hf a)
                    ps args idx r I Hnd (proj2 (Forall_forall _ _) (fun _ _ => I)) Hi Hr).
  - exact (bpmG_wf_shape f osh (fun _ => True) (fun _ => True) (fun _ _ _ _ _ => I) (fun a _ => Hf a)
                         ps args I Hnd (proj2 (Forall_forall _ _) (fun _ _ => I))).
Qed.
Print Assumptions C19_productmap_entry_for_any_output_type.

(* Properties/C08.v — agents are simulated independently of each other.                          *)
(* STATUS (partial): proved — the bookkeeping that maps the rows of the agents x restricted-       *)
(* choices product back to agents (segment id = agent, every agent keeps exactly its own           *)
(* filter-passing rows), on the model of create_indexers_and_segments (C17) instantiated with the   *)
(* agents as leading axis; and the row oracle of the specification judges a row from the agent's    *)
(* own state only (C02).  That lcm's simulated paths are invariant under permuting, sub-setting     *)
(* and duplicating agents and under reordering the keys of initial_states is checked on lcm          *)
(* itself by the metamorphic family agents_metamorphic on every run.                                 *)
From LCM Require Import Base.Prelude Base.Arr Base.ArrOps Model.StateSpace.
From LCM Require Import Proofs.C17_StateSpace Proofs.C08_Agents.
Local Open Scope nat_scope.

Theorem C08_every_agent_keeps_its_own_segment : forall (mask : arr bool) (n_agents n_comb : nat),
  shape mask = [n_agents; n_comb] ->
  (forall i, i < n_agents -> has_passing mask 1 [i] = true) ->
  feasible_states mask 1 = map (fun i => [i]) (seq 0 n_agents) /\
  num_segments_r (create_indexers_and_segments mask 1) = n_agents.
Proof. exact every_agent_keeps_its_own_segment. Qed.
Print Assumptions C08_every_agent_keeps_its_own_segment.

Theorem C08_segment_id_is_the_agent : forall (mask : arr bool) (n_agents n_comb : nat),
  shape mask = [n_agents; n_comb] ->
  (forall i, i < n_agents -> has_passing mask 1 [i] = true) ->
  forall k idx, In (k, idx) (tagged mask 1 0 (feasible_states mask 1)) ->
  exists ci, idx = [k] ++ ci /\ In ci (passing mask 1 [k]) /\ k < n_agents.
Proof. exact segment_id_is_the_agent. Qed.
Print Assumptions C08_segment_id_is_the_agent.

Theorem C08_rows_and_segments_aligned : forall mask,
  let r := create_indexers_and_segments mask 1 in
  map snd (tagged mask 1 0 (feasible_states mask 1)) = true_positions mask /\
  map fst (tagged mask 1 0 (feasible_states mask 1)) = segment_ids_r r.
Proof.
  intros mask r. destruct (segments_are_the_ranks_of_the_state_parts mask 1) as (A & B & _). auto.
Qed.
Print Assumptions C08_rows_and_segments_aligned.

Example C08_nonvacuous :
  let mask := mkArr [3; 2] [true; false; true; true; false; true] in
  segment_ids_r (create_indexers_and_segments mask 1) = [0; 1; 1; 2] /\
  (forall i, i < 3 -> has_passing mask 1 [i] = true).
Proof.
  split; [vm_compute; reflexivity|]. intros i Hi.
  destruct i as [|[|[|i]]]; try lia; vm_compute; reflexivity.
Qed.

(* ---- about the regenerated create_choice_segments (Gen/ChoiceSegments.v) ------------------------- *)
From LCM Require Import Gen.ChoiceSegments Proofs.C08_ChoiceSegments.
(* rows = for every agent the booleans "this sparse-choice combination passes the filters" (k each): *)
(* the segment ids list every agent as often as it has passing combinations, in agent order (so a row's  *)
(* segment is its agent), and the number of segments is the number of agents with a passing combination  *)
(* -- equal to the number of agents exactly when every agent has one                                       *)
Theorem C08_code_segments_are_grouped_by_agent : forall (rows : list (list bool)) (k : nat),
  (forall r, In r rows -> length r = k) -> 0 < k -> rows <> [] ->
  fst (create_choice_segments (concat rows) (length rows))
  = flat_map (fun ir : nat * list bool => repeat (fst ir) (count_true (snd ir))) (combine (seq 0 (length rows)) rows) /\
  snd (create_choice_segments (concat rows) (length rows))
  = length (filter (fun r => negb (count_true r =? 0)) rows).
Proof.
  intros rows k H1 H2 H3. split;
    [exact (segments_are_grouped_by_agent rows k H1 H2 H3)|exact (num_segments_is_number_of_agents_with_a_passing_combination rows k H1 H2 H3)].
Qed.
Print Assumptions C08_code_segments_are_grouped_by_agent.

Theorem C08_code_every_agent_keeps_a_segment : forall (rows : list (list bool)) (k : nat),
  (forall r, In r rows -> length r = k) -> 0 < k -> rows <> [] ->
  (forall r, In r rows -> count_true r <> 0) ->
  snd (create_choice_segments (concat rows) (length rows)) = length rows.
Proof. exact every_agent_keeps_a_segment_iff_every_agent_has_a_choice. Qed.
Print Assumptions C08_code_every_agent_keeps_a_segment.

(* Properties/C08.v — agents are simulated independently of each other.                          *)
(* STATUS (partial): proved — the bookkeeping that maps the rows of the agents x restricted-       *)
(* choices product back to agents (segment id = agent, every agent keeps exactly its own           *)
(* filter-passing rows), on the model of create_indexers_and_segments (C17) instantiated with the   *)
(* agents as leading axis; and the row oracle of the specification judges a row from the agent's    *)
(* own state only (C02).  That lcm's simulated paths are invariant under permuting, sub-setting     *)
(* and duplicating agents and under reordering the keys of initial_states is checked on lcm          *)
(* itself by the metamorphic family agents_metamorphic on every run.                                 *)
From LCM Require Import Base.Prelude Base.Arr Base.ArrOps Model.StateSpace.
From LCM Require Import Proofs.C17_StateSpace Proofs.C08_Agents.
Local Open Scope nat_scope.

Theorem C08_every_agent_keeps_its_own_segment : forall (mask : arr bool) (n_agents n_comb : nat),
  shape mask = [n_agents; n_comb] ->
  (forall i, i < n_agents -> has_passing mask 1 [i] = true) ->
  feasible_states mask 1 = map (fun i => [i]) (seq 0 n_agents) /\
  num_segments_r (create_indexers_and_segments mask 1) = n_agents.
Proof. exact every_agent_keeps_its_own_segment. Qed.
Print Assumptions C08_every_agent_keeps_its_own_segment.

Theorem C08_segment_id_is_the_agent : forall (mask : arr bool) (n_agents n_comb : nat),
  shape mask = [n_agents; n_comb] ->
  (forall i, i < n_agents -> has_passing mask 1 [i] = true) ->
  forall k idx, In (k, idx) (tagged mask 1 0 (feasible_states mask 1)) ->
  exists ci, idx = [k] ++ ci /\ In ci (passing mask 1 [k]) /\ k < n_agents.
Proof. exact segment_id_is_the_agent. Qed.
Print Assumptions C08_segment_id_is_the_agent.

Theorem C08_rows_and_segments_aligned : forall mask,
  let r := create_indexers_and_segments mask 1 in
  map snd (tagged mask 1 0 (feasible_states mask 1)) = true_positions mask /\
  map fst (tagged mask 1 0 (feasible_states mask 1)) = segment_ids_r r.
Proof.
  intros mask r. destruct (segments_are_the_ranks_of_the_state_parts mask 1) as (A & B & _). auto.
Qed.
Print Assumptions C08_rows_and_segments_aligned.

Example C08_nonvacuous :
  let mask := mkArr [3; 2] [true; false; true; true; false; true] in
  segment_ids_r (create_indexers_and_segments mask 1) = [0; 1; 1; 2] /\
  (forall i, i < 3 -> has_passing mask 1 [i] = true).
Proof.
  split; [vm_compute; reflexivity|]. intros i Hi.
  destruct i as [|[|[|i]]]; try lia; vm_compute; reflexivity.
Qed.

(* Properties/C09.v — generated functions are pure.                                              *)
(* STATUS (partial): runtime state (JIT caches, captured tracers, mutation of arguments, hash-seed *)
(* dependent iteration order) cannot be exhibited by a Gallina model.  Proved here: the abstract   *)
(* specification lcm's function objects are compared with — a stateless object returns, for any     *)
(* call history, the function of the current arguments — and the one piece of logic behind the      *)
(* hash-seed clause: the argument names of the generated utility-and-feasibility function are        *)
(* collected in a Python set, i.e. in arbitrary order, and a function called by keyword does not      *)
(* depend on the order of its signature.  The history-based correspondence (call sequences on one    *)
(* object vs freshly built objects and vs the Spec; processes with different PYTHONHASHSEED; deep     *)
(* comparison of model and params before/after) runs on every check.                                 *)
From LCM Require Import Base.Prelude Base.Arr Model.Dispatchers Proofs.C09_Purity.
Local Open Scope nat_scope.

Theorem C09_history_free : forall (A B S : Type) (f : A -> B) (s0 : S) (calls : list A),
  run_history A B S f s0 calls = map f calls.
Proof. exact history_free. Qed.
Print Assumptions C09_history_free.

Theorem C09_result_determined_by_current_arguments :
  forall (A B S : Type) (f : A -> B) (s0 : S) (calls : list A) k d, k < length calls ->
  nth k (run_history A B S f s0 calls) (f d) = f (nth k calls d).
Proof. exact kth_result_depends_on_kth_arguments. Qed.
Print Assumptions C09_result_determined_by_current_arguments.

Theorem C09_argument_order_is_irrelevant : forall f perm kw,
  (forall p, In p (params f) -> In p perm) -> call (reorder f perm) kw = call f kw.
Proof. exact call_is_independent_of_signature_order. Qed.
Print Assumptions C09_argument_order_is_irrelevant.

Example C09_nonvacuous :
  run_history nat nat unit (fun x => x * x) tt [3; 1; 3; 2] = [9; 1; 9; 4].
Proof. reflexivity. Qed.

(* Properties/C18.v — maximisers returned by the arg-max primitives attain the maximum.       *)
(* argmax, segment_argmax (Gen/Argmax.v) and solve_discrete_problem_no_shocks                  *)
(* (Gen/DiscreteNoShocks.v) are REGENERATED from /repo/src/lcm/argmax.py and                    *)
(* discrete_problem.py on every run.  Arrays are over val = -inf | finite rational | undefined; *)
(* [defined] excludes NaN.  at_ a axes outer k is the index of a that has [outer] on the kept   *)
(* axes and the k-th tuple (row-major, in the order of [axes]) on the reduced axes.             *)
From LCM Require Import Base.Prelude Base.Arr Base.ArrOps Gen.Argmax Gen.DiscreteNoShocks.
From LCM Require Import Proofs.ArrLemmas2 Proofs.C18_Moved Proofs.C18_Spec Proofs.C18_Segment Proofs.C18_Reduce.
Local Open Scope nat_scope.

(* 1. the masked maximum: an upper bound of all unmasked entries of the slice, attained by one
      of them or -inf (initial) *)
Theorem C18_argmax_returns_masked_max : forall (a : arr val) (mask : arr bool) (axes : list nat),
  wf a -> Forall defined (data a) -> shape mask = shape a ->
  forall outer, in_bounds (front_shape (shape a) axes) outer ->
  let res := argmax a (Some axes) (Some VNegInf) (Some mask) in
  let N := size (inner_shape (shape a) axes) in
  let M := get VUndef (snd res) outer in
  M = fold_right vmax VNegInf (masked_vals a mask axes outer) /\
  defined M /\
  (forall k, k < N -> ok_ a mask axes outer k = true -> vle (val_ a axes outer k) M) /\
  (M = VNegInf \/ exists k, k < N /\ ok_ a mask axes outer k = true /\ val_ a axes outer k = M).
Proof. exact argmax_max_spec. Qed.
Print Assumptions C18_argmax_returns_masked_max.

(* 2. the position: unmasked, attains the maximum, the first such flattened position;
      0 if everything is masked *)
Theorem C18_argmax_returns_first_maximiser : forall (a : arr val) (mask : arr bool) (axes : list nat),
  wf a -> Forall defined (data a) -> shape mask = shape a ->
  forall outer, in_bounds (front_shape (shape a) axes) outer ->
  let res := argmax a (Some axes) (Some VNegInf) (Some mask) in
  let N := size (inner_shape (shape a) axes) in
  let M := get VUndef (snd res) outer in
  let p := get 0 (fst res) outer in
  ((exists k, k < N /\ ok_ a mask axes outer k = true) ->
     p < N /\ ok_ a mask axes outer p = true /\ veqb_num (val_ a axes outer p) M = true /\
     forall k, k < p -> attains a mask axes outer M k = false) /\
  ((forall k, k < N -> ok_ a mask axes outer k = false) -> p = 0 /\ M = VNegInf).
Proof. exact argmax_pos_spec. Qed.
Print Assumptions C18_argmax_returns_first_maximiser.

Theorem C18_argmax_shapes : forall (a : arr val) (mask : arr bool) (axes : list nat),
  shape mask = shape a ->
  let res := argmax a (Some axes) (Some VNegInf) (Some mask) in
  shape (fst res) = front_shape (shape a) axes /\ shape (snd res) = front_shape (shape a) axes.
Proof. exact argmax_shapes. Qed.
Print Assumptions C18_argmax_shapes.

(* 3. what the addressed index is: a legal index carrying [outer] on the kept axes (ascending)
      and the inner tuple on the reduced axes (in the order given) *)
Theorem C18_addressed_index : forall sh axes outer inner j,
  NoDup axes -> (forall ax, In ax axes -> ax < length sh) ->
  in_bounds (front_shape sh axes) outer -> in_bounds (inner_shape sh axes) inner ->
  in_bounds sh (orig_index (length sh) axes outer inner) /\
  (j < length (perm_of (length sh) axes) ->
   nth (nth j (perm_of (length sh) axes) 0) (orig_index (length sh) axes outer inner) 0
   = nth j (outer ++ inner) 0).
Proof.
  intros sh axes outer inner j Hnd Hr Ho Hi. split.
  - now apply orig_index_in_bounds.
  - now apply orig_index_spec.
Qed.
Print Assumptions C18_addressed_index.

(* 4. segment-wise arg-max: for every non-empty segment, a row of that segment attaining the
      segment maximum (the largest such row), together with that maximum *)
Theorem C18_segment_argmax : forall (dat : arr val) (ids : list nat) (num n : nat) (rest : list nat),
  wf dat -> Forall defined (data dat) -> shape dat = n :: rest -> length ids = n ->
  forall s r, s < num -> in_bounds rest r -> rows ids s <> [] ->
  let res := segment_argmax dat ids num in
  let M := get VUndef (snd res) (s :: r) in
  let p := get 0 (fst res) (s :: r) in
  M = seg_max dat ids s r /\
  (forall row, In row (rows ids s) -> vle (get VUndef dat (row :: r)) M) /\
  In p (rows ids s) /\ veqb_num (get VUndef dat (p :: r)) M = true /\
  (forall row, In row (rows ids s) -> veqb_num (get VUndef dat (row :: r)) M = true -> row <= p).
Proof. exact segment_argmax_spec. Qed.
Print Assumptions C18_segment_argmax.

(* 5. reducing choice axes by max and sparse choice rows by segment max gives, for every state,
      the maximum over ALL discrete choice combinations of that state *)
Theorem C18_reduce_axes_then_segments_is_max_over_choices :
  forall (cc : arr val) (axes : list nat) (seg : seginfo) (n : nat) (rest : list nat),
  wf cc -> Forall defined (data cc) ->
  select_mask (axis_mask (length (shape cc)) axes) (shape cc) false = n :: rest ->
  length (segment_ids seg) = n ->
  forall s r, s < num_segments seg -> in_bounds rest r ->
  let red_sh := select_mask (axis_mask (length (shape cc)) axes) (shape cc) true in
  let M := get VUndef (solve_discrete_problem_no_shocks cc (Some axes) (Some seg) tt) (s :: r) in
  defined M /\
  (forall row red, In row (srows seg s) -> In red (indices red_sh) -> vle (entry cc axes row r red) M) /\
  (M = VNegInf \/
   exists row red, In row (srows seg s) /\ In red (indices red_sh) /\ entry cc axes row r red = M).
Proof. exact reduce_is_max_over_choices. Qed.
Print Assumptions C18_reduce_axes_then_segments_is_max_over_choices.

(* non-vacuity: a 2x3 array with a tie, a mask and a fully masked row *)
Example C18_nonvacuous :
  let a := mkArr [2; 3] [VFin 1; VFin 5; VFin 5; VFin 2; VFin 0; VFin 9] in
  let m := mkArr [2; 3] [true; false; true; false; false; false] in
  wf a /\ Forall defined (data a) /\ shape m = shape a /\ in_bounds (front_shape (shape a) [1]) [0] /\
  data (fst (argmax a (Some [1]) (Some VNegInf) (Some m))) = [2; 0] /\
  data (fst (segment_argmax (mkArr [3] [VFin 1; VFin 1; VFin 0]) [0; 0; 1] 2)) = [1; 2].
Proof.
  cbv zeta. split; [reflexivity|]. split; [repeat constructor; discriminate|].
  split; [reflexivity|]. split; [vm_compute; auto|]. split; vm_compute; reflexivity.
Qed.

(* ---- about the regenerated _determine_dense_discrete_choice_axes (Gen/ChoiceAxes.v) ------------- *)
From LCM Require Import Gen.ChoiceAxes Proofs.C18_ChoiceAxes.
(* the axes reduced by the plain maximum are exactly the positions of the dense CHOICE variables in  *)
(* the layout [sparse axis if any] ++ [dense variables that are not continuous choices, in the order  *)
(* of variable_info]; None iff no dense variable of that layout is a choice                            *)
Theorem C18_code_reduced_axes_are_the_dense_discrete_choices : forall vi : list varinfo,
  NoDup (map vname vi) -> ~ In "__sparse__"%string (map vname vi) ->
  match determine_dense_discrete_choice_axes vi with
  | Some axes => axes <> nil /\
                 forall i, In i axes <-> exists j, i = (offset vi + j)%nat /\ (j < length (dense_layout vi))%nat /\
                                                  is_choice (nth j (dense_layout vi) d_var) = true
  | None => forall j, (j < length (dense_layout vi))%nat -> is_choice (nth j (dense_layout vi) d_var) = false
  end.
Proof. exact choice_axes_spec. Qed.
Print Assumptions C18_code_reduced_axes_are_the_dense_discrete_choices.

(* ---- the choice axes of a model without filter-restricted variables --------------------------------------------- *)
From LCM Require Import Spec.Lang Gen.DiscreteNoShocks Gen.SolveDiscrete Gen.SimulateKernels Proofs.C18_AxesFilterFree Proofs.C18_AxesSimulation.
(* variable_info lists discrete states, discrete choices, continuous states, continuous choices (all dense, none      *)
(* auxiliary); states and choices have different names.  The regenerated axis functions give: for the solver the axes  *)
(* |dst| .. |dst|+|dch|-1, for the simulation 1 .. |dch|; none without a dense discrete choice; and the regenerated     *)
(* get_solve_discrete_problem / get_discrete_policy_calculator are the reductions with exactly these axes.             *)
Theorem C18_code_choice_axes_of_a_model_without_filters :
  forall dst dch cst cch : list (string * grid), NoDup (map fst (dst ++ dch ++ cst ++ cch)) ->
  determine_dense_discrete_choice_axes (vi_of dst dch cst cch)
  = match dch with [] => None | _ => Some (seq (length dst) (length dch)) end /\
  determine_discrete_dense_choice_axes (vi_of dst dch cst cch)
  = match dch with [] => None | _ => Some (seq 1 (length dch)) end.
Proof. intros dst dch cst cch H. split; [now apply solver_axes_of_filter_free|now apply simulation_axes_of_filter_free]. Qed.
Print Assumptions C18_code_choice_axes_of_a_model_without_filters.

Theorem C18_code_reductions_of_a_model_without_filters :
  forall dst dch cst cch : list (string * grid), NoDup (map fst (dst ++ dch ++ cst ++ cch)) ->
  (forall is_last cc,
     get_solve_discrete_problem (vi_of dst dch cst cch) is_last None cc tt
     = solve_discrete_problem_no_shocks cc (match dch with [] => None | _ => Some (seq (length dst) (length dch)) end) None tt) /\
  (forall values,
     get_discrete_policy_calculator (vi_of dst dch cst cch) values None
     = calculate_discrete_argmax values (match dch with [] => None | _ => Some (seq 1 (length dch)) end) None).
Proof.
  intros dst dch cst cch H. split.
  - intros is_last cc. now apply solve_discrete_of_filter_free.
  - intros values. now apply policy_calculator_of_filter_free.
Qed.
Print Assumptions C18_code_reductions_of_a_model_without_filters.

(* with filter-restricted variables (one sparse leading axis "__sparse__"): the solver reduces over 1+|dst| .. 1+|dst|+|dch|-1 *)
Theorem C18_code_choice_axes_of_a_model_with_filters :
  forall rs rc dst dch cst cch : list (string * grid),
  (rs ++ rc)%list <> [] -> NoDup (map fst (rc ++ dst ++ dch ++ cst ++ cch)) ->
  ~ In "__sparse__"%string (map fst (rc ++ dch ++ cch)) ->
  determine_dense_discrete_choice_axes (vi_sparse rs rc dst dch cst cch)
  = match dch with [] => None | _ => Some (seq (1 + length dst) (length dch)) end /\
  forall is_last cc seg,
  get_solve_discrete_problem (vi_sparse rs rc dst dch cst cch) is_last (Some seg) cc tt
  = solve_discrete_problem_no_shocks cc (match dch with [] => None | _ => Some (seq (1 + length dst) (length dch)) end) (Some seg) tt.
Proof.
  intros rs rc dst dch cst cch H1 H2 H3. split; [now apply solver_axes_with_filters|].
  intros is_last cc seg. now apply solve_discrete_with_filters.
Qed.
Print Assumptions C18_code_choice_axes_of_a_model_with_filters.

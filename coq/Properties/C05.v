(* Properties/C05.v — value arrays follow the documented axis layout.                          *)
(* Spec/Layout.v states the documented layout without reference to lcm's code; the theorems     *)
(* say what it is; lcm's arrays are compared with it (shape and every entry) on every run.      *)
From LCM Require Import Base.Prelude Base.Arr Spec.Lang Spec.Bellman Spec.Layout.
From LCM Require Import Proofs.Spec_Bellman Gen.SolveBrute Proofs.C05_SolveLoop.
Local Open Scope nat_scope.

(* one array per period, in chronological order *)
Theorem C05_chronological : forall m p,
  length (solve_layout m p) = n_periods m /\
  forall t, t < n_periods m ->
    nth t (solve_layout m p) (scalar VUndef) = to_layout m p t (nth t (solve_spec m p) (scalar VUndef)).
Proof. exact solve_layout_chronological. Qed.
Print Assumptions C05_chronological.

(* first the axis of remaining restricted-state combinations (if any state is restricted), then
   the unrestricted discrete states, then the continuous states, each in declaration order and
   with the length of its grid *)
Theorem C05_shape : forall m p t tab,
  shape (to_layout m p t tab) =
  ((if has_restricted_states m then [length (remaining_states m p t)] else [])
   ++ map (fun sg => grid_size (snd sg)) (free_discrete_states m)
   ++ map (fun sg => grid_size (snd sg)) (free_continuous_states m))%list.
Proof. intros. reflexivity. Qed.
Print Assumptions C05_shape.

Theorem C05_declaration_order : forall m,
  (exists f, free_discrete_states m = filter f (states m)) /\
  (exists f, free_continuous_states m = filter f (states m)) /\
  (exists f, restricted_states m = filter f (states m)).
Proof. intros m. repeat split; eexists; reflexivity. Qed.
Print Assumptions C05_declaration_order.

(* remaining combinations: row-major order of the restricted states, exactly those with a
   filter-passing restricted-choice combination *)
Theorem C05_remaining_states : forall m p t ss,
  In ss (remaining_states m p t) <->
  In ss (iassignments (restricted_states m)) /\
  exists sc, In sc (iassignments (restricted_choices m)) /\
             passes m p t (env_of (restricted_states m) ss ++ env_of (restricted_choices m) sc)%list = true.
Proof.
  intros m p t ss. unfold remaining_states. rewrite filter_In, existsb_exists. tauto.
Qed.
Print Assumptions C05_remaining_states.

Theorem C05_entry : forall m p t tab idx, in_bounds (expected_shape m p t) idx ->
  get VUndef (to_layout m p t tab) idx
  = get VUndef tab (map (fun sg => ilook (state_at m p t idx) (fst sg)) (states m)).
Proof. exact layout_entry. Qed.
Print Assumptions C05_entry.

(* ---- about the regenerated driver lcm.solve_brute.solve (Gen/SolveBrute.v) ---------------------- *)
(* whatever the per-period components are: one array per period, and the array at index t is the one *)
(* computed by period t's own space, grids, indexers, ccv function and emax calculator               *)
Theorem C05_driver_returns_one_array_per_period :
  forall (T_params T_space T_indexers T_grids T_ccv T_emax T_arr T_ccvals : Type)
         (d_space : T_space) (d_indexers : T_indexers) (d_grids : T_grids) (d_ccv : T_ccv) (d_emax : T_emax)
         (scp : T_space -> T_ccv -> T_grids -> option T_arr -> T_indexers -> T_params -> T_ccvals)
         (emax : T_emax -> T_ccvals -> T_params -> T_arr)
         params spaces indexers grids ccvs emaxs,
  length (solve T_params T_space T_indexers T_grids T_ccv T_emax T_arr T_ccvals d_space d_indexers d_grids d_ccv d_emax
                scp emax params spaces indexers grids ccvs emaxs) = length spaces.
Proof. exact solve_one_array_per_period. Qed.
Print Assumptions C05_driver_returns_one_array_per_period.

Theorem C05_driver_list_is_chronological :
  forall (T_params T_space T_indexers T_grids T_ccv T_emax T_arr T_ccvals : Type)
         (d_space : T_space) (d_indexers : T_indexers) (d_grids : T_grids) (d_ccv : T_ccv) (d_emax : T_emax)
         (scp : T_space -> T_ccv -> T_grids -> option T_arr -> T_indexers -> T_params -> T_ccvals)
         (emax : T_emax -> T_ccvals -> T_params -> T_arr)
         params spaces indexers grids ccvs emaxs d t,
  let sol := solve T_params T_space T_indexers T_grids T_ccv T_emax T_arr T_ccvals d_space d_indexers d_grids d_ccv d_emax
                   scp emax params spaces indexers grids ccvs emaxs in
  t < length spaces ->
  nth t sol d = emax (nth t emaxs d_emax)
                     (scp (nth t spaces d_space) (nth t ccvs d_ccv) (nth t grids d_grids)
                          (if S t =? length spaces then None else Some (nth (S t) sol d))
                          (nth t indexers d_indexers) params) params.
Proof. exact solve_is_backward_induction. Qed.
Print Assumptions C05_driver_list_is_chronological.

(* the state-choice map of the regenerated solve_continuous_problem puts the sparse axis first *)
Theorem C05_driver_maps_sparse_variables_first : scp_put_dense_first = false.
Proof. reflexivity. Qed.
Print Assumptions C05_driver_maps_sparse_variables_first.

(* ---- about the regenerated glue of create_state_choice_space (Gen/StateSpaceGlue.v) ------------- *)
From LCM Require Import Gen.ChoiceAxes Gen.StateSpaceGlue Proofs.C18_ChoiceAxes Proofs.C05_SpaceGlue.
(* the dense axes that survive the reduction over the dense choice axes (C18's regenerated choice     *)
(* axes) are, in the order of variable_info, exactly the dense state axes the space info announces,    *)
(* preceded by "state_index" iff there is a filter-restricted state -- the documented layout            *)
Theorem C05_code_surviving_axes_are_the_announced_axes : forall (vi0 : list varinfo) (period : nat) (is_last_period : bool),
  let vi := if is_last_period then filter (fun v => negb (is_auxiliary v)) vi0 else vi0 in
  let plan := create_state_choice_space_plan vi0 period is_last_period in
  (forall v, In v vi -> is_state v = negb (is_choice v)) ->
  map vname (filter (fun v => negb (is_choice v)) (dense_layout vi))
  = (if existsb (fun v => is_sparse v && is_state v) vi then tl (axis_names plan) else axis_names plan).
Proof. exact surviving_dense_axes_are_the_announced_ones. Qed.
Print Assumptions C05_code_surviving_axes_are_the_announced_axes.

Theorem C05_code_state_index_axis_iff_restricted_states : forall (vi0 : list varinfo) (period : nat) (is_last_period : bool),
  let plan := create_state_choice_space_plan vi0 period is_last_period in
  (exists r, axis_names plan = "state_index"%string :: r /\ has_state_indexer plan = true)
  \/ (has_state_indexer plan = false /\ indexer_axis_names plan = None).
Proof. exact state_index_axis_iff_sparse_states. Qed.
Print Assumptions C05_code_state_index_axis_iff_restricted_states.

(* ---- the documented layout of the Spec's table IS the layout array of C14's refinement ----------- *)
From LCM Require Import Proofs.C14_Refine Proofs.C14_OnLayout Proofs.C05_LayoutLookup.
(* models without filter-restricted variables: shape = discrete sizes ++ continuous sizes (declaration  *)
(* order within each group) and the entry at [discrete labels] ++ [continuous indices] is the table      *)
(* entry of the state with those indices                                                                 *)
Theorem C05_layout_without_filters : forall m p t tab,
  restricted_names m = [] -> NoDup (map fst (states m)) ->
  expected_shape m p t = (dsizes (states m) ++ cont_sizes (states m))%list /\
  forall idx, in_bounds (expected_shape m p t) idx ->
    get VUndef (to_layout m p t tab) idx
    = get VUndef tab (merge (states m) (firstn (length (dsizes (states m))) idx) (skipn (length (dsizes (states m))) idx)).
Proof.
  intros m p t tab H1 H2. split; [now apply expected_shape_without_filters|].
  intros idx Hb. now apply to_layout_is_the_layout_array.
Qed.
Print Assumptions C05_layout_without_filters.

(* ... and WITH filter-restricted states: shape = [number of remaining restricted combinations] ++        *)
(* unrestricted discrete sizes ++ continuous sizes, and the entry at [rank] ++ [unrestricted discrete       *)
(* labels] ++ [continuous indices] is the table entry of the state whose restricted labels are those of     *)
(* the rank-th remaining combination: the documented layout IS the indexed layout array of C14's capstone   *)
From LCM Require Import Proofs.C14_OnLayoutIx Proofs.C05_LayoutLookupIx.
Theorem C05_layout_with_filters : forall m p t tab,
  NoDup (map fst (states m)) ->
  (forall sg, In sg (states m) -> is_restricted m (fst sg) = true -> is_cont (snd sg) = false) ->
  has_restricted_states m = true ->
  expected_shape m p t
  = (length (remaining_labels m p t) :: fdsizes (is_restricted m) (states m) ++ cont_sizes (states m))%list /\
  forall r rest, in_bounds (expected_shape m p t) (r :: rest) ->
    get VUndef (to_layout m p t tab) (r :: rest)
    = get VUndef tab (merge3 (is_restricted m) (states m) (nth r (remaining_labels m p t) [])
                             (firstn (length (fdsizes (is_restricted m) (states m))) rest)
                             (skipn (length (fdsizes (is_restricted m) (states m))) rest)).
Proof.
  intros m p t tab H1 H2 H3. split; [now apply expected_shape_with_filters|].
  intros r rest Hb. now apply to_layout_is_the_indexed_layout_array.
Qed.
Print Assumptions C05_layout_with_filters.

(* ---- what the regenerated glue of create_state_choice_space plans for a model's variable_info ----------------------------- *)
From LCM Require Import Spec.Lang Gen.ChoiceAxes Gen.StateSpaceGlue Proofs.C18_VarInfo Proofs.C05_PlanOfModel.
(* Without filter-restricted variables every variable but the continuous choices is product-mapped (dense), in the order     *)
(* discrete states, discrete choices, continuous states; the value array's axes are the discrete states then the continuous    *)
(* states (looked up by label / interpolated), no state indexer.  With filter-restricted variables those are stored as         *)
(* combinations (restricted states first, their number passed on), the array gets the leading axis "state_index" iff there is   *)
(* a restricted state, and the indexer maps from the restricted states' labels.  This is the layout C01's period theorems       *)
(* (with and without filters) and C14's capstones assume.                                                                       *)
Theorem C05_code_space_plan_of_a_model :
  (forall (dst dch cst cch : list (string * grid)) (period : nat) (is_last : bool),
     create_state_choice_space_plan (vi_of dst dch cst cch) period is_last
     = mkPlan (map fst dst ++ map fst dch ++ map fst cst) None None period None false
              (map fst dst ++ map fst cst) (map fst dst) (map fst cst) None) /\
  (forall (rs rc dst dch cst cch : list (string * grid)) (period : nat) (is_last : bool), (rs ++ rc)%list <> [] ->
     create_state_choice_space_plan (vi_sparse rs rc dst dch cst cch) period is_last
     = mkPlan (map fst dst ++ map fst dch ++ map fst cst) (Some (map fst rs ++ map fst rc)) (Some (map fst rs ++ map fst rc)) period
              (Some (length rs)) (match rs with [] => false | _ => true end)
              (match rs with [] => map fst dst ++ map fst cst | _ => "state_index"%string :: map fst dst ++ map fst cst end)
              (map fst rs ++ map fst dst) (map fst cst)
              (match rs with [] => None | _ => Some (map fst rs) end)).
Proof. split; [exact plan_of_a_model_without_filters|exact plan_of_a_model_with_filters]. Qed.
Print Assumptions C05_code_space_plan_of_a_model.

(* ---- the order of variable_info, on which the axis order rests: the regenerated get_variable_info (Gen/VariableInfo.v) --------- *)
From LCM Require Import Model.PyVocab Gen.VariableInfo Proofs.C05_VariableInfo Proofs.C05_VariableInfoTie.
(* for ALL declaration orders of states and choices (any interleaving of restricted, discrete and continuous variables), any      *)
(* stochastic / auxiliary flags and any set of filter-restricted variables: the state rows of variable_info — the axes of the value  *)
(* arrays — are the restricted states, then the unrestricted discrete states, then the continuous states, each in declaration order *)
Theorem C05_code_state_axes_follow_the_declaration_order :
  forall (is_stochastic_next : string -> bool) (auxiliary_variables filtered_variables : list string) (states choices : list (string * bool)),
  NoDup (map fst states ++ map fst choices) ->
  exists vi, get_variable_info is_stochastic_next auxiliary_variables filtered_variables states choices = Some vi /\
  map vname (filter is_state vi)
  = (map fst (filter (restricted filtered_variables) states)
     ++ map fst (filter (fun var => negb (restricted filtered_variables var) && negb (snd var)) states)
     ++ map fst (filter (fun var => negb (restricted filtered_variables var) && snd var) states))%list.
Proof. exact state_axes_in_declaration_order. Qed.
Print Assumptions C05_code_state_axes_follow_the_declaration_order.

(* and the whole table IS the variable_info (vi_sparse) on which the plan, axis, layout and period theorems of C01/C02/C05/C18 are     *)
(* stated, the six groups being the declarations filtered in declaration order                                                       *)
Theorem C05_code_variable_info_is_the_models :
  forall (is_stochastic_next : string -> bool) (filtered_variables : list string) (S C : list (string * grid)),
  NoDup (map fst S ++ map fst C) ->
  (forall sg, In sg S -> is_stochastic_next ("next_" ++ fst sg)%string = false) ->
  (forall sg, In sg (S ++ C)%list -> mem_str (fst sg) filtered_variables = true -> is_cont (snd sg) = false) ->
  let R := fun sg : string * grid => mem_str (fst sg) filtered_variables in
  get_variable_info is_stochastic_next [] filtered_variables (map of_sg S) (map of_sg C)
  = Some (vi_sparse (filter R S) (filter R C)
                    (filter (fun sg => negb (R sg) && negb (is_cont (snd sg))) S) (filter (fun sg => negb (R sg) && negb (is_cont (snd sg))) C)
                    (filter (fun sg => negb (R sg) && is_cont (snd sg)) S) (filter (fun sg => negb (R sg) && is_cont (snd sg)) C)).
Proof. exact regenerated_variable_info_is_the_models. Qed.
Print Assumptions C05_code_variable_info_is_the_models.

Local Open Scope string_scope.
Example C05_variable_info_nonvacuous :
  (* declared: states wealth (continuous), health (discrete, restricted), lagged (discrete); choices cons (continuous), work (discrete, restricted) *)
  match get_variable_info (fun _ => false) [] ["work"; "health"] [("wealth", true); ("health", false); ("lagged", false)] [("cons", true); ("work", false)] with
  | Some vi => map vname vi = ["health"; "work"; "lagged"; "wealth"; "cons"] /\ map vname (filter is_state vi) = ["health"; "lagged"; "wealth"]
  | None => False
  end.
Proof. vm_compute. split; reflexivity. Qed.

(* ---- from the declarations to the axes: get_variable_info composed with the glue of create_state_choice_space ----------------------- *)
From LCM Require Import Proofs.C05_AxesOfDeclarations.
(* for every model (any declaration order; deterministic states, restricted variables discrete) and every period: the value array's     *)
(* axes announced by the regenerated code are "state_index" (iff some state is filter-restricted), then the unrestricted discrete states   *)
(* in declaration order, then the continuous states in declaration order; labels are looked up for the restricted and the unrestricted   *)
(* discrete states, the continuous states are interpolated; the filters are evaluated at that period                                      *)
Theorem C05_code_axes_of_the_declarations :
  forall (is_stochastic_next : string -> bool) (filtered_variables : list string) (S C : list (string * grid)) (period : nat) (is_last : bool),
  NoDup (map fst S ++ map fst C) ->
  (forall sg, In sg S -> is_stochastic_next ("next_" ++ fst sg)%string = false) ->
  (forall sg, In sg (S ++ C)%list -> mem_str (fst sg) filtered_variables = true -> is_cont (snd sg) = false) ->
  let R := fun sg : string * grid => mem_str (fst sg) filtered_variables in
  let rs := filter R S in
  let dst := filter (fun sg => negb (R sg) && negb (is_cont (snd sg))) S in
  let cst := filter (fun sg => negb (R sg) && is_cont (snd sg)) S in
  exists vi, get_variable_info is_stochastic_next [] filtered_variables (map of_sg S) (map of_sg C) = Some vi /\
    let plan := create_state_choice_space_plan vi period is_last in
    axis_names plan = ((match rs with [] => [] | _ => ["state_index"%string] end) ++ map fst dst ++ map fst cst)%list /\
    lookup_names plan = (map fst rs ++ map fst dst)%list /\
    interpolation_names plan = map fst cst /\
    filters_at_period plan = period.
Proof. exact axes_of_the_declarations. Qed.
Print Assumptions C05_code_axes_of_the_declarations.

(* ---- model.grids follows variable_info: the regenerated get_gridspecs / get_grids (Gen/VariableInfo.v) ------------------------------- *)
From LCM Require Import Proofs.C05_Grids.
(* for all declaration orders: model.grids lists the variables in the order of variable_info, each with the array of its own grid       *)
Theorem C05_code_grids_follow_variable_info :
  forall (G A : Type) (is_cont : G -> bool) (to_jax : G -> A) (is_stochastic_next : string -> bool)
         (auxiliary_variables filtered_variables : list string) (S C : list (string * G)),
  NoDup (map fst S ++ map fst C) ->
  exists vi grids,
    get_variable_info is_stochastic_next auxiliary_variables filtered_variables
      (map (fun sg : string * G => (fst sg, is_cont (snd sg))) S) (map (fun sg : string * G => (fst sg, is_cont (snd sg))) C) = Some vi /\
    get_grids is_stochastic_next auxiliary_variables filtered_variables is_cont to_jax S C = Some grids /\
    map fst grids = map vname vi /\
    forall k a, In (k, a) grids -> exists g, In (k, g) (S ++ C)%list /\ a = to_jax g.
Proof. exact grids_follow_variable_info. Qed.
Print Assumptions C05_code_grids_follow_variable_info.

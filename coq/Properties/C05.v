(* Properties/C05.v — value arrays follow the documented axis layout.                          *)
(* Spec/Layout.v states the documented layout without reference to lcm's code; the theorems     *)
(* say what it is; lcm's arrays are compared with it (shape and every entry) on every run.      *)
From LCM Require Import Base.Prelude Base.Arr Spec.Lang Spec.Bellman Spec.Layout.
From LCM Require Import Proofs.Spec_Bellman.
Local Open Scope nat_scope.

(* one array per period, in chronological order *)
Theorem C05_chronological : forall m p,
  length (solve_layout m p) = n_periods m /\
  forall t, t < n_periods m ->
    nth t (solve_layout m p) (scalar VUndef) = to_layout m p t (nth t (solve_spec m p) (scalar VUndef)).
Proof. exact solve_layout_chronological. Qed.
Print Assumptions C05_chronological.

(* first the axis of remaining restricted-state combinations (if any state is restricted), then
   the unrestricted discrete states, then the continuous states, each in declaration order and
   with the length of its grid *)
Theorem C05_shape : forall m p t tab,
  shape (to_layout m p t tab) =
  ((if has_restricted_states m then [length (remaining_states m p t)] else [])
   ++ map (fun sg => grid_size (snd sg)) (free_discrete_states m)
   ++ map (fun sg => grid_size (snd sg)) (free_continuous_states m))%list.
Proof. intros. reflexivity. Qed.
Print Assumptions C05_shape.

Theorem C05_declaration_order : forall m,
  (exists f, free_discrete_states m = filter f (states m)) /\
  (exists f, free_continuous_states m = filter f (states m)) /\
  (exists f, restricted_states m = filter f (states m)).
Proof. intros m. repeat split; eexists; reflexivity. Qed.
Print Assumptions C05_declaration_order.

(* remaining combinations: row-major order of the restricted states, exactly those with a
   filter-passing restricted-choice combination *)
Theorem C05_remaining_states : forall m p t ss,
  In ss (remaining_states m p t) <->
  In ss (iassignments (restricted_states m)) /\
  exists sc, In sc (iassignments (restricted_choices m)) /\
             passes m p t (env_of (restricted_states m) ss ++ env_of (restricted_choices m) sc)%list = true.
Proof.
  intros m p t ss. unfold remaining_states. rewrite filter_In, existsb_exists. tauto.
Qed.
Print Assumptions C05_remaining_states.

Theorem C05_entry : forall m p t tab idx, in_bounds (expected_shape m p t) idx ->
  get VUndef (to_layout m p t tab) idx
  = get VUndef tab (map (fun sg => ilook (state_at m p t idx) (fst sg)) (states m)).
Proof. exact layout_entry. Qed.
Print Assumptions C05_entry.

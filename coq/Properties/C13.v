(* Properties/C13.v — the simulation result is a complete, correctly indexed panel.          *)
(* Model/Panel.v is the hand model of _process_simulated_data / _as_data_frame; the column    *)
(* of an additional target is judged against Spec.Lang.eval_fun row by row in the runs.       *)
From LCM Require Import Base.Prelude Model.Panel Proofs.C13_Panel.
Local Open Scope nat_scope.

Theorem C13_rows_and_row_content : forall (results : list period_result) (n : nat),
  (forall d k, In d results -> In k (map fst (hd [] results)) -> length (col d k) = n) ->
  forall k, In k (map fst (hd [] results)) ->
  length (col (process_simulated_data results) k) = length results * n /\
  forall t i, t < length results -> i < n ->
    nth (t * n + i) (col (process_simulated_data results) k) 0%Q
    = nth i (col (nth t results []) k) 0%Q.
Proof.
  intros results n Hc k Hk. split.
  - now apply column_length.
  - intros t i Ht Hi. now apply row_content.
Qed.
Print Assumptions C13_rows_and_row_content.

Theorem C13_period_column : forall (results : list period_result) (n : nat),
  length (col (hd [] results) "value") = n ->
  ~ In "_period"%string (map fst (hd [] results)) ->
  forall t i, t < length results -> i < n ->
  nth (t * n + i) (col (process_simulated_data results) "_period") 0%Q = Qofnat t /\
  length (col (process_simulated_data results) "_period") = length results * n.
Proof. intros results n Hv Hn t i Ht Hi. now apply period_column. Qed.
Print Assumptions C13_period_column.

Theorem C13_index_is_period_major : forall n_periods n t i, t < n_periods -> i < n ->
  nth (t * n + i) (panel_index n_periods n) (0, 0) = (t, i) /\
  length (panel_index n_periods n) = n_periods * n.
Proof. exact index_is_period_major. Qed.
Print Assumptions C13_index_is_period_major.

Local Open Scope string_scope.
Example C13_nonvacuous :
  let results := [[("value", [1%Q; 2%Q]); ("c", [3%Q; 4%Q]); ("w", [5%Q; 6%Q])];
                  [("value", [7%Q; 8%Q]); ("c", [9%Q; 10%Q]); ("w", [11%Q; 12%Q])]] in
  col (process_simulated_data results) "w" = [5%Q; 6%Q; 11%Q; 12%Q] /\
  map Qnum (col (process_simulated_data results) "_period") = [0; 0; 1; 1]%Z /\
  panel_index 2 2 = [(0, 0); (0, 1); (1, 0); (1, 1)]%nat.
Proof. vm_compute. repeat split. Qed.

(* ---- about the regenerated forward loop of lcm.simulate.simulate (Gen/Simulate.v) ---------------- *)
From LCM Require Import Model.RandomChoice Gen.Simulate Proofs.C04_SimulateLoop.
(* one result per period, in period order; the result of period t holds the states the agents were *)
(* in at t (not the next states), the value and the choices decided there                             *)
Theorem C13_code_one_result_per_period : forall (E : sim_env),
  length (sim_results E) = sim_n_periods E /\
  forall t d, (t < sim_n_periods E)%nat -> snd (nth t (sim_results E) d) = fst (sim_at E t).
Proof.
  intros E. split; [exact (bundled_one_result_per_period E)|].
  intros t d H. now rewrite (bundled_result_of_period E t d H).
Qed.
Print Assumptions C13_code_one_result_per_period.

(* ---- the regenerated panel construction (Gen/PanelGen.v) IS the model the theorems above are about - *)
From LCM Require Import Gen.PanelGen Proofs.C13_PanelGen.
Theorem C13_code_panel_construction_is_the_model : forall results n_periods n_initial_states,
  gen_process_simulated_data results = process_simulated_data results /\
  (0 < n_periods -> gen_panel_index (n_periods * n_initial_states) n_periods = panel_index n_periods n_initial_states).
Proof.
  intros. split; [apply gen_process_simulated_data_is_model|apply gen_panel_index_is_model].
Qed.
Print Assumptions C13_code_panel_construction_is_the_model.

(* ---- the additional targets (Gen/ComputeTargets.v, regenerated from lcm.simulate._compute_targets) ---------------- *)
From LCM Require Import Base.Arr Model.Dispatchers Gen.ComputeTargets Proofs.C13_Targets.
(* one column per requested target, in the order of the request; entry j of the column of target tn is the target      *)
(* function evaluated at the values row j has in the columns of the target function's variables (never at a mix of     *)
(* rows), and the column has as many entries as the panel has rows                                                     *)
Theorem C13_code_target_columns_are_row_evaluations :
  forall (signature : list string) (target_at : string -> list qarr -> qarr),
  (forall tn a, wf (target_at tn a) /\ shape (target_at tn a) = []) ->
  NoDup (ct_variables signature) -> ct_variables signature <> [] ->
  forall (processed : list (string * qarr)) (cols : list (list Q)) (n : nat),
  map (lookup processed) (ct_variables signature) = map (fun c => vec c) cols ->
  Forall (fun c : list Q => length c = n) cols ->
  forall targets,
  map fst (compute_targets signature target_at targets processed) = targets /\
  forall tn col, In (tn, col) (compute_targets signature target_at targets processed) ->
    shape col = [n] /\
    forall j, j < n -> qget col [j] = qget (target_at tn (map (fun c : list Q => scalar (nth j c 0%Q)) cols)) [].
Proof. exact target_columns_are_row_evaluations. Qed.
Print Assumptions C13_code_target_columns_are_row_evaluations.

Example C13_targets_nonvacuous :
  let target_at := fun (tn : string) (a : list qarr) =>
        if String.eqb tn "sum" then scalar (qget (nth 0 a dflt_arr) [] + qget (nth 1 a dflt_arr) [])%Q
        else scalar (qget (nth 0 a dflt_arr) [] * qget (nth 1 a dflt_arr) [])%Q in
  let processed := [("value", vec [0%Q; 0%Q; 0%Q]); ("w", vec [1%Q; 2%Q; 3%Q]); ("c", vec [10%Q; 20%Q; 30%Q])] in
  map (fun kv => (fst kv, map Qred (data (snd kv))))
      (compute_targets ["c"; "w"; "params"] target_at ["sum"; "prod"] processed)
  = [("sum", [11%Q; 22%Q; 33%Q]); ("prod", [10%Q; 40%Q; 90%Q])].
Proof. vm_compute. reflexivity. Qed.

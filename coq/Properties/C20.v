(* Properties/C20.v — extreme-value aggregation is an exact, stable log-sum-exp.    *)
(* All statements are about the definitions REGENERATED from                         *)
(* /repo/src/lcm/discrete_problem.py (Gen/SegLSE.v): segment_logsumexp,              *)
(* segment_extreme_value_emax_over_first_axis, calculate_emax_extreme_value_shocks.  *)
(* [choices s] below is the list of values of all discrete choices of one state:     *)
(* rows of a segment (sparse layout) or the entries along the choice axes (dense).   *)
From Coq Require Import Reals Permutation.
From LCM Require Import Base.Prelude Base.Arr Base.ArrOps Base.RBase Gen.SegLSE.
From LCM Require Import Proofs.C20_LSE.
Local Open Scope R_scope.

(* the reference quantity: scale * ln (sum_i exp (x_i / scale)) *)
Definition lse_ref (scale : R) (l : list R) : R :=
  scale * ln (Rsum (map (fun x => exp (x / scale)) l)).

(* values of the choices of state (s, rest) in the segment layout *)
Definition seg_choices (a : rarr) (seg : seginfo) (s : nat) (rest : list nat) : list R :=
  map (fun r => rget a (r :: rest)) (rows seg s).
(* values of the choices of state [keep] in the dense-axes layout *)
Definition dense_choices (values : rarr) (axes : list nat) (keep : list nat) : list R :=
  map (fun red => rget values (interleave (axis_mask (List.length (shape values)) axes) keep red))
      (indices (select_mask (axis_mask (List.length (shape values)) axes) (shape values) true)).

(* 1. exactness, both layouts *)
Theorem C20_segment_lse_exact : forall a seg s rest,
  seg_ok a seg -> (s < num_segments seg)%nat -> in_bounds (tl (shape a)) rest ->
  rows seg s <> [] ->
  rget (segment_logsumexp a seg) (s :: rest)
  = ln (Rsum (map (fun r => exp (rget a (r :: rest))) (rows seg s))).
Proof. exact segment_lse_exact. Qed.
Print Assumptions C20_segment_lse_exact.

Theorem C20_segment_emax_is_scaled_lse : forall a scale seg s rest,
  seg_ok a seg -> (s < num_segments seg)%nat -> in_bounds (tl (shape a)) rest ->
  rows seg s <> [] -> 0 < scale ->
  rget (calculate_emax_extreme_value_shocks a None (Some seg) scale) (s :: rest)
  = lse_ref scale (seg_choices a seg s rest).
Proof. exact segment_emax_eq_lse_scaled. Qed.
Print Assumptions C20_segment_emax_is_scaled_lse.

Theorem C20_dense_emax_is_scaled_lse : forall values axes scale keep,
  wf values ->
  in_bounds (select_mask (axis_mask (List.length (shape values)) axes) (shape values) false) keep ->
  rget (calculate_emax_extreme_value_shocks values (Some axes) None scale) keep
  = lse_ref scale (dense_choices values axes keep).
Proof. exact dense_emax_eq_lse_scaled. Qed.
Print Assumptions C20_dense_emax_is_scaled_lse.

(* 2. layout irrelevance: the same alternatives along axes or as a segment *)
Theorem C20_axes_segments_agree : forall values axes keep a seg s rest scale,
  wf values ->
  in_bounds (select_mask (axis_mask (List.length (shape values)) axes) (shape values) false) keep ->
  seg_ok a seg -> (s < num_segments seg)%nat -> in_bounds (tl (shape a)) rest ->
  rows seg s <> [] -> 0 < scale ->
  Permutation (dense_choices values axes keep) (seg_choices a seg s rest) ->
  rget (calculate_emax_extreme_value_shocks values (Some axes) None scale) keep
  = rget (calculate_emax_extreme_value_shocks a None (Some seg) scale) (s :: rest).
Proof. exact emax_axes_segments_agree. Qed.
Print Assumptions C20_axes_segments_agree.

(* 3. bounds, shift, limit of the reference quantity (hence of both layouts) *)
Theorem C20_bounds : forall scale l, 0 < scale -> l <> [] ->
  Rmaxl l <= lse_ref scale l <= Rmaxl l + scale * ln (INR (List.length l)).
Proof. exact lse_bounds. Qed.
Print Assumptions C20_bounds.

Theorem C20_shift : forall scale l c, 0 < scale -> l <> [] ->
  lse_ref scale (map (fun x => x + c) l) = lse_ref scale l + c.
Proof. exact lse_shift. Qed.
Print Assumptions C20_shift.

Theorem C20_limit : forall scale l, 0 < scale -> l <> [] ->
  forall eps, 0 < eps -> scale * ln (INR (List.length l) + 1) < eps ->
  Rabs (lse_ref scale l - Rmaxl l) < eps.
Proof. exact lse_limit. Qed.
Print Assumptions C20_limit.

(* 4. "finite for finite inputs of any magnitude": in the translated segment code
      every argument of exp is <= 0 and the summed value lies in [1, n] *)
Theorem C20_no_overflow : forall a seg s rest,
  seg_ok a seg -> (s < num_segments seg)%nat -> in_bounds (tl (shape a)) rest ->
  rows seg s <> [] ->
  (forall r, In r (rows seg s) ->
     rget a (r :: rest)
     - rget (r_segment_max a (segment_ids seg) (num_segments seg)) (s :: rest) <= 0) /\
  1 <= rget (r_segment_sum
               (r_exp (r_sub a (r_take (r_segment_max a (segment_ids seg) (num_segments seg))
                                       (segment_ids seg))))
               (segment_ids seg) (num_segments seg)) (s :: rest)
    <= INR (List.length (rows seg s)).
Proof. exact segment_lse_no_overflow. Qed.
Print Assumptions C20_no_overflow.

(* non-vacuity: a 3-row array with segments [0;0;1] meets the hypotheses *)
Example C20_nonvacuous :
  let a : rarr := mkArr [3%nat] [1; 2; 5] in
  let seg := mkSeg [0%nat; 0%nat; 1%nat] 2 in
  seg_ok a seg /\ (0 < num_segments seg)%nat /\ in_bounds (tl (shape a)) [] /\ rows seg 0 <> [].
Proof.
  cbv zeta. split; [|split; [|split]].
  - split; [reflexivity|]. split; [exists 3%nat, []; split; reflexivity|].
    repeat constructor.
  - cbn. auto.
  - exact I.
  - cbv. discriminate.
Qed.

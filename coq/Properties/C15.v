(* Properties/C15.v — interpolation kernel and grid coordinates.                    *)
(* Only statements: every proof is [exact <lemma of Proofs/>].  The kernel          *)
(* (compute_indices_and_weights, multiply_all, sum_all) and the coordinate functions *)
(* (get_linspace_coordinate over Q and R, get_logspace_coordinate over R) are the    *)
(* definitions REGENERATED from /repo/src/lcm on every run (Gen/).                   *)
From Coq Require Import Reals.
From LCM Require Import Base.Prelude Base.Arr Base.QKernel Base.RBase.
From LCM Require Import Gen.NdimageKernel Gen.GridHelpersQ Gen.GridHelpersR.
From LCM Require Import Spec.Interp Model.Ndimage.
From LCM Require Import Proofs.C15_Interp Proofs.C15_Lin Proofs.C15_Log Proofs.C15_Nodes.

Local Open Scope Q_scope.

(* 1. any rank: map_coordinates = the multilinear blend of the 2^rank surrounding
      entries, defined independently by recursion on the axes (Spec.interp) *)
Theorem C15_map_coordinates_is_multilinear : forall (input : arr Q) (cs : list Q),
  shape input <> [] -> length cs = length (shape input) ->
  Forall (fun n => (2 <= n)%nat) (shape input) ->
  map_coordinates input cs == interp (get 0 input) (shape input) cs.
Proof. exact map_coordinates_is_interp. Qed.
Print Assumptions C15_map_coordinates_is_multilinear.

(* 2. integer coordinates return the entries *)
Theorem C15_integer_coordinates : forall (input : arr Q) (idx : list nat),
  shape input <> [] -> in_bounds (shape input) idx ->
  Forall (fun n => (2 <= n)%nat) (shape input) ->
  map_coordinates input (map Qofnat idx) == get 0 input idx.
Proof. exact map_coordinates_at_nodes. Qed.
Print Assumptions C15_integer_coordinates.

(* 3. outside the index range: linear continuation of the boundary cell, per axis *)
Theorem C15_extrapolation_below : forall f n sh c cs, (2 <= n)%nat -> c < 1 ->
  interp f (n :: sh) (c :: cs) ==
  (1 - c) * interp (fun idx => f (0%nat :: idx)) sh cs + c * interp (fun idx => f (1%nat :: idx)) sh cs.
Proof. exact interp_extrapolates_below. Qed.
Print Assumptions C15_extrapolation_below.

Theorem C15_extrapolation_above : forall f n sh c cs, (2 <= n)%nat -> Qofnat n - 2 <= c ->
  interp f (n :: sh) (c :: cs) ==
  (1 - (c - Qofnat (n - 2))) * interp (fun idx => f ((n - 2)%nat :: idx)) sh cs
  + (c - Qofnat (n - 2)) * interp (fun idx => f ((n - 1)%nat :: idx)) sh cs.
Proof. exact interp_extrapolates_above. Qed.
Print Assumptions C15_extrapolation_above.

(* 4. linear grids, every value (no range restriction) *)
Theorem C15_lin_coord_of_point : forall a b n i, a < b -> (2 <= n)%nat ->
  GridHelpersQ.get_linspace_coordinate (lin_point a b n i) a b (Z.of_nat n) == i.
Proof. exact lin_coord_of_point. Qed.
Print Assumptions C15_lin_coord_of_point.

Theorem C15_lin_coord_strictly_monotone : forall a b n v1 v2, a < b -> (2 <= n)%nat -> v1 < v2 ->
  GridHelpersQ.get_linspace_coordinate v1 a b (Z.of_nat n)
  < GridHelpersQ.get_linspace_coordinate v2 a b (Z.of_nat n).
Proof. exact lin_coord_strictly_monotone. Qed.
Print Assumptions C15_lin_coord_strictly_monotone.

Theorem C15_lin_interp_grid_is_identity : forall a b n v, a < b -> (2 <= n)%nat ->
  interp (fun idx => match idx with [i] => lin_point a b n (Qofnat i) | _ => 0 end) [n]
         [GridHelpersQ.get_linspace_coordinate v a b (Z.of_nat n)] == v.
Proof. exact lin_interp_grid_is_identity. Qed.
Print Assumptions C15_lin_interp_grid_is_identity.

(* 5. log grids, values inside the range (over R: ln/exp) *)
Local Open Scope R_scope.
Theorem C15_log_coord_of_point : forall a b n (i : Z), 0 < a -> a < b -> (2 <= n)%Z ->
  (0 <= i <= n - 1)%Z ->
  get_logspace_coordinate (log_point a b n (IZR i)) a b n = IZR i.
Proof. exact log_coord_of_point. Qed.
Print Assumptions C15_log_coord_of_point.

Theorem C15_log_coord_strictly_monotone : forall a b n v1 v2, 0 < a -> a < b -> (2 <= n)%Z ->
  a <= v1 -> v1 < v2 -> v2 <= b ->
  get_logspace_coordinate v1 a b n < get_logspace_coordinate v2 a b n.
Proof. exact log_coord_strictly_monotone. Qed.
Print Assumptions C15_log_coord_strictly_monotone.

Theorem C15_log_interp_grid_is_identity : forall a b n v, 0 < a -> a < b -> (2 <= n)%Z ->
  a <= v <= b -> log_interp a b n (get_logspace_coordinate v a b n) = v.
Proof. exact log_interp_grid_is_identity. Qed.
Print Assumptions C15_log_interp_grid_is_identity.

(* non-vacuity: a concrete 2x3 array, a fractional and an out-of-range coordinate *)
Local Open Scope Q_scope.
Example C15_nonvacuous :
  let a := mkArr [2%nat; 3%nat] [1; 2; 4; 8; 16; 32] in
  shape a <> [] /\ Forall (fun n => (2 <= n)%nat) (shape a) /\
  Qeq_bool (map_coordinates a [1 # 2; 5 # 2]) (45 # 2) = true /\
  Qeq_bool (GridHelpersQ.get_linspace_coordinate (lin_point 1 3 5 2) 1 3 5) 2 = true.
Proof. cbv zeta. split; [discriminate|]. split; [repeat constructor|]. split; vm_compute; reflexivity. Qed.

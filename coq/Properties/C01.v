(* Properties/C01.v — solve() returns the Bellman solution on the grid.                     *)
(* STATUS (partial): the theorems below are about the SPECIFICATION Spec/Bellman.v (the      *)
(* reference the implementation is compared with entry by entry on every run, family         *)
(* solve_vs_spec): they establish that the reference IS the quantity C01 describes — the max  *)
(* over exactly the admissible grid choices of utility + beta * expected interpolated next    *)
(* value, -inf without admissible choice, no continuation in the last period, inadmissible    *)
(* choices irrelevant, tables produced by backward induction.  The refinement theorem          *)
(* "lcm's array pipeline = this specification" is proved for the pipeline's components         *)
(* (C14, C15, C17, C18, C19) and composed in Properties/C01 only as far as stated below;       *)
(* the full statement is kept as C01_full_statement.                                           *)
From LCM Require Import Base.Prelude Base.Arr Spec.Lang Spec.Bellman Spec.Layout.
From LCM Require Import Proofs.ArrLemmas2 Proofs.Spec_Bellman.
Local Open Scope nat_scope.

(* the choice set of the reference is exactly the product of the choice grids *)
Theorem C01_choice_set_is_grid_product : forall vars e,
  In e (assignments vars) <->
  Forall2 (fun xv kv => fst kv = fst xv /\ In (snd kv) (snd xv)) vars e.
Proof. exact in_assignments. Qed.
Print Assumptions C01_choice_set_is_grid_product.

(* the value of a state: an upper bound of the objective of every admissible grid choice,
   attained by one of them, or -inf *)
Theorem C01_value_is_max_over_admissible : forall m p t last vnext sigma,
  (forall gamma, In gamma (choice_set m) -> defined (cand m p t last vnext sigma gamma)) ->
  let V := value_at m p t last vnext sigma in
  defined V /\
  (forall gamma, In gamma (choice_set m) -> feasible m p (env_of_choice t sigma gamma) = true ->
                 vle (objective m p last vnext (env_of_choice t sigma gamma)) V) /\
  (V = VNegInf \/
   exists gamma, In gamma (choice_set m) /\ feasible m p (env_of_choice t sigma gamma) = true /\
                 objective m p last vnext (env_of_choice t sigma gamma) = V).
Proof. exact value_is_max_over_admissible. Qed.
Print Assumptions C01_value_is_max_over_admissible.

Theorem C01_no_admissible_choice_is_neginf : forall m p t last vnext sigma,
  (forall gamma, In gamma (choice_set m) -> defined (cand m p t last vnext sigma gamma)) ->
  (forall gamma, In gamma (choice_set m) -> feasible m p (env_of_choice t sigma gamma) = false) ->
  value_at m p t last vnext sigma = VNegInf.
Proof. exact no_admissible_choice_is_neginf. Qed.
Print Assumptions C01_no_admissible_choice_is_neginf.

Theorem C01_inadmissible_choices_are_irrelevant : forall m p t last vnext vnext' sigma,
  (forall gamma, In gamma (choice_set m) ->
     feasible m p (env_of_choice t sigma gamma) = true ->
     objective m p last vnext (env_of_choice t sigma gamma)
     = objective m p last vnext' (env_of_choice t sigma gamma)) ->
  value_at m p t last vnext sigma = value_at m p t last vnext' sigma.
Proof. exact inadmissible_choices_are_irrelevant. Qed.
Print Assumptions C01_inadmissible_choices_are_irrelevant.

Theorem C01_last_period_has_no_continuation : forall m p vnext e,
  objective m p true vnext e =
  match eval_fun (depth m) m p e "utility" with Some u => VFin u | None => VUndef end.
Proof. exact last_period_objective_is_utility. Qed.
Print Assumptions C01_last_period_has_no_continuation.

(* one table per period, each computed from the next one, the last from none *)
Theorem C01_backward_induction : forall m p j, j < n_periods m ->
  length (solve_spec m p) = n_periods m /\
  nth j (solve_spec m p) (scalar VUndef)
  = value_table m p j (Nat.eqb (S j) (n_periods m)) (nth (S j) (solve_spec m p) (scalar VUndef)).
Proof. intros m p j H. split; [apply solve_spec_length|now apply solve_spec_is_backward_induction]. Qed.
Print Assumptions C01_backward_induction.

Theorem C01_table_entry_is_value : forall m p t last vnext idx, in_bounds (state_shape m) idx ->
  get VUndef (value_table m p t last vnext) idx
  = vred (value_at m p t last (fun i => get VUndef vnext i) (state_env m idx)).
Proof. exact value_table_entry. Qed.
Print Assumptions C01_table_entry_is_value.

(* non-vacuity: a 2-period model with a constraint evaluates to defined values *)
Local Open Scope string_scope.
Definition demo_model : model :=
  mkModel 2 [("w", GLin 0 2 3)] [("c", GLin 0 2 3)]
    [mkUfun "utility" ["c"; "w"] (EAdd (EVar "c") (EMul (EVar "w") (EConst (1 # 2)))) false;
     mkUfun "next_w" ["w"; "c"] (ESub (EVar "w") (EVar "c")) false;
     mkUfun "budget_constraint" ["c"; "w"] (ELe (EVar "c") (EVar "w")) false].
Definition demo_params : params := mkParams (1 # 2) [] [].
Example C01_nonvacuous :
  map (fun a => map vred (data a)) (solve_spec demo_model demo_params)
  = [[VFin 0; VFin (3 # 2); VFin 3]; [VFin 0; VFin (3 # 2); VFin 3]].
Proof. vm_compute. reflexivity. Qed.

(* Properties/C01.v — solve() returns the Bellman solution on the grid.                     *)
(* STATUS (partial): the theorems below are about the SPECIFICATION Spec/Bellman.v (the      *)
(* reference the implementation is compared with entry by entry on every run, family         *)
(* solve_vs_spec): they establish that the reference IS the quantity C01 describes — the max  *)
(* over exactly the admissible grid choices of utility + beta * expected interpolated next    *)
(* value, -inf without admissible choice, no continuation in the last period, inadmissible    *)
(* choices irrelevant, tables produced by backward induction.  The refinement theorem          *)
(* "lcm's array pipeline = this specification" is proved for the pipeline's components         *)
(* (C14, C15, C17, C18, C19) and composed in Properties/C01 only as far as stated below;       *)
(* the full statement is kept as C01_full_statement.                                           *)
From LCM Require Import Base.ArrOps Model.Dispatchers Model.QOps Proofs.C11_ModelFunctions.
From LCM Require Import Base.Prelude Base.Arr Spec.Lang Spec.Bellman Spec.Layout.
From LCM Require Import Proofs.ArrLemmas2 Proofs.Spec_Bellman Gen.SolveBrute Proofs.C05_SolveLoop Gen.EntryPoint Proofs.C01_EntryPoint.
Local Open Scope nat_scope.

(* the choice set of the reference is exactly the product of the choice grids *)
Theorem C01_choice_set_is_grid_product : forall vars e,
  In e (assignments vars) <->
  Forall2 (fun xv kv => fst kv = fst xv /\ In (snd kv) (snd xv)) vars e.
Proof. exact in_assignments. Qed.
Print Assumptions C01_choice_set_is_grid_product.

(* the value of a state: an upper bound of the objective of every admissible grid choice,
   attained by one of them, or -inf *)
Theorem C01_value_is_max_over_admissible : forall m p t last vnext sigma,
  (forall gamma, In gamma (choice_set m) -> defined (cand m p t last vnext sigma gamma)) ->
  let V := value_at m p t last vnext sigma in
  defined V /\
  (forall gamma, In gamma (choice_set m) -> feasible m p (env_of_choice t sigma gamma) = true ->
                 vle (objective m p last vnext (env_of_choice t sigma gamma)) V) /\
  (V = VNegInf \/
   exists gamma, In gamma (choice_set m) /\ feasible m p (env_of_choice t sigma gamma) = true /\
                 objective m p last vnext (env_of_choice t sigma gamma) = V).
Proof. exact value_is_max_over_admissible. Qed.
Print Assumptions C01_value_is_max_over_admissible.

Theorem C01_no_admissible_choice_is_neginf : forall m p t last vnext sigma,
  (forall gamma, In gamma (choice_set m) -> defined (cand m p t last vnext sigma gamma)) ->
  (forall gamma, In gamma (choice_set m) -> feasible m p (env_of_choice t sigma gamma) = false) ->
  value_at m p t last vnext sigma = VNegInf.
Proof. exact no_admissible_choice_is_neginf. Qed.
Print Assumptions C01_no_admissible_choice_is_neginf.

Theorem C01_inadmissible_choices_are_irrelevant : forall m p t last vnext vnext' sigma,
  (forall gamma, In gamma (choice_set m) ->
     feasible m p (env_of_choice t sigma gamma) = true ->
     objective m p last vnext (env_of_choice t sigma gamma)
     = objective m p last vnext' (env_of_choice t sigma gamma)) ->
  value_at m p t last vnext sigma = value_at m p t last vnext' sigma.
Proof. exact inadmissible_choices_are_irrelevant. Qed.
Print Assumptions C01_inadmissible_choices_are_irrelevant.

Theorem C01_last_period_has_no_continuation : forall m p vnext e,
  objective m p true vnext e =
  match eval_fun (depth m) m p e "utility" with Some u => VFin u | None => VUndef end.
Proof. exact last_period_objective_is_utility. Qed.
Print Assumptions C01_last_period_has_no_continuation.

(* one table per period, each computed from the next one, the last from none *)
Theorem C01_backward_induction : forall m p j, j < n_periods m ->
  length (solve_spec m p) = n_periods m /\
  nth j (solve_spec m p) (scalar VUndef)
  = value_table m p j (Nat.eqb (S j) (n_periods m)) (nth (S j) (solve_spec m p) (scalar VUndef)).
Proof. intros m p j H. split; [apply solve_spec_length|now apply solve_spec_is_backward_induction]. Qed.
Print Assumptions C01_backward_induction.

Theorem C01_table_entry_is_value : forall m p t last vnext idx, in_bounds (state_shape m) idx ->
  get VUndef (value_table m p t last vnext) idx
  = vred (value_at m p t last (fun i => get VUndef vnext i) (state_env m idx)).
Proof. exact value_table_entry. Qed.
Print Assumptions C01_table_entry_is_value.

(* non-vacuity: a 2-period model with a constraint evaluates to defined values *)
Local Open Scope string_scope.
Definition demo_model : model :=
  mkModel 2 [("w", GLin 0 2 3)] [("c", GLin 0 2 3)]
    [mkUfun "utility" ["c"; "w"] (EAdd (EVar "c") (EMul (EVar "w") (EConst (1 # 2)))) false;
     mkUfun "next_w" ["w"; "c"] (ESub (EVar "w") (EVar "c")) false;
     mkUfun "budget_constraint" ["c"; "w"] (ELe (EVar "c") (EVar "w")) false].
Definition demo_params : params := mkParams (1 # 2) [] [].
Example C01_nonvacuous :
  map (fun a => map vred (data a)) (solve_spec demo_model demo_params)
  = [[VFin 0; VFin (3 # 2); VFin 3]; [VFin 0; VFin (3 # 2); VFin 3]].
Proof. vm_compute. reflexivity. Qed.

(* ---- about the regenerated driver lcm.solve_brute.solve (Gen/SolveBrute.v) ---------------------- *)
(* lcm's loop IS the backward recursion of the specification's solve_from: the array of period t is  *)
(* period t's emax calculator applied to period t's continuation values, which are computed from the *)
(* array of period t+1 -- and from None in the last period -- for arbitrary per-period components    *)
Theorem C01_driver_is_backward_induction :
  forall (T_params T_space T_indexers T_grids T_ccv T_emax T_arr T_ccvals : Type)
         (d_space : T_space) (d_indexers : T_indexers) (d_grids : T_grids) (d_ccv : T_ccv) (d_emax : T_emax)
         (scp : T_space -> T_ccv -> T_grids -> option T_arr -> T_indexers -> T_params -> T_ccvals)
         (emax : T_emax -> T_ccvals -> T_params -> T_arr)
         params spaces indexers grids ccvs emaxs d t,
  let sol := solve T_params T_space T_indexers T_grids T_ccv T_emax T_arr T_ccvals d_space d_indexers d_grids d_ccv d_emax
                   scp emax params spaces indexers grids ccvs emaxs in
  (t < List.length spaces)%nat ->
  nth t sol d = emax (nth t emaxs d_emax)
                     (scp (nth t spaces d_space) (nth t ccvs d_ccv) (nth t grids d_grids)
                          (if (S t =? List.length spaces)%nat then None else Some (nth (S t) sol d))
                          (nth t indexers d_indexers) params) params.
Proof. exact solve_is_backward_induction. Qed.
Print Assumptions C01_driver_is_backward_induction.

(* ---- glue (Gen/EntryPoint.v, regenerated from get_lcm_function) composed with the driver ------- *)
(* what get_lcm_function(model, "solve") returns satisfies, for arbitrary component constructors:   *)
(* V_t = emax_t( max over continuous choices of ccv_t( . , V_{t+1}) ) where every component of      *)
(* period t is built with period t and "is last" iff t = T-1, EXCEPT the space info and the state   *)
(* indexer, which are those of period t+1 (what V_{t+1} is looked up with) and empty in the last    *)
(* period; V_{t+1} is absent (None) in the last period.                                             *)
Theorem C01_lcm_solve_is_the_backward_recursion_of_its_components :
  forall (T_params T_choice_grids T_sc_space T_space_info T_state_indexer T_segments T_u_and_f T_compute_ccv
          T_compute_ccv_argmax T_calculator T_arr T_ccvals : Type)
         (choice_grids : T_choice_grids) (empty_space_infos : T_space_info) (empty_state_indexers : T_state_indexer)
         (d_space_infos : T_space_info) (d_choice_segments : T_segments)
         (create_state_choice_space : nat -> bool -> T_sc_space * T_space_info * T_state_indexer * T_segments)
         (get_utility_and_feasibility_function : T_space_info -> nat -> bool -> T_u_and_f)
         (create_ccv : T_u_and_f -> T_compute_ccv) (create_policy : T_u_and_f -> T_compute_ccv_argmax)
         (get_solve_discrete_problem : bool -> T_segments -> T_calculator)
         (d_space : T_sc_space) (d_indexers : T_state_indexer) (d_grids : T_choice_grids) (d_ccv : T_compute_ccv)
         (d_emax : T_calculator)
         (solve_continuous_problem : T_sc_space -> T_compute_ccv -> T_choice_grids -> option T_arr -> T_state_indexer -> T_params -> T_ccvals)
         (apply_emax : T_calculator -> T_ccvals -> T_params -> T_arr) (n : nat) (params : T_params) d t,
  let V := lcm_solve T_params T_choice_grids T_sc_space T_space_info T_state_indexer T_segments T_u_and_f T_compute_ccv
             T_compute_ccv_argmax T_calculator T_arr T_ccvals choice_grids empty_space_infos empty_state_indexers
             d_space_infos d_choice_segments create_state_choice_space get_utility_and_feasibility_function
             create_ccv create_policy get_solve_discrete_problem d_space d_indexers d_grids d_ccv d_emax
             solve_continuous_problem apply_emax n params in
  (t < n)%nat ->
  nth t V d =
  apply_emax
    (get_solve_discrete_problem (t =? n - 1)%nat (snd (create_state_choice_space t (t =? n - 1)%nat)))
    (solve_continuous_problem
       (fst (fst (fst (create_state_choice_space t (t =? n - 1)%nat))))
       (create_ccv
          (get_utility_and_feasibility_function
             (if (S t <? n)%nat then snd (fst (fst (create_state_choice_space (S t) (S t =? n - 1)%nat))) else empty_space_infos)
             t (t =? n - 1)%nat))
       choice_grids
       (if (S t =? n)%nat then None else Some (nth (S t) V d))
       (if (S t <? n)%nat then snd (fst (create_state_choice_space (S t) (S t =? n - 1)%nat)) else empty_state_indexers)
       params)
    params.
Proof. exact lcm_solve_recursion. Qed.
Print Assumptions C01_lcm_solve_is_the_backward_recursion_of_its_components.

(* the keyword arguments of the component constructors that are the same in every period *)
Theorem C01_glue_fixed_arguments :
  create_state_choice_space_fixed_args = ["model=_mod"; "jit_filter=False"]%string /\
  get_utility_and_feasibility_function_fixed_args = ["model=_mod"; "name_of_values_on_grid='vf_arr'"]%string /\
  create_compute_conditional_continuation_value_fixed_args = ["continuous_choice_variables=list(_choice_grids)"]%string /\
  create_compute_conditional_continuation_policy_fixed_args = ["continuous_choice_variables=list(_choice_grids)"]%string /\
  get_solve_discrete_problem_fixed_args
  = ["random_utility_shock_type=_mod.random_utility_shocks"; "variable_info=_mod.variable_info"]%string.
Proof. repeat split; reflexivity. Qed.
Print Assumptions C01_glue_fixed_arguments.

(* ---- bridge: the code's expectation formula and the specification's continuation value ---------- *)
From LCM Require Import Proofs.C11_Affine Proofs.C01_Bridge.
(* The sum that the regenerated Bellman operator computes (C11_code_one_discounting_step: over the    *)
(* node grid, value x product of the variables' weights) IS the specification's continuation value,    *)
(* and utility + beta * that sum IS the specification's objective -- provided the two hand-modelled     *)
(* components deliver what their own properties say: the weight arrays hold the transition rows the     *)
(* specification selects (C07/C03), and the product-mapped function representation holds the            *)
(* specification's reads of V_{t+1} at the nodes (C14).                                                 *)
Theorem C01_code_expectation_is_the_specifications_continuation :
  forall (m : model) (p : params) (e : env) (vnext : list nat -> val) (rows : list (list Q)) (ccvs : qarr) (ws : list qarr),
  omap (fun sg : string * grid => weight_row m p e (fst sg)) (stoch_states m) = Some rows ->
  (length ws = length rows /\
   forall i k, (i < length rows)%nat -> qget (nth i ws dflt_arr) [k] = nth k (nth i rows []) 0%Q) ->
  (forall idx, in_bounds (map (fun sg : string * grid => grid_size (snd sg)) (stoch_states m)) idx ->
     exists q, node_value m p vnext e (node_labels (stoch_states m) idx) = VFin q /\ (q == qget ccvs idx)%Q) ->
  forall u, eval_fun (depth m) m p e "utility" = Some u ->
  exists v, objective m p false vnext e = VFin v /\
            (v == u + beta p *
                 C11_ModelFunctions.qsum
                   (map (fun idx => qget ccvs idx *
                                    qprod_list (map (fun i => qget (nth i ws dflt_arr) [nth i idx 0%nat]) (seq 0 (length rows))))
                        (indices (map (fun sg : string * grid => grid_size (snd sg)) (stoch_states m)))))%Q.
Proof. intros m p e vnext rows ccvs ws H1 H2 H3 u Hu. exact (spec_objective_from_code_sum m p e vnext rows H1 ccvs ws H2 H3 u Hu). Qed.
Print Assumptions C01_code_expectation_is_the_specifications_continuation.

(* ---- ONE BELLMAN STEP OF THE CODE IS ONE BELLMAN STEP OF THE SPECIFICATION ----------------------- *)
From LCM Require Import Model.FunctionRepresentation Gen.ModelFunctions Proofs.C14_Refine Proofs.C14_OnLayout Proofs.C01_Compose.
(* Models without filter-restricted states.  At a (state, choice) point e of a period that is not the  *)
(* last, let the concatenated model functions hand to the regenerated u_and_f what the specification     *)
(* computes at e: utility u (and some feasibility value), for every state the deterministic next value    *)
(* or, for a stochastic state, all its labels (next_states_kw), for every stochastic state the row the    *)
(* regenerated weight function reads (weights_kw, = the specification's row by C03); let the scalar       *)
(* value function be the function representation on the documented layout of the next period's finite     *)
(* table F (svf, by C14/C05).  Then the value u_and_f returns -- computed by product-mapping the value    *)
(* function over the stochastic next states, multiplying by the product-mapped weights, summing and       *)
(* discounting once -- IS the specification's objective utility + beta * E[V_{t+1}] at e.                 *)
Theorem C01_one_bellman_step_of_the_code_is_the_specifications :
  forall (m : model) (p : params) (e : env) (F : list nat -> Q) (det : string -> Q) (rows : list (list Q))
         (u : Q) (FE : Type) (fe : FE) (t : nat) (kwargs : list (string * qarr)),
  NoDup (map fst (states m)) -> grids_valid (states m) ->
  eval_fun (depth m) m p e "utility" = Some u ->
  (forall sg, In sg (states m) -> is_stochastic m (fst sg) = false -> next_det m p e (fst sg) = Some (det (fst sg))) ->
  omap (fun sg : string * grid => weight_row m p e (fst sg)) (stoch_states m) = Some rows ->
  Forall2 (fun (sg : string * grid) (row : list Q) => length row = grid_size (snd sg)) (stoch_states m) rows ->
  (forall idx, in_bounds (map (fun sg : string * grid => grid_size (snd sg)) (stoch_states m)) idx ->
     exists q, qread (states m) F (node_vals (states m) (is_stochastic m) det idx) = Some q) ->
  exists v, objective m p false (fun idx => VFin (F idx)) e = VFin v /\
            (fst (code_value m p det rows u FE fe t kwargs (FR_free (states m) F)) == v)%Q /\
            snd (code_value m p det rows u FE fe t kwargs (FR_free (states m) F)) = fe.
Proof.
  intros m p e F det rows u FE fe t kwargs H1 H2 H3 H4 H5 H6 H7.
  exact (one_bellman_step_without_restricted_states m p e F det rows u FE fe t kwargs H1 H2 H3 H4 H5 H6 H7).
Qed.
Print Assumptions C01_one_bellman_step_of_the_code_is_the_specifications.

(* ... and WITH filter-restricted states: the value array has a leading rank axis over the remaining    *)
(* restricted-state combinations and is read through the state indexer (-1 for combinations that do     *)
(* not remain); the scalar value function is the function representation on that indexed layout         *)
(* (FR_ix, C14); additional hypothesis: every node's restricted combination remains (transitions never   *)
(* lead into filter-excluded states -- the supported class of this property)                             *)
From LCM Require Import Proofs.C14_OnLayoutIx.
Theorem C01_one_bellman_step_of_the_code_with_restricted_states :
  forall (m : model) (p : params) (e : env) (F : list nat -> Q) (det : string -> Q) (rows : list (list Q))
         (u : Q) (FE : Type) (fe : FE) (t : nat) (kwargs : list (string * qarr))
         (isr : string -> bool) (remaining : list (list nat)),
  NoDup (map fst (states m)) -> grids_valid (states m) ->
  eval_fun (depth m) m p e "utility" = Some u ->
  (forall sg, In sg (states m) -> is_stochastic m (fst sg) = false -> next_det m p e (fst sg) = Some (det (fst sg))) ->
  omap (fun sg : string * grid => weight_row m p e (fst sg)) (stoch_states m) = Some rows ->
  Forall2 (fun (sg : string * grid) (row : list Q) => length row = grid_size (snd sg)) (stoch_states m) rows ->
  (forall idx, in_bounds (map (fun sg : string * grid => grid_size (snd sg)) (stoch_states m)) idx ->
     exists q, qread (states m) F (node_vals (states m) (is_stochastic m) det idx) = Some q) ->
  (forall idx dl_all, in_bounds (map (fun sg : string * grid => grid_size (snd sg)) (stoch_states m)) idx ->
     disc_labels (states m) (node_vals (states m) (is_stochastic m) det idx) = Some dl_all ->
     In (fst (split_labels isr (states m) dl_all)) remaining) ->
  exists v, objective m p false (fun idx => VFin (F idx)) e = VFin v /\
            (fst (code_value m p det rows u FE fe t kwargs (FR_ix isr remaining (states m) F)) == v)%Q /\
            snd (code_value m p det rows u FE fe t kwargs (FR_ix isr remaining (states m) F)) = fe.
Proof.
  intros m p e F det rows u FE fe t kwargs isr remaining H1 H2 H3 H4 H5 H6 H7 H8.
  exact (one_bellman_step_with_restricted_states m p e F det rows u FE fe t kwargs H1 H2 H3 H4 H5 H6 H7 isr remaining H8).
Qed.
Print Assumptions C01_one_bellman_step_of_the_code_with_restricted_states.

(* a model with a stochastic and a continuous state that meets the seven hypotheses, and both sides computed *)
Definition step_model : model :=
  mkModel 3 [("h", GDisc 2); ("w", GLin 0 2 3)] [("c", GLin 0 2 3)]
    [mkUfun "utility" ["c"; "w"; "h"] (EAdd (EVar "c") (EMul (EVar "w") (EVar "h"))) false;
     mkUfun "next_w" ["w"; "c"] (ESub (EVar "w") (EVar "c")) false;
     mkUfun "next_h" ["h"] (EConst 0) true;
     mkUfun "budget_constraint" ["c"; "w"] (ELe (EVar "c") (EVar "w")) false].
Definition step_params : params := mkParams (1 # 2) [] [("h", mkArr [2; 2]%nat [1 # 4; 3 # 4; 1 # 2; 1 # 2])].
Definition step_env : env := [("h", 0); ("w", 1); ("c", 1 # 2); ("_period", 0)]%Q.
Definition step_table (idx : list nat) : Q := match idx with [a; b] => Qofnat a + 2 * Qofnat b | _ => 0 end.
Definition step_det (s : string) : Q := if String.eqb s "w" then 1 # 2 else 0.
Example C01_bellman_step_nonvacuous :
  NoDup (map fst (states step_model)) /\ grids_valid (states step_model) /\
  eval_fun (depth step_model) step_model step_params step_env "utility" = Some (1 # 2) /\
  (forall sg, In sg (states step_model) -> is_stochastic step_model (fst sg) = false ->
     next_det step_model step_params step_env (fst sg) = Some (step_det (fst sg))) /\
  omap (fun sg : string * grid => weight_row step_model step_params step_env (fst sg)) (stoch_states step_model)
    = Some [[1 # 4; 3 # 4]] /\
  Forall2 (fun (sg : string * grid) (row : list Q) => length row = grid_size (snd sg)) (stoch_states step_model) [[1 # 4; 3 # 4]] /\
  (forall idx, in_bounds (map (fun sg : string * grid => grid_size (snd sg)) (stoch_states step_model)) idx ->
     exists q, qread (states step_model) step_table (node_vals (states step_model) (is_stochastic step_model) step_det idx) = Some q) /\
  objective step_model step_params false (fun idx => VFin (step_table idx)) step_env = VFin (22528 # 16384) /\
  Qred (fst (code_value step_model step_params step_det [[1 # 4; 3 # 4]] (1 # 2) unit tt 0 []
                         (FR_free (states step_model) step_table))) = 11 # 8 /\
  (* the same with the state h treated as filter-restricted: both combinations remain *)
  Qred (fst (code_value step_model step_params step_det [[1 # 4; 3 # 4]] (1 # 2) unit tt 0 []
                         (FR_ix (fun s => String.eqb s "h") [[0%nat]; [1%nat]] (states step_model) step_table))) = 11 # 8.
Proof.
  split; [repeat constructor; simpl; intuition discriminate|].
  split; [repeat constructor; vm_compute; reflexivity|].
  split; [vm_compute; reflexivity|].
  split.
  { intros sg Hin Hst. simpl in Hin. destruct Hin as [<-|[<-|[]]]; [vm_compute in Hst; discriminate|vm_compute; reflexivity]. }
  split; [vm_compute; reflexivity|].
  split; [repeat constructor|].
  split.
  { intros idx Hb. change (in_bounds [2%nat] idx) in Hb. destruct idx as [|k idx']; [contradiction|]. destruct Hb as [Hk Hb'].
    destruct idx'; [|contradiction].
    destruct k as [|[|k]]; [eexists; vm_compute; reflexivity|eexists; vm_compute; reflexivity|exfalso; lia]. }
  split; [vm_compute; reflexivity|]. split; vm_compute; reflexivity.
Qed.

(* ---- the maximum over the continuous choices as the code computes it (Gen/CCV.v) ----------------- *)
From LCM Require Import Gen.CCV Proofs.ArrLemmas2 Proofs.C06_CCV.
(* compute_ccv(u, f) = u.max(where=f, initial=-inf): an upper bound of every feasible entry, attained   *)
(* by a feasible entry, and -inf exactly when no entry is feasible -- an infeasible choice never          *)
(* determines a value                                                                                     *)
Theorem C01_code_maximum_over_continuous_choices : forall (u : arr val) (f : arr bool),
  wf u -> wf f -> Forall defined (data u) -> shape f = shape u ->
  let M := compute_ccv u f in
  defined M /\
  (forall idx, in_bounds (shape u) idx -> get false f idx = true -> vle (get VUndef u idx) M) /\
  (M = VNegInf \/ exists idx, in_bounds (shape u) idx /\ get false f idx = true /\ get VUndef u idx = M).
Proof. exact stored_maximum_is_max_over_feasible. Qed.
Print Assumptions C01_code_maximum_over_continuous_choices.

(* ---- THE MAXIMISATION OF THE CODE IS THE MAXIMISATION OF THE SPECIFICATION ------------------------ *)
From Coq Require Import Permutation.
From LCM Require Import Gen.DiscreteNoShocks Proofs.C01_MaxCompose.
(* The entry the regenerated reductions compute for a state -- for every combination of the discrete  *)
(* choices (axes of cc) the regenerated compute_ccv of the utility / feasibility arrays over the       *)
(* continuous choice grid, then the regenerated no-shock reduction over the discrete choice axes --     *)
(* is the specification's value_at of that state (the maximum over all admissible grid choices, -inf    *)
(* without one), whatever the declaration order of the choices; provided every entry of the arrays      *)
(* holds the specification's feasibility / objective of the choice it stands for (which is the          *)
(* step theorem above plus C19's entry theorem for the two product maps).                                *)
Theorem C01_code_maximisation_is_the_specifications :
  forall (m : model) (p : params) (t : nat) (last : bool) (vnext : list nat -> val) (sigma : env)
         (dch cch : list (string * grid)),
  Permutation (dch ++ cch) (choices m) -> NoDup (map fst (choices m)) ->
  forall (cc : arr val) (axes keep : list nat),
  let mask := axis_mask (length (shape cc)) axes in
  let dshape := map (fun sg : string * grid => grid_size (snd sg)) dch in
  let cshape := map (fun sg : string * grid => grid_size (snd sg)) cch in
  in_bounds (select_mask mask (shape cc) false) keep ->
  select_mask mask (shape cc) true = dshape ->
  forall (U : list nat -> list nat -> val) (Fm : list nat -> list nat -> bool),
  (forall red, in_bounds dshape red ->
     get VUndef cc (interleave mask keep red) = compute_ccv (tabulate cshape (U red)) (tabulate cshape (Fm red))) ->
  (forall red cidx, in_bounds dshape red -> in_bounds cshape cidx ->
     let e := (sigma ++ (env_of_idx dch red ++ env_of_idx cch cidx) ++ [(period_name, Qofnat t)])%list in
     Fm red cidx = feasible m p e /\ (feasible m p e = true -> veq (U red cidx) (objective m p last vnext e))) ->
  veq (get VUndef (solve_discrete_problem_no_shocks cc (Some axes) None tt) keep) (value_at m p t last vnext sigma).
Proof.
  intros m p t last vnext sigma dch cch H1 H2 cc axes keep mask dshape cshape H3 H4 U Fm H5 H6.
  exact (solved_entry_is_the_specifications_value m p t last vnext sigma dch cch H1 H2 cc axes keep H3 H4 U Fm H5 H6).
Qed.
Print Assumptions C01_code_maximisation_is_the_specifications.

(* ---- ONE PERIOD OF THE CODE IS ONE PERIOD OF THE SPECIFICATION ------------------------------------- *)
From LCM Require Import Model.DispatchersG Proofs.C01_Period.
(* For a model without filter-restricted variables (variable_info order: discrete states dst, discrete  *)
(* choices dch, continuous states cst, continuous choices cch): the array lcm computes for a period --   *)
(* utility_and_feasibility (the regenerated u_and_f of Gen/ModelFunctions.v, its scalar value function    *)
(* the function representation on the documented layout of the next period's table F) product-mapped    *)
(* over the continuous choice grids, the regenerated compute_ccv on the pair of arrays, the space map    *)
(* of that over the grids of dst, dch, cst (C19's product map, any output type), the regenerated         *)
(* no-shock reduction over the discrete choice axes -- holds at EVERY position (ds ++ cs) the           *)
(* specification's value_at of the state stored there: the maximum, over all admissible grid choices,   *)
(* of utility + beta * expected interpolated next value; -inf where no choice is admissible.             *)
(* Hypothesis: the model evaluates at every grid point (utility, next states, transition rows of the     *)
(* length of their grid, next table readable at every node).                                            *)
Theorem C01_one_period_of_the_code_is_the_specifications :
  forall (m : model) (p : params) (t : nat) (F : list nat -> Q) (dst dch cst cch : list (string * grid)),
  Permutation (dch ++ cch) (choices m) -> NoDup (map fst (choices m)) ->
  NoDup (map fst (states m)) -> grids_valid (states m) ->
  (forall ds dc cs cc,
     in_bounds (sizes dst) ds -> in_bounds (sizes dch) dc -> in_bounds (sizes cst) cs -> in_bounds (sizes cch) cc ->
     evaluates_at m p F (spec_env t dst dch cst cch ds dc cs cc)) ->
  forall ds cs, in_bounds (sizes dst) ds -> in_bounds (sizes cst) cs ->
  veq (get VUndef (V_array dst dch cst cch (uf_code m p t F dst dch cst cch)) (ds ++ cs))
      (value_at m p t false (fun idx => VFin (F idx)) (env_of_idx dst ds ++ env_of_idx cst cs)%list).
Proof. exact period_of_the_code_is_the_specifications. Qed.
Print Assumptions C01_one_period_of_the_code_is_the_specifications.

(* the last period: u_and_f is the regenerated last-period function (utility and feasibility only) *)
Theorem C01_last_period_of_the_code_is_the_specifications :
  forall (m : model) (p : params) (t : nat) (vnext : list nat -> val) (dst dch cst cch : list (string * grid)),
  Permutation (dch ++ cch) (choices m) -> NoDup (map fst (choices m)) ->
  (forall ds dc cs cc,
     in_bounds (sizes dst) ds -> in_bounds (sizes dch) dc -> in_bounds (sizes cst) cs -> in_bounds (sizes cch) cc ->
     exists u, eval_fun (depth m) m p (spec_env t dst dch cst cch ds dc cs cc) "utility" = Some u) ->
  forall ds cs, in_bounds (sizes dst) ds -> in_bounds (sizes cst) cs ->
  veq (get VUndef (V_array dst dch cst cch (uf_code_last m p t dst dch cst cch)) (ds ++ cs))
      (value_at m p t true vnext (env_of_idx dst ds ++ env_of_idx cst cs)%list).
Proof. exact last_period_of_the_code_is_the_specifications. Qed.
Print Assumptions C01_last_period_of_the_code_is_the_specifications.

(* non-vacuity: step_model meets all hypotheses of the period theorem (the evaluation hypothesis at all 18 grid   *)
(* points by the decision procedure evaluates_everywhereb, sound by evaluates_everywhereb_sound), and both sides  *)
(* of the conclusion computed at the six states                                                                  *)
Example C01_period_nonvacuous :
  let dst := [("h", GDisc 2)] in let cst := [("w", GLin 0 2 3)] in let cch := [("c", GLin 0 2 3)] in
  Permutation ([] ++ cch) (choices step_model) /\ NoDup (map fst (choices step_model)) /\
  NoDup (map fst (states step_model)) /\ grids_valid (states step_model) /\
  (forall ds dc cs cc,
     in_bounds (sizes dst) ds -> in_bounds (sizes []) dc -> in_bounds (sizes cst) cs -> in_bounds (sizes cch) cc ->
     evaluates_at step_model step_params step_table (spec_env 0 dst [] cst cch ds dc cs cc)) /\
  map (fun idx => vred (get VUndef (V_array dst [] cst cch (uf_code step_model step_params 0 step_table dst [] cst cch)) idx))
      [[0; 0]; [0; 1]; [0; 2]; [1; 0]; [1; 1]; [1; 2]]%nat
  = [VFin (3 # 8); VFin (11 # 8); VFin (19 # 8); VFin (1 # 4); VFin (9 # 4); VFin (17 # 4)] /\
  map (fun idx => vred (value_at step_model step_params 0 false (fun i => VFin (step_table i))
                          (env_of_idx dst [hd 0%nat idx] ++ env_of_idx cst (tl idx))%list))
      [[0; 0]; [0; 1]; [0; 2]; [1; 0]; [1; 1]; [1; 2]]%nat
  = [VFin (3 # 8); VFin (11 # 8); VFin (19 # 8); VFin (1 # 4); VFin (9 # 4); VFin (17 # 4)].
Proof.
  cbv zeta. split; [apply Permutation_refl|].
  split; [repeat constructor; simpl; intuition discriminate|].
  split; [repeat constructor; simpl; intuition discriminate|].
  split; [repeat constructor; vm_compute; reflexivity|].
  split; [apply evaluates_everywhereb_sound; vm_compute; reflexivity|].
  split; vm_compute; reflexivity.
Qed.

(* ---- ALL PERIODS: WHAT lcm's solve RETURNS ------------------------------------------------------------------ *)
From LCM Require Import Proofs.C01_Solve Proofs.C01_SolveSpec.
(* code_solve m p n dch cch (Proofs/C01_Solve.v) is the regenerated glue of get_lcm_function and the regenerated  *)
(* driver solve (Gen/EntryPoint.v, Gen/SolveBrute.v) instantiated with the per-period components of the period   *)
(* theorem: the regenerated u_and_f of period t (last-period branch iff t = n-1) whose scalar value function is   *)
(* the function representation on the array of period t+1 ITSELF (vf_arr), the product maps, the regenerated      *)
(* compute_ccv, and the regenerated get_solve_discrete_problem (Gen/SolveDiscrete.v) applied to the variable_info   *)
(* of the model (the reduction it selects and the choice axes it determines: Proofs/C18_AxesFilterFree.v).          *)
(* For models without filter-restricted and without auxiliary variables (states: discrete ones                      *)
(* first, then continuous ones, each group in declaration order):                                                  *)
(* (a) the Bellman equation of the specification holds for the arrays lcm returns: in every period and at every   *)
(*     state of the grid, the entry is the maximum over all admissible grid choices of utility + beta * expected   *)
(*     value, the next value function being the next array read as a table (interpolated linearly, extended        *)
(*     linearly beyond the grid); no continuation in the last period;                                             *)
Theorem C01_lcm_solve_satisfies_the_bellman_equation :
  forall (m : model) (p : params) (n : nat) (dch cch : list (string * grid)),
  let dst := dstates (states m) in let cst := cstates (states m) in
  Permutation (dch ++ cch) (choices m) -> NoDup (map fst (choices m)) -> NoDup (map fst (states m)) -> grids_valid (states m) ->
  NoDup (map fst (dst ++ dch ++ cst ++ cch)) ->
  forall t ds cs, (t < n)%nat ->
  ((S t < n)%nat -> forall ds' dc cs' cc,
     in_bounds (sizes dst) ds' -> in_bounds (sizes dch) dc -> in_bounds (sizes cst) cs' -> in_bounds (sizes cch) cc ->
     evaluates_at m p (next_table m p n dch cch t) (spec_env t dst dch cst cch ds' dc cs' cc)) ->
  (S t = n -> forall ds' dc cs' cc,
     in_bounds (sizes dst) ds' -> in_bounds (sizes dch) dc -> in_bounds (sizes cst) cs' -> in_bounds (sizes cch) cc ->
     exists u, eval_fun (depth m) m p (spec_env t dst dch cst cch ds' dc cs' cc) "utility" = Some u) ->
  in_bounds (sizes dst) ds -> in_bounds (sizes cst) cs ->
  veq (get VUndef (nth t (code_solve m p n dch cch) (scalar VUndef)) (ds ++ cs))
      (value_at m p t (t =? n - 1)%nat (fun idx => VFin (next_table m p n dch cch t idx)) (env_of_idx dst ds ++ env_of_idx cst cs)%list).
Proof. intros m p n dch cch dst cst H1 H2 H3 H4 H5 t ds cs. exact (code_solve_satisfies_the_bellman_equation m p n dch cch H1 H2 H3 H4 H5 t ds cs). Qed.
Print Assumptions C01_lcm_solve_satisfies_the_bellman_equation.

(* (b) hence, by backward induction over the periods, EVERY entry of EVERY array lcm's solve returns is the entry   *)
(*     of the specification's solve_spec for that period and state (position: discrete labels, then continuous     *)
(*     indices), when the model evaluates at every grid point and the specification's value function is finite     *)
(*     on the grid (every state has an admissible choice; -inf entries are outside the Q-array model of vf_arr).   *)
Theorem C01_lcm_solve_is_the_specifications_solve :
  forall (m : model) (p : params) (dch cch : list (string * grid)),
  Permutation (dch ++ cch) (choices m) -> NoDup (map fst (choices m)) -> NoDup (map fst (states m)) -> grids_valid (states m) ->
  NoDup (map fst (dstates (states m) ++ dch ++ cstates (states m) ++ cch)) ->
  (forall t, (S t < n_periods m)%nat -> forall ds dc cs cc,
     in_bounds (sizes (dstates (states m))) ds -> in_bounds (sizes dch) dc -> in_bounds (sizes (cstates (states m))) cs -> in_bounds (sizes cch) cc ->
     evaluates_at m p (fun _ => 0%Q) (spec_env t (dstates (states m)) dch (cstates (states m)) cch ds dc cs cc)) ->
  (forall t, S t = n_periods m -> forall ds dc cs cc,
     in_bounds (sizes (dstates (states m))) ds -> in_bounds (sizes dch) dc -> in_bounds (sizes (cstates (states m))) cs -> in_bounds (sizes cch) cc ->
     exists u, eval_fun (depth m) m p (spec_env t (dstates (states m)) dch (cstates (states m)) cch ds dc cs cc) "utility" = Some u) ->
  (forall t idx, (t < n_periods m)%nat -> in_bounds (state_shape m) idx ->
     exists q, get VUndef (nth t (solve_spec m p) (scalar VUndef)) idx = VFin q) ->
  forall t idx, (t < n_periods m)%nat -> in_bounds (state_shape m) idx ->
  veq (get VUndef (nth t (code_solve m p (n_periods m) dch cch) (scalar VUndef)) (dpart (states m) idx ++ cpart (states m) idx)%list)
      (get VUndef (nth t (solve_spec m p) (scalar VUndef)) idx).
Proof. exact lcm_solve_is_the_specifications_solve. Qed.
Print Assumptions C01_lcm_solve_is_the_specifications_solve.

(* non-vacuity: a three-period model with a stochastic discrete and a continuous state, a continuous choice and a  *)
(* constraint meets every hypothesis (decided by the sound procedures of Proofs/C01_SolveSpec.v), and both sides    *)
(* computed: the arrays differ from period to period                                                               *)
Definition solve_params : params := mkParams (9 # 10) [] [("h", mkArr [2; 2]%nat [1 # 4; 3 # 4; 1 # 2; 1 # 2])].
Example C01_solve_nonvacuous :
  let cch := [("c", GLin 0 2 3)] in
  Permutation ([] ++ cch) (choices step_model) /\ NoDup (map fst (choices step_model)) /\
  NoDup (map fst (states step_model)) /\ grids_valid (states step_model) /\
  NoDup (map fst (dstates (states step_model) ++ [] ++ cstates (states step_model) ++ cch)) /\
  evaluates_in_all_periodsb step_model solve_params [] cch = true /\
  utility_defined_everywhereb step_model solve_params 2 [] cch = true /\
  spec_finite_everywhereb step_model solve_params = true /\
  map (fun a => map vred (data a)) (code_solve step_model solve_params 3 [] cch)
  = [[VFin 0; VFin (621 # 320); VFin (621 # 160); VFin 0; VFin (2213 # 800); VFin (2213 # 400)];
     [VFin 0; VFin (63 # 40); VFin (63 # 20); VFin 0; VFin (47 # 20); VFin (47 # 10)];
     [VFin 0; VFin 1; VFin 2; VFin 0; VFin 2; VFin 4]] /\
  map (fun a => map vred (data a)) (solve_spec step_model solve_params)
  = [[VFin 0; VFin (621 # 320); VFin (621 # 160); VFin 0; VFin (2213 # 800); VFin (2213 # 400)];
     [VFin 0; VFin (63 # 40); VFin (63 # 20); VFin 0; VFin (47 # 20); VFin (47 # 10)];
     [VFin 0; VFin 1; VFin 2; VFin 0; VFin 2; VFin 4]].
Proof.
  cbv zeta. split; [apply Permutation_refl|].
  split; [repeat constructor; simpl; intuition discriminate|].
  split; [repeat constructor; simpl; intuition discriminate|].
  split; [repeat constructor; vm_compute; reflexivity|].
  split; [repeat constructor; simpl; intuition discriminate|].
  repeat split; vm_compute; reflexivity.
Qed.

(* ---- ONE PERIOD OF THE CODE WITH FILTER-RESTRICTED VARIABLES ------------------------------------------------------------- *)
From LCM Require Import Model.StateSpace Spec.Layout Proofs.C17_StateSpace Proofs.Refine_StateSpace Proofs.C01_Sparse.
(* rs / rc: the filter-restricted states / choices (Spec.Layout), dst, dch, cst, cch: the free discrete states, discrete    *)
(* choices, continuous states, continuous choices.  The state-choice space holds the filter-passing combinations of the      *)
(* restricted variables on ONE leading axis (C17's model of create_combination_grid / create_indexers_and_segments on the     *)
(* filter mask: true_positions, segment ids, number of segments), the dense grids on the other axes.  The array lcm computes   *)
(* for a period -- the regenerated u_and_f (whose scalar value function is the function representation with rank axis and     *)
(* state indexer on the next period's table) product-mapped over the continuous choice grids, the regenerated compute_ccv,     *)
(* the space map (jointly over the stored combinations, then over the dense grids), the regenerated no-shock reduction:        *)
(* maximum over the dense discrete choice axes 1+|dst| .. and segment maximum over the stored combinations of every remaining   *)
(* restricted state -- holds at position (s, ds, cs) the specification's value_at of the state whose restricted part is the     *)
(* s-th remaining restricted-state combination.  A combination the filters reject is inadmissible in the specification (a      *)
(* filter reads only filter-restricted variables: eval_fun_reads_only_reachable_variables), so dropping it changes no maximum.  *)
Theorem C01_one_period_of_the_code_with_filters_is_the_specifications :
  forall (m : model) (p : params) (t : nat) (F : list nat -> Q) (dst dch cst cch : list (string * grid))
         (isr : string -> bool) (remaining : list (list nat)),
  let rs := restricted_states m in let rc := restricted_choices m in
  let mask := filter_mask m p t in let res := create_indexers_and_segments mask (length rs) in
  let combos := true_positions mask in let fstates := feasible_states mask (length rs) in
  let uf := uf_code_sparse m p t F rs rc dst dch cst cch isr remaining in
  Permutation (rc ++ dch ++ cch) (choices m) -> NoDup (map fst (choices m)) ->
  NoDup (map fst (rs ++ rc)) -> (rs ++ rc)%list <> [] ->
  (forall x, In x (map fst (dst ++ cst ++ dch ++ cch)) -> is_restricted m x = false) ->
  NoDup (map fst (states m)) -> grids_valid (states m) ->
  (forall si ci ds dc cs cidx,
     in_bounds (sizes rs) si -> in_bounds (sizes rc) ci -> in_bounds (sizes dst) ds -> in_bounds (sizes dch) dc ->
     in_bounds (sizes cst) cs -> in_bounds (sizes cch) cidx ->
     evaluates_at_ix m p F isr remaining (sp_env t rs rc dst dch cst cch si ci ds dc cs cidx)) ->
  forall s ds cs, (s < num_segments_r res)%nat -> in_bounds (sizes dst) ds -> in_bounds (sizes cst) cs ->
  veq (get VUndef (V_sparse rs rc dst dch cst cch uf combos (segment_ids_r res) (num_segments_r res)) (s :: ds ++ cs))
      (value_at m p t false (fun idx => VFin (F idx)) (env_of_idx rs (nth s fstates []) ++ env_of_idx dst ds ++ env_of_idx cst cs)%list).
Proof. exact period_of_the_code_with_filters_is_the_specifications. Qed.
Print Assumptions C01_one_period_of_the_code_with_filters_is_the_specifications.

Theorem C01_last_period_of_the_code_with_filters_is_the_specifications :
  forall (m : model) (p : params) (t : nat) (vnext : list nat -> val) (dst dch cst cch : list (string * grid)),
  let rs := restricted_states m in let rc := restricted_choices m in
  let mask := filter_mask m p t in let res := create_indexers_and_segments mask (length rs) in
  let combos := true_positions mask in let fstates := feasible_states mask (length rs) in
  let uf := uf_code_sparse_last m p t rs rc dst dch cst cch in
  Permutation (rc ++ dch ++ cch) (choices m) -> NoDup (map fst (choices m)) ->
  NoDup (map fst (rs ++ rc)) -> (rs ++ rc)%list <> [] ->
  (forall x, In x (map fst (dst ++ cst ++ dch ++ cch)) -> is_restricted m x = false) ->
  (forall si ci ds dc cs cidx,
     in_bounds (sizes rs) si -> in_bounds (sizes rc) ci -> in_bounds (sizes dst) ds -> in_bounds (sizes dch) dc ->
     in_bounds (sizes cst) cs -> in_bounds (sizes cch) cidx ->
     exists u, eval_fun (depth m) m p (sp_env t rs rc dst dch cst cch si ci ds dc cs cidx) "utility" = Some u) ->
  forall s ds cs, (s < num_segments_r res)%nat -> in_bounds (sizes dst) ds -> in_bounds (sizes cst) cs ->
  veq (get VUndef (V_sparse rs rc dst dch cst cch uf combos (segment_ids_r res) (num_segments_r res)) (s :: ds ++ cs))
      (value_at m p t true vnext (env_of_idx rs (nth s fstates []) ++ env_of_idx dst ds ++ env_of_idx cst cs)%list).
Proof. exact last_period_of_the_code_with_filters_is_the_specifications. Qed.
Print Assumptions C01_last_period_of_the_code_with_filters_is_the_specifications.

(* the reduction above with the choice axes exactly as the code passes them (none without a dense discrete choice) *)
Theorem C01_sparse_reduction_with_the_codes_axes :
  forall rs rc dst dch cst cch uf combos ids num,
  (rs ++ rc)%list <> [] -> Forall (in_bounds (sizes (rs ++ rc))) combos ->
  solve_discrete_problem_no_shocks (cc_sparse rs rc dst dch cst cch uf combos) (sparse_choice_axes dst dch) (Some (mkSeg ids num)) tt
  = V_sparse rs rc dst dch cst cch uf combos ids num.
Proof. exact V_sparse_with_the_codes_axes. Qed.
Print Assumptions C01_sparse_reduction_with_the_codes_axes.

(* non-vacuity: working (d = 1) is impossible in bad health (h = 0); the combination (h, d) = (0, 1) is not stored; the      *)
(* hypotheses hold at all 60 points (decided by evaluates_at_ixb, sound); both sides computed at all six states               *)
Definition sp_model : model :=
  mkModel 3 [("h", GDisc 2); ("w", GLin 0 2 3)] [("d", GDisc 2); ("c", GLin 0 2 5)]
    [mkUfun "utility" ["c"; "w"; "h"; "d"] (ESub (EAdd (EVar "c") (EMul (EVar "w") (EVar "h"))) (EMul (EConst (1#4)) (EVar "d"))) false;
     mkUfun "next_w" ["w"; "c"; "d"] (EAdd (ESub (EVar "w") (EVar "c")) (EMul (EConst (1#2)) (EVar "d"))) false;
     mkUfun "next_h" ["h"] (EConst 0) true;
     mkUfun "health_filter" ["h"; "d"] (ELe (EVar "d") (EVar "h")) false;
     mkUfun "budget_constraint" ["c"; "w"; "d"] (ELe (EVar "c") (EAdd (EVar "w") (EMul (EConst (1#2)) (EVar "d")))) false].
Definition sp_table (idx : list nat) : Q := match idx with [a; b] => Qofnat a + (1 # 2) * Qofnat b | _ => 0 end.
Example C01_period_with_filters_nonvacuous :
  let rs := [("h", GDisc 2)] in let rc := [("d", GDisc 2)] in let cst := [("w", GLin 0 2 3)] in let cch := [("c", GLin 0 2 5)] in
  let mask := filter_mask sp_model solve_params 0 in
  let uf := uf_code_sparse sp_model solve_params 0 sp_table rs rc [] [] cst cch (is_restricted sp_model) [[0%nat]; [1%nat]] in
  restricted_states sp_model = rs /\ restricted_choices sp_model = rc /\
  true_positions mask = [[0; 0]; [1; 0]; [1; 1]]%nat /\
  segment_ids_r (create_indexers_and_segments mask 1) = [0; 1; 1]%nat /\ num_segments_r (create_indexers_and_segments mask 1) = 2%nat /\
  feasible_states mask 1 = [[0]; [1]]%nat /\
  forallb (fun si => forallb (fun ci => forallb (fun cs => forallb (fun cidx =>
     evaluates_at_ixb sp_model solve_params sp_table (is_restricted sp_model) [[0%nat]; [1%nat]]
       (sp_env 0 rs rc [] [] cst cch si ci [] [] cs cidx)) (indices [5%nat])) (indices [3%nat])) (indices [2%nat])) (indices [2%nat]) = true /\
  map (fun idx => vred (get VUndef (V_sparse rs rc [] [] cst cch uf (true_positions mask)
                          (segment_ids_r (create_indexers_and_segments mask 1)) 2) idx))
      [[0; 0]; [0; 1]; [0; 2]; [1; 0]; [1; 1]; [1; 2]]%nat
  = [VFin (27 # 40); VFin (67 # 40); VFin (107 # 40); VFin (7 # 10); VFin (27 # 10); VFin (89 # 20)] /\
  map (fun idx => vred (value_at sp_model solve_params 0 false (fun i => VFin (sp_table i))
                          (env_of_idx rs [hd 0%nat idx] ++ env_of_idx [] [] ++ env_of_idx cst (tl idx))%list))
      [[0; 0]; [0; 1]; [0; 2]; [1; 0]; [1; 1]; [1; 2]]%nat
  = [VFin (27 # 40); VFin (67 # 40); VFin (107 # 40); VFin (7 # 10); VFin (27 # 10); VFin (89 # 20)].
Proof. cbv zeta. repeat split; vm_compute; reflexivity. Qed.

(* ---- ALL PERIODS WITH FILTER-RESTRICTED VARIABLES ------------------------------------------------------------------------ *)
From LCM Require Import Proofs.C14_OnLayoutIx Proofs.C01_SparseSolve.
(* code_solve_sparse (Proofs/C01_SparseSolve.v): the regenerated glue and driver with, for every period t, the state-choice   *)
(* space, the segments and the state indexer of C17's model on period t's filter mask, the regenerated u_and_f of period t     *)
(* reading the array of period t+1 through the state indexer OF PERIOD t+1 (function representation with rank axis; the        *)
(* indexer of C14's capstone is that array: C14_indexer_of_the_capstone_is_the_state_space_indexer), the product maps, the      *)
(* regenerated compute_ccv and the regenerated get_solve_discrete_problem on the model's variable_info with period t's          *)
(* segments.  The Bellman equation of the specification holds for the returned arrays: in every period, at every remaining       *)
(* restricted-state combination s and every grid point (ds, cs) of the free states, the entry is the specification's value_at    *)
(* with the next array (read through the next period's remaining combinations) as next value function.                          *)
(* Assumed of the model: the filter-restricted states are discrete and there is at least one; states and choices have            *)
(* different names; no variable is called "__sparse__"; no auxiliary variables.                                                 *)
Theorem C01_lcm_solve_with_filters_satisfies_the_bellman_equation :
  forall (m : model) (p : params) (n : nat) (dch cch : list (string * grid)),
  let rs := restricted_states m in let rc := restricted_choices m in
  let dst := free_discrete_states m in let cst := free_continuous_states m in
  Permutation (rc ++ dch ++ cch) (choices m) -> NoDup (map fst (choices m)) -> NoDup (map fst (rs ++ rc)) -> rs <> [] ->
  (forall x, In x (map fst (dst ++ cst ++ dch ++ cch)) -> is_restricted m x = false) ->
  NoDup (map fst (states m)) -> grids_valid (states m) ->
  (forall sg, In sg (states m) -> is_restricted m (fst sg) = true -> is_cont (snd sg) = false) ->
  NoDup (map fst (rc ++ dst ++ dch ++ cst ++ cch)) -> ~ In "__sparse__"%string (map fst (rc ++ dch ++ cch)) ->
  forall t s ds cs, (t < n)%nat ->
  ((S t < n)%nat -> forall si ci ds' dc cs' cidx,
     in_bounds (sizes rs) si -> in_bounds (sizes rc) ci -> in_bounds (sizes dst) ds' -> in_bounds (sizes dch) dc ->
     in_bounds (sizes cst) cs' -> in_bounds (sizes cch) cidx ->
     evaluates_at_ix m p (next_table_sparse m p n dch cch t) (is_restricted m) (rem_at m p (S t))
                     (sp_env t rs rc dst dch cst cch si ci ds' dc cs' cidx)) ->
  (S t = n -> forall si ci ds' dc cs' cidx,
     in_bounds (sizes rs) si -> in_bounds (sizes rc) ci -> in_bounds (sizes dst) ds' -> in_bounds (sizes dch) dc ->
     in_bounds (sizes cst) cs' -> in_bounds (sizes cch) cidx ->
     exists u, eval_fun (depth m) m p (sp_env t rs rc dst dch cst cch si ci ds' dc cs' cidx) "utility" = Some u) ->
  (s < length (rem_at m p t))%nat -> in_bounds (sizes dst) ds -> in_bounds (sizes cst) cs ->
  veq (get VUndef (nth t (code_solve_sparse m p n dch cch) (scalar VUndef)) (s :: ds ++ cs))
      (value_at m p t (t =? n - 1)%nat (fun idx => VFin (next_table_sparse m p n dch cch t idx))
                (env_of_idx rs (nth s (rem_at m p t) []) ++ env_of_idx dst ds ++ env_of_idx cst cs)%list).
Proof.
  intros m p n dch cch rs rc dst cst H1 H2 H3 H4 H5 H6 H7 H8 H9 H10 t s ds cs.
  exact (code_solve_sparse_satisfies_the_bellman_equation m p n dch cch H1 H2 H3 H4 H5 H6 H7 H8 H9 H10 t s ds cs).
Qed.
Print Assumptions C01_lcm_solve_with_filters_satisfies_the_bellman_equation.

(* non-vacuity: the filter model over three periods; the arrays of the instantiated code ARE the specification's solve_spec in   *)
(* the documented layout (computed), the hypotheses of the theorem hold in every period (decided)                                *)
Example C01_solve_with_filters_nonvacuous :
  let cch := [("c", GLin 0 2 5)] in
  let rs := restricted_states sp_model in let rc := restricted_choices sp_model in
  let dst := free_discrete_states sp_model in let cst := free_continuous_states sp_model in
  map (fun a => (shape a, map vred (data a))) (code_solve_sparse sp_model solve_params 3 [] cch)
  = map (fun a => (shape a, map vred (data a))) (solve_layout sp_model solve_params) /\
  map (fun a => map vred (data a)) (code_solve_sparse sp_model solve_params 3 [] cch)
  = [[VFin (513 # 1280); VFin (7371 # 3200); VFin (26433 # 6400); VFin (1201 # 1280); VFin (23223 # 6400); VFin (40117 # 6400)];
     [VFin (27 # 160); VFin (279 # 160); VFin (63 # 20); VFin (43 # 80); VFin (453 # 160); VFin (811 # 160)];
     [VFin 0; VFin 1; VFin 2; VFin (1 # 4); VFin (9 # 4); VFin 4]] /\
  forallb (fun t => forallb (fun si => forallb (fun ci => forallb (fun cs => forallb (fun cidx =>
     if (S t =? 3)%nat
     then is_some (eval_fun (depth sp_model) sp_model solve_params (sp_env t rs rc dst [] cst cch si ci [] [] cs cidx) "utility")
     else evaluates_at_ixb sp_model solve_params (next_table_sparse sp_model solve_params 3 [] cch t) (is_restricted sp_model)
            (rem_at sp_model solve_params (S t)) (sp_env t rs rc dst [] cst cch si ci [] [] cs cidx))
     (indices [5%nat])) (indices [3%nat])) (indices [2%nat])) (indices [2%nat])) [0; 1; 2]%nat = true.
Proof. cbv zeta. repeat split; vm_compute; reflexivity. Qed.

(* ---- a corollary: the order in which the choices are listed does not matter to what solve returns ------------------------ *)
From LCM Require Import Proofs.Spec_Algebra.
(* (C10 for the code, models without filter-restricted variables): two listings (dch, cch) and (dch', cch') of the same       *)
(* choices -- any order within the discrete and within the continuous ones -- give arrays with equal entries, because both are  *)
(* the specification's solve_spec.                                                                                              *)
Theorem C01_lcm_solve_does_not_depend_on_the_order_of_the_choices :
  forall (m : model) (p : params) (dch cch dch' cch' : list (string * grid)),
  Permutation (dch ++ cch) (choices m) -> Permutation (dch' ++ cch') (choices m) ->
  NoDup (map fst (choices m)) -> NoDup (map fst (states m)) -> grids_valid (states m) ->
  NoDup (map fst (dstates (states m) ++ dch ++ cstates (states m) ++ cch)) ->
  NoDup (map fst (dstates (states m) ++ dch' ++ cstates (states m) ++ cch')) ->
  (forall t, (S t < n_periods m)%nat -> forall ds dc cs cc,
     in_bounds (sizes (dstates (states m))) ds -> in_bounds (sizes dch) dc -> in_bounds (sizes (cstates (states m))) cs -> in_bounds (sizes cch) cc ->
     evaluates_at m p (fun _ => 0%Q) (spec_env t (dstates (states m)) dch (cstates (states m)) cch ds dc cs cc)) ->
  (forall t, S t = n_periods m -> forall ds dc cs cc,
     in_bounds (sizes (dstates (states m))) ds -> in_bounds (sizes dch) dc -> in_bounds (sizes (cstates (states m))) cs -> in_bounds (sizes cch) cc ->
     exists u, eval_fun (depth m) m p (spec_env t (dstates (states m)) dch (cstates (states m)) cch ds dc cs cc) "utility" = Some u) ->
  (forall t, (S t < n_periods m)%nat -> forall ds dc cs cc,
     in_bounds (sizes (dstates (states m))) ds -> in_bounds (sizes dch') dc -> in_bounds (sizes (cstates (states m))) cs -> in_bounds (sizes cch') cc ->
     evaluates_at m p (fun _ => 0%Q) (spec_env t (dstates (states m)) dch' (cstates (states m)) cch' ds dc cs cc)) ->
  (forall t, S t = n_periods m -> forall ds dc cs cc,
     in_bounds (sizes (dstates (states m))) ds -> in_bounds (sizes dch') dc -> in_bounds (sizes (cstates (states m))) cs -> in_bounds (sizes cch') cc ->
     exists u, eval_fun (depth m) m p (spec_env t (dstates (states m)) dch' (cstates (states m)) cch' ds dc cs cc) "utility" = Some u) ->
  (forall t idx, (t < n_periods m)%nat -> in_bounds (state_shape m) idx ->
     exists q, get VUndef (nth t (solve_spec m p) (scalar VUndef)) idx = VFin q) ->
  forall t idx, (t < n_periods m)%nat -> in_bounds (state_shape m) idx ->
  veq (get VUndef (nth t (code_solve m p (n_periods m) dch cch) (scalar VUndef)) (dpart (states m) idx ++ cpart (states m) idx)%list)
      (get VUndef (nth t (code_solve m p (n_periods m) dch' cch') (scalar VUndef)) (dpart (states m) idx ++ cpart (states m) idx)%list).
Proof.
  intros m p dch cch dch' cch' P1 P2 N1 N2 V N3 N4 E1 L1 E2 L2 F t idx Ht Hb.
  eapply veq_trans.
  - exact (lcm_solve_is_the_specifications_solve m p dch cch P1 N1 N2 V N3 E1 L1 F t idx Ht Hb).
  - apply veq_sym. exact (lcm_solve_is_the_specifications_solve m p dch' cch' P2 N1 N2 V N4 E2 L2 F t idx Ht Hb).
Qed.
Print Assumptions C01_lcm_solve_does_not_depend_on_the_order_of_the_choices.

(* ---- WITH FILTERS: WHAT solve RETURNS IS THE SPECIFICATION'S solve_spec AT THE REMAINING STATES ---------------------------- *)
From LCM Require Import Proofs.C01_SparseSpec.
(* decl_index m p t s ds cs is the declaration-order index of the state stored at position (s, ds, cs): restricted labels of    *)
(* the s-th remaining combination, free discrete labels ds, continuous indices cs.  By backward induction over the periods        *)
(* (Proofs/C01_SparseSpec.v): the specification's value depends on the next value function only at the indices it reads --        *)
(* in-bounds indices whose restricted part is that of a node of the transition (vread_veq_at_labels), which remains in the next    *)
(* period's space -- and on the state only through its bindings.  Hypotheses: the model evaluates at every point of every          *)
(* period's space with every node landing on a remaining state, and the specification's value function is finite at the            *)
(* remaining states (at the dropped ones it is -inf: they have no admissible choice).                                             *)
Theorem C01_lcm_solve_with_filters_is_the_specifications_solve :
  forall (m : model) (p : params) (dch cch : list (string * grid)),
  let rs := restricted_states m in let rc := restricted_choices m in
  let dst := free_discrete_states m in let cst := free_continuous_states m in
  Permutation (rc ++ dch ++ cch) (choices m) -> NoDup (map fst (choices m)) -> NoDup (map fst (rs ++ rc)) -> rs <> [] ->
  (forall x, In x (map fst (dst ++ cst ++ dch ++ cch)) -> is_restricted m x = false) ->
  NoDup (map fst (states m)) -> grids_valid (states m) ->
  (forall sg, In sg (states m) -> is_restricted m (fst sg) = true -> is_cont (snd sg) = false) ->
  NoDup (map fst (rc ++ dst ++ dch ++ cst ++ cch)) -> ~ In "__sparse__"%string (map fst (rc ++ dch ++ cch)) ->
  (forall t, (S t < n_periods m)%nat -> forall si ci ds dc cs cidx,
     in_bounds (sizes rs) si -> in_bounds (sizes rc) ci -> in_bounds (sizes dst) ds -> in_bounds (sizes dch) dc ->
     in_bounds (sizes cst) cs -> in_bounds (sizes cch) cidx ->
     evaluates_at_ix m p (fun _ => 0%Q) (is_restricted m) (rem_at m p (S t)) (sp_env t rs rc dst dch cst cch si ci ds dc cs cidx)) ->
  (forall t, S t = n_periods m -> forall si ci ds dc cs cidx,
     in_bounds (sizes rs) si -> in_bounds (sizes rc) ci -> in_bounds (sizes dst) ds -> in_bounds (sizes dch) dc ->
     in_bounds (sizes cst) cs -> in_bounds (sizes cch) cidx ->
     exists u, eval_fun (depth m) m p (sp_env t rs rc dst dch cst cch si ci ds dc cs cidx) "utility" = Some u) ->
  (forall t idx, (t < n_periods m)%nat -> in_bounds (state_shape m) idx -> In (rpart (is_restricted m) (states m) idx) (rem_at m p t) ->
     exists q, get VUndef (nth t (solve_spec m p) (scalar VUndef)) idx = VFin q) ->
  forall t s ds cs, (t < n_periods m)%nat -> (s < length (rem_at m p t))%nat -> in_bounds (sizes dst) ds -> in_bounds (sizes cst) cs ->
  veq (get VUndef (nth t (code_solve_sparse m p (n_periods m) dch cch) (scalar VUndef)) (s :: ds ++ cs))
      (get VUndef (nth t (solve_spec m p) (scalar VUndef)) (decl_index m p t s ds cs)).
Proof. exact lcm_solve_with_filters_is_the_specifications_solve. Qed.
Print Assumptions C01_lcm_solve_with_filters_is_the_specifications_solve.

(* non-vacuity of the three hypotheses for the filter model (the conclusion is computed in C01_solve_with_filters_nonvacuous) *)
Example C01_solve_with_filters_hypotheses_nonvacuous :
  let cch := [("c", GLin 0 2 5)] in
  let rs := restricted_states sp_model in let rc := restricted_choices sp_model in
  let dst := free_discrete_states sp_model in let cst := free_continuous_states sp_model in
  forallb (fun t => forallb (fun si => forallb (fun ci => forallb (fun cs => forallb (fun cidx =>
     if (S t =? 3)%nat
     then is_some (eval_fun (depth sp_model) sp_model solve_params (sp_env t rs rc dst [] cst cch si ci [] [] cs cidx) "utility")
     else evaluates_at_ixb sp_model solve_params (fun _ => 0%Q) (is_restricted sp_model)
            (rem_at sp_model solve_params (S t)) (sp_env t rs rc dst [] cst cch si ci [] [] cs cidx))
     (indices [5%nat])) (indices [3%nat])) (indices [2%nat])) (indices [2%nat])) [0; 1; 2]%nat = true /\
  forallb (fun t => forallb (fun idx =>
     negb (existsb (list_nat_eqb (rpart (is_restricted sp_model) (states sp_model) idx)) (rem_at sp_model solve_params t)) ||
     match get VUndef (nth t (solve_spec sp_model solve_params) (scalar VUndef)) idx with VFin _ => true | _ => false end)
     (indices (state_shape sp_model))) [0; 1; 2]%nat = true /\
  map (fun t => map (fun sidx => decl_index sp_model solve_params t (fst sidx) [] [snd sidx]) [(0, 0); (0, 2); (1, 1)]%nat) [0; 2]%nat
  = [[[0; 0]; [0; 2]; [1; 1]]; [[0; 0]; [0; 2]; [1; 1]]]%nat.
Proof. cbv zeta. repeat split; vm_compute; reflexivity. Qed.

(* Properties/C01.v — solve() returns the Bellman solution on the grid.                     *)
(* STATUS (partial): the theorems below are about the SPECIFICATION Spec/Bellman.v (the      *)
(* reference the implementation is compared with entry by entry on every run, family         *)
(* solve_vs_spec): they establish that the reference IS the quantity C01 describes — the max  *)
(* over exactly the admissible grid choices of utility + beta * expected interpolated next    *)
(* value, -inf without admissible choice, no continuation in the last period, inadmissible    *)
(* choices irrelevant, tables produced by backward induction.  The refinement theorem          *)
(* "lcm's array pipeline = this specification" is proved for the pipeline's components         *)
(* (C14, C15, C17, C18, C19) and composed in Properties/C01 only as far as stated below;       *)
(* the full statement is kept as C01_full_statement.                                           *)
From LCM Require Import Base.ArrOps Model.Dispatchers Model.QOps Proofs.C11_ModelFunctions.
From LCM Require Import Base.Prelude Base.Arr Spec.Lang Spec.Bellman Spec.Layout.
From LCM Require Import Proofs.ArrLemmas2 Proofs.Spec_Bellman Gen.SolveBrute Proofs.C05_SolveLoop Gen.EntryPoint Proofs.C01_EntryPoint.
Local Open Scope nat_scope.

(* the choice set of the reference is exactly the product of the choice grids *)
Theorem C01_choice_set_is_grid_product : forall vars e,
  In e (assignments vars) <->
  Forall2 (fun xv kv => fst kv = fst xv /\ In (snd kv) (snd xv)) vars e.
Proof. exact in_assignments. Qed.
Print Assumptions C01_choice_set_is_grid_product.

(* the value of a state: an upper bound of the objective of every admissible grid choice,
   attained by one of them, or -inf *)
Theorem C01_value_is_max_over_admissible : forall m p t last vnext sigma,
  (forall gamma, In gamma (choice_set m) -> defined (cand m p t last vnext sigma gamma)) ->
  let V := value_at m p t last vnext sigma in
  defined V /\
  (forall gamma, In gamma (choice_set m) -> feasible m p (env_of_choice t sigma gamma) = true ->
                 vle (objective m p last vnext (env_of_choice t sigma gamma)) V) /\
  (V = VNegInf \/
   exists gamma, In gamma (choice_set m) /\ feasible m p (env_of_choice t sigma gamma) = true /\
                 objective m p last vnext (env_of_choice t sigma gamma) = V).
Proof. exact value_is_max_over_admissible. Qed.
Print Assumptions C01_value_is_max_over_admissible.

Theorem C01_no_admissible_choice_is_neginf : forall m p t last vnext sigma,
  (forall gamma, In gamma (choice_set m) -> defined (cand m p t last vnext sigma gamma)) ->
  (forall gamma, In gamma (choice_set m) -> feasible m p (env_of_choice t sigma gamma) = false) ->
  value_at m p t last vnext sigma = VNegInf.
Proof. exact no_admissible_choice_is_neginf. Qed.
Print Assumptions C01_no_admissible_choice_is_neginf.

Theorem C01_inadmissible_choices_are_irrelevant : forall m p t last vnext vnext' sigma,
  (forall gamma, In gamma (choice_set m) ->
     feasible m p (env_of_choice t sigma gamma) = true ->
     objective m p last vnext (env_of_choice t sigma gamma)
     = objective m p last vnext' (env_of_choice t sigma gamma)) ->
  value_at m p t last vnext sigma = value_at m p t last vnext' sigma.
Proof. exact inadmissible_choices_are_irrelevant. Qed.
Print Assumptions C01_inadmissible_choices_are_irrelevant.

Theorem C01_last_period_has_no_continuation : forall m p vnext e,
  objective m p true vnext e =
  match eval_fun (depth m) m p e "utility" with Some u => VFin u | None => VUndef end.
Proof. exact last_period_objective_is_utility. Qed.
Print Assumptions C01_last_period_has_no_continuation.

(* one table per period, each computed from the next one, the last from none *)
Theorem C01_backward_induction : forall m p j, j < n_periods m ->
  length (solve_spec m p) = n_periods m /\
  nth j (solve_spec m p) (scalar VUndef)
  = value_table m p j (Nat.eqb (S j) (n_periods m)) (nth (S j) (solve_spec m p) (scalar VUndef)).
Proof. intros m p j H. split; [apply solve_spec_length|now apply solve_spec_is_backward_induction]. Qed.
Print Assumptions C01_backward_induction.

Theorem C01_table_entry_is_value : forall m p t last vnext idx, in_bounds (state_shape m) idx ->
  get VUndef (value_table m p t last vnext) idx
  = vred (value_at m p t last (fun i => get VUndef vnext i) (state_env m idx)).
Proof. exact value_table_entry. Qed.
Print Assumptions C01_table_entry_is_value.

(* non-vacuity: a 2-period model with a constraint evaluates to defined values *)
Local Open Scope string_scope.
Definition demo_model : model :=
  mkModel 2 [("w", GLin 0 2 3)] [("c", GLin 0 2 3)]
    [mkUfun "utility" ["c"; "w"] (EAdd (EVar "c") (EMul (EVar "w") (EConst (1 # 2)))) false;
     mkUfun "next_w" ["w"; "c"] (ESub (EVar "w") (EVar "c")) false;
     mkUfun "budget_constraint" ["c"; "w"] (ELe (EVar "c") (EVar "w")) false].
Definition demo_params : params := mkParams (1 # 2) [] [].
Example C01_nonvacuous :
  map (fun a => map vred (data a)) (solve_spec demo_model demo_params)
  = [[VFin 0; VFin (3 # 2); VFin 3]; [VFin 0; VFin (3 # 2); VFin 3]].
Proof. vm_compute. reflexivity. Qed.

(* ---- about the regenerated driver lcm.solve_brute.solve (Gen/SolveBrute.v) ---------------------- *)
(* lcm's loop IS the backward recursion of the specification's solve_from: the array of period t is  *)
(* period t's emax calculator applied to period t's continuation values, which are computed from the *)
(* array of period t+1 -- and from None in the last period -- for arbitrary per-period components    *)
Theorem C01_driver_is_backward_induction :
  forall (T_params T_space T_indexers T_grids T_ccv T_emax T_arr T_ccvals : Type)
         (d_space : T_space) (d_indexers : T_indexers) (d_grids : T_grids) (d_ccv : T_ccv) (d_emax : T_emax)
         (scp : T_space -> T_ccv -> T_grids -> option T_arr -> T_indexers -> T_params -> T_ccvals)
         (emax : T_emax -> T_ccvals -> T_params -> T_arr)
         params spaces indexers grids ccvs emaxs d t,
  let sol := solve T_params T_space T_indexers T_grids T_ccv T_emax T_arr T_ccvals d_space d_indexers d_grids d_ccv d_emax
                   scp emax params spaces indexers grids ccvs emaxs in
  (t < List.length spaces)%nat ->
  nth t sol d = emax (nth t emaxs d_emax)
                     (scp (nth t spaces d_space) (nth t ccvs d_ccv) (nth t grids d_grids)
                          (if (S t =? List.length spaces)%nat then None else Some (nth (S t) sol d))
                          (nth t indexers d_indexers) params) params.
Proof. exact solve_is_backward_induction. Qed.
Print Assumptions C01_driver_is_backward_induction.

(* ---- glue (Gen/EntryPoint.v, regenerated from get_lcm_function) composed with the driver ------- *)
(* what get_lcm_function(model, "solve") returns satisfies, for arbitrary component constructors:   *)
(* V_t = emax_t( max over continuous choices of ccv_t( . , V_{t+1}) ) where every component of      *)
(* period t is built with period t and "is last" iff t = T-1, EXCEPT the space info and the state   *)
(* indexer, which are those of period t+1 (what V_{t+1} is looked up with) and empty in the last    *)
(* period; V_{t+1} is absent (None) in the last period.                                             *)
Theorem C01_lcm_solve_is_the_backward_recursion_of_its_components :
  forall (T_params T_choice_grids T_sc_space T_space_info T_state_indexer T_segments T_u_and_f T_compute_ccv
          T_compute_ccv_argmax T_calculator T_arr T_ccvals : Type)
         (choice_grids : T_choice_grids) (empty_space_infos : T_space_info) (empty_state_indexers : T_state_indexer)
         (d_space_infos : T_space_info) (d_choice_segments : T_segments)
         (create_state_choice_space : nat -> bool -> T_sc_space * T_space_info * T_state_indexer * T_segments)
         (get_utility_and_feasibility_function : T_space_info -> nat -> bool -> T_u_and_f)
         (create_ccv : T_u_and_f -> T_compute_ccv) (create_policy : T_u_and_f -> T_compute_ccv_argmax)
         (get_solve_discrete_problem : bool -> T_segments -> T_calculator)
         (d_space : T_sc_space) (d_indexers : T_state_indexer) (d_grids : T_choice_grids) (d_ccv : T_compute_ccv)
         (d_emax : T_calculator)
         (solve_continuous_problem : T_sc_space -> T_compute_ccv -> T_choice_grids -> option T_arr -> T_state_indexer -> T_params -> T_ccvals)
         (apply_emax : T_calculator -> T_ccvals -> T_params -> T_arr) (n : nat) (params : T_params) d t,
  let V := lcm_solve T_params T_choice_grids T_sc_space T_space_info T_state_indexer T_segments T_u_and_f T_compute_ccv
             T_compute_ccv_argmax T_calculator T_arr T_ccvals choice_grids empty_space_infos empty_state_indexers
             d_space_infos d_choice_segments create_state_choice_space get_utility_and_feasibility_function
             create_ccv create_policy get_solve_discrete_problem d_space d_indexers d_grids d_ccv d_emax
             solve_continuous_problem apply_emax n params in
  (t < n)%nat ->
  nth t V d =
  apply_emax
    (get_solve_discrete_problem (t =? n - 1)%nat (snd (create_state_choice_space t (t =? n - 1)%nat)))
    (solve_continuous_problem
       (fst (fst (fst (create_state_choice_space t (t =? n - 1)%nat))))
       (create_ccv
          (get_utility_and_feasibility_function
             (if (S t <? n)%nat then snd (fst (fst (create_state_choice_space (S t) (S t =? n - 1)%nat))) else empty_space_infos)
             t (t =? n - 1)%nat))
       choice_grids
       (if (S t =? n)%nat then None else Some (nth (S t) V d))
       (if (S t <? n)%nat then snd (fst (create_state_choice_space (S t) (S t =? n - 1)%nat)) else empty_state_indexers)
       params)
    params.
Proof. exact lcm_solve_recursion. Qed.
Print Assumptions C01_lcm_solve_is_the_backward_recursion_of_its_components.

(* the keyword arguments of the component constructors that are the same in every period *)
Theorem C01_glue_fixed_arguments :
  create_state_choice_space_fixed_args = ["model=_mod"; "jit_filter=False"]%string /\
  get_utility_and_feasibility_function_fixed_args = ["model=_mod"; "name_of_values_on_grid='vf_arr'"]%string /\
  create_compute_conditional_continuation_value_fixed_args = ["continuous_choice_variables=list(_choice_grids)"]%string /\
  create_compute_conditional_continuation_policy_fixed_args = ["continuous_choice_variables=list(_choice_grids)"]%string /\
  get_solve_discrete_problem_fixed_args
  = ["random_utility_shock_type=_mod.random_utility_shocks"; "variable_info=_mod.variable_info"]%string.
Proof. repeat split; reflexivity. Qed.
Print Assumptions C01_glue_fixed_arguments.

(* ---- bridge: the code's expectation formula and the specification's continuation value ---------- *)
From LCM Require Import Proofs.C11_Affine Proofs.C01_Bridge.
(* The sum that the regenerated Bellman operator computes (C11_code_one_discounting_step: over the    *)
(* node grid, value x product of the variables' weights) IS the specification's continuation value,    *)
(* and utility + beta * that sum IS the specification's objective -- provided the two hand-modelled     *)
(* components deliver what their own properties say: the weight arrays hold the transition rows the     *)
(* specification selects (C07/C03), and the product-mapped function representation holds the            *)
(* specification's reads of V_{t+1} at the nodes (C14).                                                 *)
Theorem C01_code_expectation_is_the_specifications_continuation :
  forall (m : model) (p : params) (e : env) (vnext : list nat -> val) (rows : list (list Q)) (ccvs : qarr) (ws : list qarr),
  omap (fun sg : string * grid => weight_row m p e (fst sg)) (stoch_states m) = Some rows ->
  (length ws = length rows /\
   forall i k, (i < length rows)%nat -> qget (nth i ws dflt_arr) [k] = nth k (nth i rows []) 0%Q) ->
  (forall idx, in_bounds (map (fun sg : string * grid => grid_size (snd sg)) (stoch_states m)) idx ->
     node_value m p vnext e (node_labels (stoch_states m) idx) = VFin (qget ccvs idx)) ->
  forall u, eval_fun (depth m) m p e "utility" = Some u ->
  exists v, objective m p false vnext e = VFin v /\
            (v == u + beta p *
                 C11_ModelFunctions.qsum
                   (map (fun idx => qget ccvs idx *
                                    qprod_list (map (fun i => qget (nth i ws dflt_arr) [nth i idx 0%nat]) (seq 0 (length rows))))
                        (indices (map (fun sg : string * grid => grid_size (snd sg)) (stoch_states m)))))%Q.
Proof. intros m p e vnext rows ccvs ws H1 H2 H3 u Hu. exact (spec_objective_from_code_sum m p e vnext rows H1 ccvs ws H2 H3 u Hu). Qed.
Print Assumptions C01_code_expectation_is_the_specifications_continuation.

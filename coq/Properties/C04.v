(* Properties/C04.v — stochastic draws: specified probabilities, never a zero-probability      *)
(* label, single-use keys.                                                                      *)
(* STATUS (partial): Model/RandomChoice.v models jax.random.choice as the inverse CDF of the    *)
(* cumulative sums at total*(1-u) and lcm's key handling as paths in the split tree.  Proved:   *)
(* label k is drawn exactly when total*(1-u) lies in (cum_{k-1}, cum_k] — an interval of        *)
(* length p_k, so under a uniform u the label has probability p_k/total —, a zero-probability    *)
(* label is never drawn, and the draw keys of different (period, variable, agent) triples are    *)
(* distinct paths (no key is used twice).  That threefry outputs behave as independent uniforms  *)
(* (frequencies, independence) is runtime and only tested (families frequencies, determinism).  *)
From Coq Require Import Lqa.
From LCM Require Import Base.Prelude Model.RandomChoice Proofs.C04_Choice.
Local Open Scope Q_scope.

Theorem C04_inverse_cdf_interval : forall p u,
  Forall (fun x => 0 <= x) p -> 0 < total p -> 0 <= u -> u < 1 ->
  let k := choice p u in
  (k < length p)%nat /\
  total (firstn k p) < total p * (1 - u) /\ total p * (1 - u) <= total (firstn (S k) p).
Proof. intros p u H1 H2 H3 H4 k. destruct (choice_spec p u H1 H2 H3 H4) as (A & _ & B). auto. Qed.
Print Assumptions C04_inverse_cdf_interval.

Theorem C04_zero_probability_never_drawn : forall p u,
  Forall (fun x => 0 <= x) p -> 0 < total p -> 0 <= u -> u < 1 -> 0 < nth (choice p u) p 0.
Proof. intros p u H1 H2 H3 H4. exact (proj1 (proj2 (choice_spec p u H1 H2 H3 H4))). Qed.
Print Assumptions C04_zero_probability_never_drawn.

Theorem C04_draw_keys_distinct : forall k0 n_ids t j i t' j' i',
  (j < n_ids)%nat -> (j' < n_ids)%nat ->
  draw_key k0 n_ids t j i = draw_key k0 n_ids t' j' i' -> t = t' /\ j = j' /\ i = i'.
Proof. exact draw_keys_injective. Qed.
Print Assumptions C04_draw_keys_distinct.

Example C04_nonvacuous :
  choice [1 # 4; 0; 3 # 4] (1 # 2) = 2%nat /\ choice [1 # 4; 0; 3 # 4] (7 # 8) = 0%nat /\
  draw_key [] 2 1 1 3 = [0; 2; 3]%nat.
Proof. vm_compute. repeat split. Qed.

(* ---- about the regenerated forward loop of lcm.simulate.simulate (Gen/Simulate.v) ---------------- *)
From LCM Require Import Model.RandomChoice Gen.Simulate Proofs.C04_SimulateLoop.
(* the draw keys handed to next_state in period t are those of the split tree (so that              *)
(* C04_draw_keys_distinct speaks about the code), and they depend on the seed and the number of        *)
(* stochastic variables only: not on params, states, choices or the solution                           *)
Theorem C04_code_draw_keys_are_the_split_tree : forall (E : sim_env) t T, (t < T)%nat ->
  sim_draw_keys E t = nth t (sim_keys (e_prng_key E (e_seed E)) (e_n_stochastic E) T) nil.
Proof. exact bundled_draw_keys. Qed.
Print Assumptions C04_code_draw_keys_are_the_split_tree.

Theorem C04_code_draw_keys_depend_on_the_seed_only : forall (E E' : sim_env) t,
  e_prng_key E (e_seed E) = e_prng_key E' (e_seed E') -> e_n_stochastic E = e_n_stochastic E' ->
  sim_draw_keys E t = sim_draw_keys E' t.
Proof. exact bundled_keys_depend_on_seed_only. Qed.
Print Assumptions C04_code_draw_keys_depend_on_the_seed_only.

(* ---- about the regenerated lcm.random_choice (Gen/RandomChoiceGen.v) ---------------------------- *)
From LCM Require Import Gen.RandomChoiceGen Proofs.C04_RandomChoiceGen.
(* one draw per agent; agent i's label is drawn with the i-th child of the variable's key, from the   *)
(* labels with the probabilities of the agent's OWN row, by the inverse-CDF rule above; it has          *)
(* positive probability in that row                                                                     *)
Theorem C04_code_each_agent_draws_from_its_own_row_with_its_own_key :
  forall (L : Type) (d_label : L) (uniform : key -> Q) (k : key) (probs : list (list Q)) (labels : list L),
  length (random_choice L d_label uniform k probs labels) = length probs /\
  forall i, (i < length probs)%nat ->
    nth i (random_choice L d_label uniform k probs labels) d_label
    = nth (choice (nth i probs nil) (uniform (k ++ i :: nil)%list)) labels d_label.
Proof.
  intros. split; [apply random_choice_length|intros i H; now apply random_choice_row].
Qed.
Print Assumptions C04_code_each_agent_draws_from_its_own_row_with_its_own_key.

Theorem C04_code_drawn_label_has_positive_probability :
  forall (L : Type) (d_label : L) (uniform : key -> Q) i (k : key) (probs : list (list Q)) (labels : list L),
  (i < length probs)%nat ->
  Forall (fun x => 0 <= x) (nth i probs nil) -> 0 < total (nth i probs nil) ->
  0 <= uniform (k ++ i :: nil)%list -> uniform (k ++ i :: nil)%list < 1 ->
  exists j, nth i (random_choice L d_label uniform k probs labels) d_label = nth j labels d_label /\
            (j < length (nth i probs nil))%nat /\ 0 < nth j (nth i probs nil) 0.
Proof. exact random_choice_support. Qed.
Print Assumptions C04_code_drawn_label_has_positive_probability.

(* Properties/C12.v — specifications are rejected up front or run to completion.                *)
(* STATUS (partial): proved — the validators decide exactly the documented rules: the model       *)
(* validator (hand model Model/UserModel.v, tied by family model_validation), the continuous grid  *)
(* validator (REGENERATED from grids.py), the discrete grid validator (hand model, C16) and the    *)
(* checks made when the functions are created (hand model).  "Every accepted specification can be   *)
(* solved and simulated without an internal error" is a statement about the whole runtime; it is     *)
(* decided by running lcm on every accepted generated shape (family accepted_models_run), with the   *)
(* shapes that are known to crash listed as known findings.                                          *)
From LCM Require Import Base.Prelude Base.PyVal Spec.Lang Spec.Bellman Spec.GridRules.
From LCM Require Import Gen.GridValidate Model.UserModel Model.Grids Model.ParamsTemplate.
From LCM Require Import Proofs.C12_Validation Proofs.C16_Validate Proofs.C16_Points.
Local Open Scope string_scope.

Theorem C12_model_validator_decides_the_rules : forall m,
  validate_model m = true <->
  well_typed_dict (r_choices m) /\ well_typed_dict (r_states m) /\ well_typed_dict (r_functions m) /\
  (1 <= r_n_periods m)%Z /\
  In "utility" (keys_of (r_functions m)) /\
  (forall s, In s (keys_of (r_states m)) -> In ("next_" ++ s) (keys_of (r_functions m))) /\
  (forall s, In s (keys_of (r_states m)) -> ~ In s (keys_of (r_choices m))).
Proof. exact validate_model_accepts_iff_rules_hold. Qed.
Print Assumptions C12_model_validator_decides_the_rules.

Theorem C12_grid_validator_decides_the_rules : forall start stop n_points positive_start,
  validate_continuous_grid start stop n_points positive_start
  = ROk (spec_accepts start stop n_points positive_start).
Proof. exact validate_is_spec. Qed.
Print Assumptions C12_grid_validator_decides_the_rules.

Theorem C12_discrete_grid_validator_decides_the_rules : forall is_dataclass values,
  validate_discrete_grid is_dataclass values = true
  <-> is_dataclass = true /\ values <> [] /\ codes_from 0 values.
Proof. exact validate_discrete_iff. Qed.
Print Assumptions C12_discrete_grid_validator_decides_the_rules.

(* the checks at function creation: stochastic transitions only on discrete states and depending
   only on discrete variables or the period; filters without parameters *)
Theorem C12_creation_checks : forall m,
  creation_checks m = true <->
  (forall f, In f (functions m) -> fstoch f = true ->
     is_discrete_state m (substring 5 (String.length (fname f) - 5) (fname f)) = true /\
     forall d, In d (fargs f) -> d = period_name \/ is_discrete_var m d = true) /\
  (forall f, In f (filters m) -> function_params m f = []).
Proof.
  intros m. unfold creation_checks. rewrite andb_true_iff, !forallb_forall. split.
  - intros [H1 H2]. split.
    + intros f Hf Hs. specialize (H1 f Hf). rewrite Hs in H1. apply andb_true_iff in H1.
      destruct H1 as [Ha Hb]. split; [exact Ha|]. intros d Hd.
      rewrite forallb_forall in Hb. specialize (Hb d Hd). apply orb_true_iff in Hb.
      destruct Hb as [Hb|Hb]; [left; now apply String.eqb_eq|right; exact Hb].
    + intros f Hf. specialize (H2 f Hf). destruct (function_params m f); [reflexivity|discriminate].
  - intros [H1 H2]. split.
    + intros f Hf. destruct (fstoch f) eqn:Hs; [|reflexivity]. destruct (H1 f Hf Hs) as [Ha Hb].
      rewrite Ha. simpl. apply forallb_forall. intros d Hd. apply orb_true_iff.
      destruct (Hb d Hd) as [->|Hv]; [left; apply String.eqb_refl|right; exact Hv].
    + intros f Hf. now rewrite (H2 f Hf).
Qed.
Print Assumptions C12_creation_checks.

Example C12_nonvacuous :
  validate_model (mkRaw 2 (Some [(KStr "utility", true); (KStr "next_w", true)]) (Some [(KStr "c", true)]) (Some [(KStr "w", true)])) = true /\
  validate_model (mkRaw 0 (Some [(KStr "utility", true); (KStr "next_w", true)]) (Some [(KStr "c", true)]) (Some [(KStr "w", true)])) = false /\
  validate_model (mkRaw 2 (Some [(KStr "utility", true)]) (Some [(KStr "w", true)]) (Some [(KStr "w", true)])) = false /\
  validate_model (mkRaw 2 None (Some [(KOther, true)]) (Some [(KStr "w", false)])) = false.
Proof. vm_compute. repeat split. Qed.

(* Properties/C11.v — the solution obeys the algebraic laws of finite-horizon dynamic programming. *)
(* STATUS (partial): proved — the algebraic facts the laws rest on: the masked maximum commutes     *)
(* with increasing affine maps (so replacing utility by a*utility+b, a > 0, maps every maximum      *)
(* affinely and keeps the maximisers), an expectation with weights summing to one is                *)
(* affine-equivariant (the hypothesis 'rows of the transition arrays sum to one' is forced by the    *)
(* proof), with beta = 0 the objective is the utility.  The full laws for the value tables           *)
(* (affine law with the geometric sum, horizon invariance, degenerate transitions) are stated as     *)
(* C11_*_full_statement and are checked on lcm itself by the metamorphic families on every run,      *)
(* including grids far larger than the specification is asked to enumerate.                          *)
From Coq Require Import Lqa.
From LCM Require Import Base.Prelude Base.Arr Spec.Lang Spec.Bellman.
From LCM Require Import Proofs.Spec_Algebra Proofs.Spec_Restrictions.
Local Open Scope Q_scope.

Theorem C11_max_commutes_with_increasing_affine_maps : forall a b (l : list val),
  0 < a -> veq (vaff a b (vmaxl l)) (vmaxl (map (vaff a b) l)).
Proof. exact vmaxl_affine. Qed.
Print Assumptions C11_max_commutes_with_increasing_affine_maps.

Theorem C11_expectation_is_affine_equivariant : forall a b (ws vs : list Q),
  fold_right Qplus 0 ws == 1 -> length ws = length vs ->
  fold_right Qplus 0 (map (fun wv => fst wv * (a * snd wv + b)) (combine ws vs))
  == a * fold_right Qplus 0 (map (fun wv => fst wv * snd wv) (combine ws vs)) + b.
Proof. exact weighted_sum_affine. Qed.
Print Assumptions C11_expectation_is_affine_equivariant.

Theorem C11_beta_zero_objective_is_utility : forall m p vnext e u c,
  beta p == 0 -> eval_fun (depth m) m p e "utility" = Some u -> continuation m p vnext e = VFin c ->
  veq (objective m p false vnext e) (VFin u).
Proof. exact beta_zero_objective. Qed.
Print Assumptions C11_beta_zero_objective_is_utility.

(* geometric sum of the remaining periods *)
Fixpoint geom (beta : Q) (k : nat) : Q := match k with O => 0 | S k' => 1 + beta * geom beta k' end.

(* the affine law for whole solutions: stated, checked by the runs, not proved here *)
Definition C11_affine_law_full_statement : Prop :=
  forall (m m' : model) (p : params) (a b : Q), 0 < a ->
    (* m' is m with utility replaced by a*utility+b; rows of all transition arrays sum to one *)
    forall t idx, (t < n_periods m)%nat -> in_bounds (state_shape m) idx ->
      veq (get VUndef (nth t (solve_spec m' p) (scalar VUndef)) idx)
          (vaff a (b * geom (beta p) (n_periods m - t)) (get VUndef (nth t (solve_spec m p) (scalar VUndef)) idx)).

Example C11_nonvacuous :
  veq (vaff 2 3 (vmaxl [VFin 1; VNegInf; VFin 5])) (vmaxl (map (vaff 2 3) [VFin 1; VNegInf; VFin 5])) /\
  geom (1 # 2) 3 == 7 # 4.
Proof. split; [apply vmaxl_affine; reflexivity|vm_compute; reflexivity]. Qed.

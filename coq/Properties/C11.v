(* Properties/C11.v — the solution obeys the algebraic laws of finite-horizon dynamic programming. *)
(* STATUS: proved for the specification — the affine law for whole solutions (C11_affine_law:     *)
(* replacing utility by a*utility+b, a > 0, maps the value at every period and stored state to      *)
(* a*V + b*(1+beta+...+beta^(T-1-t)); the hypothesis 'rows of the transition arrays sum to one' is   *)
(* forced by the proof), its one-period form for arbitrary continuation tables, the algebraic       *)
(* facts underneath (maximum commutes with increasing affine maps, expectations are                 *)
(* affine-equivariant), the beta = 0 law for values, and horizon invariance (no function reads the  *)
(* period: the T-period solution is the tail of the (T+1)-period solution).  The degenerate-rows     *)
(* law is proved for one expectation (partial) and, like all the laws, checked on lcm itself by the  *)
(* metamorphic families on every run, including grids far larger than the specification is asked to  *)
(* enumerate; lcm is tied to the specification by C01's families.                                    *)
From Coq Require Import Lqa.
From LCM Require Import Base.Prelude Base.Arr Spec.Lang Spec.Bellman.
From LCM Require Import Proofs.Spec_Algebra Proofs.Spec_Restrictions Proofs.C11_Affine Proofs.C11_Horizon.
Local Open Scope Q_scope.

Theorem C11_max_commutes_with_increasing_affine_maps : forall a b (l : list val),
  0 < a -> veq (vaff a b (vmaxl l)) (vmaxl (map (vaff a b) l)).
Proof. exact vmaxl_affine. Qed.
Print Assumptions C11_max_commutes_with_increasing_affine_maps.

Theorem C11_expectation_is_affine_equivariant : forall a b (ws vs : list Q),
  fold_right Qplus 0 ws == 1 -> length ws = length vs ->
  fold_right Qplus 0 (map (fun wv => fst wv * (a * snd wv + b)) (combine ws vs))
  == a * fold_right Qplus 0 (map (fun wv => fst wv * snd wv) (combine ws vs)) + b.
Proof. exact weighted_sum_affine. Qed.
Print Assumptions C11_expectation_is_affine_equivariant.

Theorem C11_beta_zero_objective_is_utility : forall m p vnext e u c,
  beta p == 0 -> eval_fun (depth m) m p e "utility" = Some u -> continuation m p vnext e = VFin c ->
  veq (objective m p false vnext e) (VFin u).
Proof. exact beta_zero_objective. Qed.
Print Assumptions C11_beta_zero_objective_is_utility.

(* The affine law for whole solutions of the specification.  m' is m with the utility body u      *)
(* replaced by a*u+b (scale_model); no other function reads utility; every row of a transition     *)
(* array that the model reads sums to one.  Then at every period t and every stored state the       *)
(* value of m' is a*V + b*(1+beta+...+beta^(T-1-t)), undefined and -inf entries staying what they   *)
(* are (geom beta k = 1+beta+...+beta^(k-1), defined in Proofs/C11_Affine.v).                       *)
Theorem C11_affine_law : forall (a b : Q) (m : model) (p : params),
  0 < a ->
  (forall f, In f (functions m) -> ~ In "utility"%string (fargs f)) ->
  (forall e s g row, In (s, g) (stoch_states m) -> weight_row m p e s = Some row ->
     qsum (map (fun k => nth k row 0) (seq 0 (grid_size g))) == 1) ->
  forall t idx, (t < n_periods m)%nat ->
    veq (get VUndef (nth t (solve_spec (scale_model a b m) p) (scalar VUndef)) idx)
        (vaff a (b * geom (beta p) (n_periods m - t)) (get VUndef (nth t (solve_spec m p) (scalar VUndef)) idx)).
Proof. exact affine_law. Qed.
Print Assumptions C11_affine_law.

(* one step of the law, for any continuation tables related by the affine map of the next period *)
Theorem C11_affine_law_one_period : forall (a b : Q) (m : model) (p : params),
  0 < a ->
  (forall f, In f (functions m) -> ~ In "utility"%string (fargs f)) ->
  (forall e s g row, In (s, g) (stoch_states m) -> weight_row m p e s = Some row ->
     qsum (map (fun k => nth k row 0) (seq 0 (grid_size g))) == 1) ->
  forall t last k vnext vnext' sigma,
    (last = true -> k = 1%nat) ->
    (last = false -> exists k', k = S k' /\ forall idx, veq (vnext' idx) (vaff a (b * geom (beta p) k') (vnext idx))) ->
    veq (value_at (scale_model a b m) p t last vnext' sigma)
        (vaff a (b * geom (beta p) k) (value_at m p t last vnext sigma)).
Proof. exact value_at_affine. Qed.
Print Assumptions C11_affine_law_one_period.

(* a model with a stochastic state that meets the hypotheses, and the law computed on it *)
Local Open Scope string_scope.
Definition demo_model : model :=
  mkModel 3 [("h", GDisc 2); ("w", GLin 0 2 3)] [("c", GLin 0 2 3)]
    [mkUfun "utility" ["c"; "w"; "h"] (EAdd (EVar "c") (EMul (EVar "w") (EVar "h"))) false;
     mkUfun "next_w" ["w"; "c"] (ESub (EVar "w") (EVar "c")) false;
     mkUfun "next_h" ["h"] (EConst 0) true;
     mkUfun "budget_constraint" ["c"; "w"] (ELe (EVar "c") (EVar "w")) false].
Definition demo_params : params :=
  mkParams (1 # 2) [] [("h", mkArr [2; 2]%nat [1 # 4; 3 # 4; 1 # 2; 1 # 2])].
Example C11_affine_law_nonvacuous :
  (forall f, In f (functions demo_model) -> ~ In "utility" (fargs f)) /\
  map (fun tab => map vred (data tab)) (solve_spec (scale_model 2 3 demo_model) demo_params)
  = map (fun tk => map (fun v => vred (vaff 2 (3 * geom (1 # 2) (snd tk)) v)) (data (fst tk)))
        (combine (solve_spec demo_model demo_params) [3; 2; 1]%nat) /\
  map (fun tab => map vred (data tab)) (solve_spec demo_model demo_params) <> [] /\
  Forall (fun tab => Forall (fun v => exists q, v = VFin q) (data tab)) (solve_spec demo_model demo_params).
Proof.
  split; [|split; [vm_compute; reflexivity|split; [vm_compute; discriminate|]]].
  - intros f Hf. simpl in Hf. repeat (destruct Hf as [<-|Hf]; [simpl; intuition discriminate|]). contradiction.
  - vm_compute. repeat constructor; eexists; reflexivity.
Qed.

(* beta = 0: wherever the value is defined it is the value of the one-period problem of that period *)
Theorem C11_beta_zero_values_are_one_period_values : forall m p t vnext sigma,
  beta p == 0 -> value_at m p t false vnext sigma <> VUndef ->
  veq (value_at m p t false vnext sigma) (value_at m p t true vnext sigma).
Proof. exact beta_zero_value. Qed.
Print Assumptions C11_beta_zero_values_are_one_period_values.

(* no function reads the period: the solution with T periods is the tail of that with T+1 periods, *)
(* and the values k periods before the end agree for any two horizons                               *)
Theorem C11_horizon_invariance : forall m p T,
  (forall f, In f (functions m) -> ~ In period_name (fargs f)) -> (1 <= T)%nat ->
  tl (solve_spec (with_periods (S T) m) p) = solve_spec (with_periods T m) p.
Proof. exact horizon_invariance. Qed.
Print Assumptions C11_horizon_invariance.

Theorem C11_horizon_invariance_any_two_horizons : forall m p T T' k,
  (forall f, In f (functions m) -> ~ In period_name (fargs f)) -> (k < T)%nat -> (k < T')%nat ->
  nth (T - 1 - k) (solve_spec (with_periods T m) p) (scalar VUndef)
  = nth (T' - 1 - k) (solve_spec (with_periods T' m) p) (scalar VUndef).
Proof. exact horizon_invariance_nth. Qed.
Print Assumptions C11_horizon_invariance_any_two_horizons.

(* degenerate rows (partial: stated for the expectation, not for whole solutions): with all weights *)
(* zero except one weight 1, a defined expectation is the value read at that node                   *)
Theorem C11_degenerate_expectation_partial : forall rd pre l0 post c,
  Forall (fun nw : env * Q => snd nw == 0) pre -> Forall (fun nw : env * Q => snd nw == 0) post ->
  expect rd (pre ++ (l0, 1) :: post) = VFin c -> exists v, rd l0 = VFin v /\ c == v.
Proof. exact expect_degenerate. Qed.
Print Assumptions C11_degenerate_expectation_partial.

Example C11_horizon_nonvacuous :
  (forall f, In f (functions demo_model) -> ~ In period_name (fargs f)) /\
  tl (solve_spec (with_periods 3 demo_model) demo_params) = solve_spec (with_periods 2 demo_model) demo_params /\
  solve_spec (with_periods 2 demo_model) demo_params <> [].
Proof.
  split; [|split; [vm_compute; reflexivity|vm_compute; discriminate]].
  intros f Hf. simpl in Hf. repeat (destruct Hf as [<-|Hf]; [simpl; intuition discriminate|]). contradiction.
Qed.

Example C11_nonvacuous :
  veq (vaff 2 3 (vmaxl [VFin 1; VNegInf; VFin 5])) (vmaxl (map (vaff 2 3) [VFin 1; VNegInf; VFin 5])) /\
  geom (1 # 2) 3 == 7 # 4.
Proof. split; [apply vmaxl_affine; reflexivity|vm_compute; reflexivity]. Qed.

(* Properties/C11.v — the solution obeys the algebraic laws of finite-horizon dynamic programming. *)
(* STATUS: proved for the specification — the affine law for whole solutions (C11_affine_law:     *)
(* replacing utility by a*utility+b, a > 0, maps the value at every period and stored state to      *)
(* a*V + b*(1+beta+...+beta^(T-1-t)); the hypothesis 'rows of the transition arrays sum to one' is   *)
(* forced by the proof), its one-period form for arbitrary continuation tables, the algebraic       *)
(* facts underneath (maximum commutes with increasing affine maps, expectations are                 *)
(* affine-equivariant), the beta = 0 law for values, and horizon invariance (no function reads the  *)
(* period: the T-period solution is the tail of the (T+1)-period solution).  The degenerate-rows     *)
(* law is proved for one expectation (partial) and, like all the laws, checked on lcm itself by the  *)
(* metamorphic families on every run, including grids far larger than the specification is asked to  *)
(* enumerate; lcm is tied to the specification by C01's families.                                    *)
From Coq Require Import Lqa.
From LCM Require Import Base.ArrOps Model.Dispatchers Model.QOps Gen.ModelFunctions Proofs.C11_ModelFunctions.
From LCM Require Import Base.Prelude Base.Arr Spec.Lang Spec.Bellman.
From LCM Require Import Proofs.Spec_Algebra Proofs.Spec_Restrictions Proofs.C11_Affine Proofs.C11_Horizon.
Local Open Scope Q_scope.

Theorem C11_max_commutes_with_increasing_affine_maps : forall a b (l : list val),
  0 < a -> veq (vaff a b (vmaxl l)) (vmaxl (map (vaff a b) l)).
Proof. exact vmaxl_affine. Qed.
Print Assumptions C11_max_commutes_with_increasing_affine_maps.

Theorem C11_expectation_is_affine_equivariant : forall a b (ws vs : list Q),
  fold_right Qplus 0 ws == 1 -> length ws = length vs ->
  fold_right Qplus 0 (map (fun wv => fst wv * (a * snd wv + b)) (combine ws vs))
  == a * fold_right Qplus 0 (map (fun wv => fst wv * snd wv) (combine ws vs)) + b.
Proof. exact weighted_sum_affine. Qed.
Print Assumptions C11_expectation_is_affine_equivariant.

Theorem C11_beta_zero_objective_is_utility : forall m p vnext e u c,
  beta p == 0 -> eval_fun (depth m) m p e "utility" = Some u -> continuation m p vnext e = VFin c ->
  veq (objective m p false vnext e) (VFin u).
Proof. exact beta_zero_objective. Qed.
Print Assumptions C11_beta_zero_objective_is_utility.

(* The affine law for whole solutions of the specification.  m' is m with the utility body u      *)
(* replaced by a*u+b (scale_model); no other function reads utility; every row of a transition     *)
(* array that the model reads sums to one.  Then at every period t and every stored state the       *)
(* value of m' is a*V + b*(1+beta+...+beta^(T-1-t)), undefined and -inf entries staying what they   *)
(* are (geom beta k = 1+beta+...+beta^(k-1), defined in Proofs/C11_Affine.v).                       *)
Theorem C11_affine_law : forall (a b : Q) (m : model) (p : params),
  0 < a ->
  (forall f, In f (functions m) -> ~ In "utility"%string (fargs f)) ->
  (forall e s g row, In (s, g) (stoch_states m) -> weight_row m p e s = Some row ->
     qsum (map (fun k => nth k row 0) (seq 0 (grid_size g))) == 1) ->
  forall t idx, (t < n_periods m)%nat ->
    veq (get VUndef (nth t (solve_spec (scale_model a b m) p) (scalar VUndef)) idx)
        (vaff a (b * geom (beta p) (n_periods m - t)) (get VUndef (nth t (solve_spec m p) (scalar VUndef)) idx)).
Proof. exact affine_law. Qed.
Print Assumptions C11_affine_law.

(* one step of the law, for any continuation tables related by the affine map of the next period *)
Theorem C11_affine_law_one_period : forall (a b : Q) (m : model) (p : params),
  0 < a ->
  (forall f, In f (functions m) -> ~ In "utility"%string (fargs f)) ->
  (forall e s g row, In (s, g) (stoch_states m) -> weight_row m p e s = Some row ->
     qsum (map (fun k => nth k row 0) (seq 0 (grid_size g))) == 1) ->
  forall t last k vnext vnext' sigma,
    (last = true -> k = 1%nat) ->
    (last = false -> exists k', k = S k' /\ forall idx, veq (vnext' idx) (vaff a (b * geom (beta p) k') (vnext idx))) ->
    veq (value_at (scale_model a b m) p t last vnext' sigma)
        (vaff a (b * geom (beta p) k) (value_at m p t last vnext sigma)).
Proof. exact value_at_affine. Qed.
Print Assumptions C11_affine_law_one_period.

(* a model with a stochastic state that meets the hypotheses, and the law computed on it *)
Local Open Scope string_scope.
Definition demo_model : model :=
  mkModel 3 [("h", GDisc 2); ("w", GLin 0 2 3)] [("c", GLin 0 2 3)]
    [mkUfun "utility" ["c"; "w"; "h"] (EAdd (EVar "c") (EMul (EVar "w") (EVar "h"))) false;
     mkUfun "next_w" ["w"; "c"] (ESub (EVar "w") (EVar "c")) false;
     mkUfun "next_h" ["h"] (EConst 0) true;
     mkUfun "budget_constraint" ["c"; "w"] (ELe (EVar "c") (EVar "w")) false].
Definition demo_params : params :=
  mkParams (1 # 2) [] [("h", mkArr [2; 2]%nat [1 # 4; 3 # 4; 1 # 2; 1 # 2])].
Example C11_affine_law_nonvacuous :
  (forall f, In f (functions demo_model) -> ~ In "utility" (fargs f)) /\
  map (fun tab => map vred (data tab)) (solve_spec (scale_model 2 3 demo_model) demo_params)
  = map (fun tk => map (fun v => vred (vaff 2 (3 * geom (1 # 2) (snd tk)) v)) (data (fst tk)))
        (combine (solve_spec demo_model demo_params) [3; 2; 1]%nat) /\
  map (fun tab => map vred (data tab)) (solve_spec demo_model demo_params) <> [] /\
  Forall (fun tab => Forall (fun v => exists q, v = VFin q) (data tab)) (solve_spec demo_model demo_params).
Proof.
  split; [|split; [vm_compute; reflexivity|split; [vm_compute; discriminate|]]].
  - intros f Hf. simpl in Hf. repeat (destruct Hf as [<-|Hf]; [simpl; intuition discriminate|]). contradiction.
  - vm_compute. repeat constructor; eexists; reflexivity.
Qed.

(* beta = 0: wherever the value is defined it is the value of the one-period problem of that period *)
Theorem C11_beta_zero_values_are_one_period_values : forall m p t vnext sigma,
  beta p == 0 -> value_at m p t false vnext sigma <> VUndef ->
  veq (value_at m p t false vnext sigma) (value_at m p t true vnext sigma).
Proof. exact beta_zero_value. Qed.
Print Assumptions C11_beta_zero_values_are_one_period_values.

(* no function reads the period: the solution with T periods is the tail of that with T+1 periods, *)
(* and the values k periods before the end agree for any two horizons                               *)
Theorem C11_horizon_invariance : forall m p T,
  (forall f, In f (functions m) -> ~ In period_name (fargs f)) -> (1 <= T)%nat ->
  tl (solve_spec (with_periods (S T) m) p) = solve_spec (with_periods T m) p.
Proof. exact horizon_invariance. Qed.
Print Assumptions C11_horizon_invariance.

Theorem C11_horizon_invariance_any_two_horizons : forall m p T T' k,
  (forall f, In f (functions m) -> ~ In period_name (fargs f)) -> (k < T)%nat -> (k < T')%nat ->
  nth (T - 1 - k) (solve_spec (with_periods T m) p) (scalar VUndef)
  = nth (T' - 1 - k) (solve_spec (with_periods T' m) p) (scalar VUndef).
Proof. exact horizon_invariance_nth. Qed.
Print Assumptions C11_horizon_invariance_any_two_horizons.

(* degenerate rows (partial: stated for the expectation, not for whole solutions): with all weights *)
(* zero except one weight 1, a defined expectation is the value read at that node                   *)
Theorem C11_degenerate_expectation_partial : forall rd pre l0 post c,
  Forall (fun nw : env * Q => snd nw == 0) pre -> Forall (fun nw : env * Q => snd nw == 0) post ->
  expect rd (pre ++ (l0, 1) :: post) = VFin c -> exists v, rd l0 = VFin v /\ c == v.
Proof. exact expect_degenerate. Qed.
Print Assumptions C11_degenerate_expectation_partial.

Example C11_horizon_nonvacuous :
  (forall f, In f (functions demo_model) -> ~ In period_name (fargs f)) /\
  tl (solve_spec (with_periods 3 demo_model) demo_params) = solve_spec (with_periods 2 demo_model) demo_params /\
  solve_spec (with_periods 2 demo_model) demo_params <> [].
Proof.
  split; [|split; [vm_compute; reflexivity|vm_compute; discriminate]].
  intros f Hf. simpl in Hf. repeat (destruct Hf as [<-|Hf]; [simpl; intuition discriminate|]). contradiction.
Qed.

(* ---- about the regenerated Bellman operator of the code (Gen/ModelFunctions.v) ------------------ *)
(* multiply_weights: at every node of the grid of stochastic next values the weight is the product   *)
(* of the variables' own weights (expectation = weighted sum over stochastic nodes)                  *)
Theorem C11_code_node_weight_is_product_of_the_variables_weights :
  forall (svars : list string) (weights : list (string * qarr)),
  NoDup (multiply_weights_arg_names svars) ->
  (forall w, In w (map (lookup weights) (multiply_weights_arg_names svars)) -> tl (shape w) = []) ->
  forall idx, in_bounds (node_shape svars weights) idx ->
  qget (get_multiply_weights svars weights) idx
  = qprod_list (map (fun i => qget (nth i (map (lookup weights) (multiply_weights_arg_names svars)) dflt_arr)
                                   [nth i idx 0%nat])
                    (seq 0 (length (multiply_weights_arg_names svars)))).
Proof. intros svars weights Hnd. exact (node_weights_entry svars Hnd weights). Qed.
Print Assumptions C11_code_node_weight_is_product_of_the_variables_weights.

(* u_and_f of a period that is not the last: ONE discounting step on the weighted sum over all nodes *)
Theorem C11_code_one_discounting_step :
  forall (P F : Type) (beta_of : P -> Q)
         (current_u_and_f : list (string * qarr) -> nat -> P -> Q * F)
         (next_state next_weights : list (string * qarr) -> nat -> P -> list (string * qarr))
         (scalar_value_function : func)
         (state_variables choice_variables stochastic_variables value_function_arguments : list string)
         (period : nat) (kwargs : list (string * qarr)) (params : P),
  let sc := (select state_variables kwargs ++ select choice_variables kwargs)%list in
  let weights := next_weights sc period params in
  let names := multiply_weights_arg_names stochastic_variables in
  let ws := map (lookup weights) names in
  let ccvs := productmap scalar_value_function (map (fun var => ("next_" ++ var)%string) stochastic_variables)
                (next_state sc period params ++ select value_function_arguments kwargs)%list in
  NoDup names -> (forall w, In w ws -> tl (shape w) = []) ->
  wf ccvs /\ shape ccvs = node_shape stochastic_variables weights ->
  u_and_f P F beta_of current_u_and_f next_state next_weights scalar_value_function
          state_variables choice_variables stochastic_variables value_function_arguments period kwargs params
  = (fst (current_u_and_f sc period params)
     + beta_of params *
       C11_ModelFunctions.qsum
         (map (fun idx => qget ccvs idx *
                          qprod_list (map (fun i => qget (nth i ws dflt_arr) [nth i idx 0%nat]) (seq 0 (length names))))
              (indices (node_shape stochastic_variables weights))),
     snd (current_u_and_f sc period params)).
Proof. exact u_and_f_is_one_bellman_step. Qed.
Print Assumptions C11_code_one_discounting_step.

Example C11_nonvacuous :
  veq (vaff 2 3 (vmaxl [VFin 1; VNegInf; VFin 5])) (vmaxl (map (vaff 2 3) [VFin 1; VNegInf; VFin 5])) /\
  geom (1 # 2) 3 == 7 # 4.
Proof. split; [apply vmaxl_affine; reflexivity|vm_compute; reflexivity]. Qed.

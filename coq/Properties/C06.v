(* Properties/C06.v — solve and simulate agree.                                               *)
(* STATUS (partial): on the specification, the value the row oracle assigns to an on-grid      *)
(* state in period t (what simulate must report, C02) is the entry of period t's table at      *)
(* that state (what solve must return, C01); both sides of lcm are tied to these by the runs.  *)
(* "solve_and_simulate = simulate after solve" is a statement about two code paths of lcm and  *)
(* is checked by the family solve_and_simulate_vs_two_steps.                                   *)
From LCM Require Import Base.Prelude Base.Arr Spec.Lang Spec.Bellman Spec.Layout.
From LCM Require Import Proofs.Spec_Bellman.
Local Open Scope nat_scope.

Theorem C06_on_grid_value_is_table_entry : forall m p t idx,
  t < n_periods m -> in_bounds (state_shape m) idx ->
  get VUndef (nth t (solve_spec m p) (scalar VUndef)) idx
  = vred (value_at m p t (Nat.eqb (S t) (n_periods m))
            (fun i => get VUndef (nth (S t) (solve_spec m p) (scalar VUndef)) i) (state_env m idx)).
Proof.
  intros m p t idx Ht Hb. rewrite solve_spec_is_backward_induction by exact Ht.
  now apply value_table_entry.
Qed.
Print Assumptions C06_on_grid_value_is_table_entry.

Theorem C06_layout_entry : forall m p t tab idx, in_bounds (expected_shape m p t) idx ->
  get VUndef (to_layout m p t tab) idx
  = get VUndef tab (map (fun sg => ilook (state_at m p t idx) (fst sg)) (states m)).
Proof. exact layout_entry. Qed.
Print Assumptions C06_layout_entry.

(* ---- glue (Gen/EntryPoint.v, regenerated from get_lcm_function) -------------------------------- *)
(* simulate is handed the very lists of next-period state indexers and of continuous choice grids    *)
(* that solve was handed, and in every period its policy function is built from the SAME             *)
(* utility-and-feasibility function (same next-period space info, same period, same "is last") as    *)
(* the function whose maximum solve stored                                                           *)
From LCM Require Import Gen.EntryPoint Proofs.C01_EntryPoint.
Theorem C06_simulate_is_built_from_what_solve_used :
  forall (T_choice_grids T_sc_space T_space_info T_state_indexer T_segments T_u_and_f T_compute_ccv
          T_compute_ccv_argmax T_calculator : Type)
         (choice_grids : T_choice_grids) (empty_space_infos : T_space_info) (empty_state_indexers : T_state_indexer)
         (d_space_infos : T_space_info) (d_choice_segments : T_segments)
         (create_state_choice_space : nat -> bool -> T_sc_space * T_space_info * T_state_indexer * T_segments)
         (get_u_and_f : T_space_info -> nat -> bool -> T_u_and_f)
         (create_ccv : T_u_and_f -> T_compute_ccv) (create_policy : T_u_and_f -> T_compute_ccv_argmax)
         (get_solve_discrete_problem : bool -> T_segments -> T_calculator) (n : nat),
  let B := build T_choice_grids T_sc_space T_space_info T_state_indexer T_segments T_u_and_f T_compute_ccv
             T_compute_ccv_argmax T_calculator choice_grids empty_space_infos empty_state_indexers d_space_infos
             d_choice_segments create_state_choice_space get_u_and_f create_ccv create_policy
             get_solve_discrete_problem n in
  fst (fst (snd B)) = snd (fst (fst (fst (fst B)))) /\
  snd (fst (snd B)) = snd (fst (fst (fst B))) /\
  forall t d d', (t < n)%nat ->
    exists uf, nth t (snd (fst (fst B))) d = create_ccv uf /\ nth t (snd (snd B)) d' = create_policy uf.
Proof. exact simulate_built_from_what_solve_used. Qed.
Print Assumptions C06_simulate_is_built_from_what_solve_used.

(* ---- about the regenerated maximum over the continuous choices (Gen/CCV.v) ----------------------- *)
From LCM Require Import Base.ArrOps Gen.Argmax Gen.CCV Proofs.ArrLemmas2 Proofs.C06_CCV.
(* for the same utility and feasibility arrays (which the glue theorem above provides), the maximum   *)
(* that simulate recomputes together with its position is the maximum that solve stored                *)
Theorem C06_code_simulated_maximum_is_the_stored_maximum : forall (u : arr val) (f : arr bool),
  wf u -> wf f -> Forall defined (data u) -> shape f = shape u ->
  get VUndef (snd (compute_ccv_policy u f)) [] = compute_ccv u f.
Proof. exact policy_maximum_is_the_stored_maximum. Qed.
Print Assumptions C06_code_simulated_maximum_is_the_stored_maximum.

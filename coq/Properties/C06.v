(* Properties/C06.v — solve and simulate agree.                                               *)
(* STATUS (partial): on the specification, the value the row oracle assigns to an on-grid      *)
(* state in period t (what simulate must report, C02) is the entry of period t's table at      *)
(* that state (what solve must return, C01); both sides of lcm are tied to these by the runs.  *)
(* "solve_and_simulate = simulate after solve" is a statement about two code paths of lcm and  *)
(* is checked by the family solve_and_simulate_vs_two_steps.                                   *)
From LCM Require Import Base.Prelude Base.Arr Spec.Lang Spec.Bellman Spec.Layout.
From LCM Require Import Proofs.Spec_Bellman.
Local Open Scope nat_scope.

Theorem C06_on_grid_value_is_table_entry : forall m p t idx,
  t < n_periods m -> in_bounds (state_shape m) idx ->
  get VUndef (nth t (solve_spec m p) (scalar VUndef)) idx
  = vred (value_at m p t (Nat.eqb (S t) (n_periods m))
            (fun i => get VUndef (nth (S t) (solve_spec m p) (scalar VUndef)) i) (state_env m idx)).
Proof.
  intros m p t idx Ht Hb. rewrite solve_spec_is_backward_induction by exact Ht.
  now apply value_table_entry.
Qed.
Print Assumptions C06_on_grid_value_is_table_entry.

Theorem C06_layout_entry : forall m p t tab idx, in_bounds (expected_shape m p t) idx ->
  get VUndef (to_layout m p t tab) idx
  = get VUndef tab (map (fun sg => ilook (state_at m p t idx) (fst sg)) (states m)).
Proof. exact layout_entry. Qed.
Print Assumptions C06_layout_entry.

(* Properties/C17.v — the state-choice space contains exactly the filter-passing combinations. *)
(* Model/StateSpace.v is the mechanistic hand model of create_combination_grid /                *)
(* create_indexers_and_segments (tied by family indexers_and_segments); [mask] is the filter     *)
(* mask over the restricted variables in canonical order (restricted states, then restricted     *)
(* choices), the first n axes being the restricted states.                                       *)
From Coq Require Import Sorted.
From LCM Require Import Base.Prelude Base.Arr Base.ArrOps Model.StateSpace Proofs.C17_StateSpace.
From LCM Require Import Spec.Lang Spec.Bellman Spec.Layout Proofs.Refine_StateSpace.
Local Open Scope nat_scope.

(* exactly the passing combinations, in row-major order, without duplicates *)
Theorem C17_combinations_exact : forall mask idx,
  In idx (true_positions mask) <-> in_bounds (shape mask) idx /\ get false mask idx = true.
Proof. exact combinations_are_exactly_the_passing_ones. Qed.
Print Assumptions C17_combinations_exact.

Theorem C17_combinations_row_major_no_duplicates : forall mask,
  true_positions mask = filter (fun idx => get false mask idx) (indices (shape mask)) /\
  NoDup (true_positions mask).
Proof. intros mask. split; [reflexivity|apply combinations_no_duplicates]. Qed.
Print Assumptions C17_combinations_row_major_no_duplicates.

(* grouped by the restricted-state part: states in row-major order, those without a passing
   choice contribute nothing *)
Theorem C17_combinations_grouped_by_state : forall mask n,
  true_positions mask
  = flat_map (fun si => map (app si) (passing mask n si)) (feasible_states mask n).
Proof. exact combinations_grouped_by_state. Qed.
Print Assumptions C17_combinations_grouped_by_state.

(* the segment id of every stored combination is the rank of its state part among the states
   with a passing choice; their number is num_segments; ids are sorted *)
Theorem C17_segments : forall mask n,
  let r := create_indexers_and_segments mask n in
  map snd (tagged mask n 0 (feasible_states mask n)) = true_positions mask /\
  map fst (tagged mask n 0 (feasible_states mask n)) = segment_ids_r r /\
  num_segments_r r = length (feasible_states mask n) /\
  Sorted le (segment_ids_r r).
Proof.
  intros mask n r. destruct (segments_are_the_ranks_of_the_state_parts mask n) as (A & B & C).
  repeat split; auto. apply segment_ids_sorted.
Qed.
Print Assumptions C17_segments.

Theorem C17_tag_is_rank_of_state_part : forall mask n k idx,
  In (k, idx) (tagged mask n 0 (feasible_states mask n)) ->
  exists si ci, idx = si ++ ci /\ In ci (passing mask n si) /\
                nth k (feasible_states mask n) [] = si /\ k < length (feasible_states mask n).
Proof.
  intros mask n k idx H. destruct (tagged_in mask n _ _ _ _ H) as (si & ci & E & Hc & _ & Hn & Hl).
  rewrite Nat.sub_0_r in Hn, Hl. exists si, ci. repeat split; assumption.
Qed.
Print Assumptions C17_tag_is_rank_of_state_part.

(* the state indexer: rank among the states with a passing choice, -1 for all others *)
Theorem C17_state_indexer : forall mask n pos,
  let r := create_indexers_and_segments mask n in
  let si := nth pos (indices (state_shape_of mask n)) [] in
  pos < length (indices (state_shape_of mask n)) ->
  shape (state_indexer r) = state_shape_of mask n /\
  nth pos (data (state_indexer r)) (-1)%Z =
  (if has_passing mask n si
   then Z.of_nat (count_true (map (has_passing mask n) (firstn pos (indices (state_shape_of mask n)))))
   else (-1)%Z) /\
  (has_passing mask n si = true ->
   nth (count_true (map (has_passing mask n) (firstn pos (indices (state_shape_of mask n)))))
       (feasible_states mask n) [] = si).
Proof. exact indexer_is_rank_or_fill. Qed.
Print Assumptions C17_state_indexer.

(* refinement: on the filter mask of a model (filters evaluated on the product of the restricted
   grids in canonical order) the array model stores exactly the combinations, and keeps exactly
   the restricted states, of the implementation-independent specification Spec/Layout.v — in the
   same order *)
Theorem C17_stored_combinations_refine_the_specification : forall m p t,
  stored_combinations m p t
  = map (as_ienv (restricted_vars m)) (true_positions (filter_mask m p t)).
Proof. exact stored_combinations_refined. Qed.
Print Assumptions C17_stored_combinations_refine_the_specification.

Theorem C17_remaining_states_refine_the_specification : forall m p t,
  NoDup (map fst (restricted_states m ++ restricted_choices m)) ->
  remaining_states m p t
  = map (as_ienv (restricted_states m)) (feasible_states (filter_mask m p t) (length (restricted_states m))).
Proof. exact remaining_states_refined. Qed.
Print Assumptions C17_remaining_states_refine_the_specification.

Example C17_nonvacuous :
  let mask := mkArr [3; 2] [false; false; true; false; true; true] in
  let r := create_indexers_and_segments mask 1 in
  true_positions mask = [[1; 0]; [2; 0]; [2; 1]] /\ data (state_indexer r) = [-1; 0; 1]%Z /\
  segment_ids_r r = [0; 1; 1] /\ num_segments_r r = 2.
Proof. vm_compute. repeat split. Qed.

(* ---- about the regenerated glue of create_state_choice_space (Gen/StateSpaceGlue.v) ------------- *)
From LCM Require Import Gen.ChoiceAxes Gen.StateSpaceGlue Proofs.C05_SpaceGlue.
(* the filters are evaluated at the period the space is built for; the mask and the combination grid  *)
(* are built over the same variables in the same order; a state indexer exists iff there is at least   *)
(* one filter-restricted state                                                                          *)
Theorem C17_code_space_glue : forall (vi0 : list varinfo) (period : nat) (is_last_period : bool),
  let plan := create_state_choice_space_plan vi0 period is_last_period in
  filters_at_period plan = period /\
  sparse_subset plan = grid_subset plan /\
  forall n, n_sparse_states plan = Some n -> (has_state_indexer plan = true <-> (1 <= n)%nat).
Proof.
  intros vi0 period is_last_period plan. split; [reflexivity|split; [reflexivity|]].
  exact (indexer_exists_iff_a_sparse_state vi0 period is_last_period).
Qed.
Print Assumptions C17_code_space_glue.

(* ---- the regenerated array programs (Gen/IndexersGen.v) ARE the model the theorems above are about - *)
From LCM Require Import Gen.IndexersGen Proofs.C17_IndexersGen.
Theorem C17_code_array_programs_are_the_model : forall (mask : arr bool) (n : nat) (grids : list (list Q)),
  gen_create_indexers_and_segments mask n = create_indexers_and_segments mask n /\
  gen_create_combination_grid grids mask = combination_grid grids mask.
Proof. intros. split; [apply gen_create_indexers_and_segments_is_model|apply gen_create_combination_grid_is_model]. Qed.
Print Assumptions C17_code_array_programs_are_the_model.

(* the filter mask and the meshgrid that is indexed with it have the same axes in the same order:   *)
(* the grids of the restricted variables in the order of model.grids                                   *)
Theorem C17_code_mask_and_meshgrid_axes_agree : forall grid_names subset,
  gen_filter_mask_axis_names grid_names subset = gen_combination_grid_axis_names grid_names subset /\
  gen_filter_mask_axis_names grid_names subset = filter (fun name => mem_str name subset) grid_names.
Proof. intros. split; reflexivity. Qed.
Print Assumptions C17_code_mask_and_meshgrid_axes_agree.

(* ---- the regenerated create_filter_mask (Gen/FilterMask.v) ------------------------------------------------------------- *)
From LCM Require Import Model.Dispatchers Gen.FilterMask Proofs.C17_FilterMask Proofs.C17_FilterMaskTie.
(* for any number of variables, grid sizes, any filter function and fixed inputs: the mask has one axis per variable of the     *)
(* subset, in the order of model.grids, as long as that variable's grid, and its entry at idx is the concatenated filter at     *)
(* the idx-th grid values (each variable at ITS index) and the fixed inputs                                                     *)
Theorem C17_code_filter_mask_entries :
  forall (sig : list string) (scalar_filter : list qarr -> qarr),
  (forall a, wf (scalar_filter a) /\ shape (scalar_filter a) = []) -> NoDup sig ->
  forall (vi : list varinfo) (grids : list (string * list Q)) (subset : option (list string)) (fixed_inputs : option (list (string * qarr))),
  NoDup (map fst grids) -> NoDup (map fst (fm_fixed fixed_inputs)) ->
  (forall a, In a (fm_axis vi grids subset) -> In a sig) ->
  (forall a, In a (fm_axis vi grids subset) -> ~ In a (map fst (fm_fixed fixed_inputs))) ->
  let mask := create_filter_mask sig scalar_filter vi grids subset fixed_inputs in
  wf mask /\ shape mask = fm_shape vi grids subset /\
  forall idx, in_bounds (fm_shape vi grids subset) idx ->
    qget mask idx = qget (scalar_filter (fm_args sig vi grids subset fixed_inputs idx)) [].
Proof. exact create_filter_mask_entries. Qed.
Print Assumptions C17_code_filter_mask_entries.

(* that mask IS the filter mask the theorems above (and C01/C02/C05/C14 with filters) are stated on, when the axes are the        *)
(* restricted variables in the Spec's canonical order and the concatenated filter (dags) computes the Spec's filters              *)
Theorem C17_code_filter_mask_is_the_specifications :
  forall (sig : list string) (scalar_filter : list qarr -> qarr),
  (forall a, wf (scalar_filter a) /\ shape (scalar_filter a) = []) -> NoDup sig ->
  forall (vi : list varinfo) (grids : list (string * list Q)) (subset : option (list string)) (fixed_inputs : option (list (string * qarr))),
  NoDup (map fst grids) -> NoDup (map fst (fm_fixed fixed_inputs)) ->
  (forall a, In a (fm_axis vi grids subset) -> In a sig) ->
  (forall a, In a (fm_axis vi grids subset) -> ~ In a (map fst (fm_fixed fixed_inputs))) ->
  forall (m : Lang.model) (p : Lang.params) (t : nat),
  fm_axis vi grids subset = map fst (restricted_vars m) ->
  (forall x g, In (x, g) (restricted_vars m) -> fm_grid grids x = grid_points g) ->
  (forall idx, in_bounds (var_sizes (restricted_vars m)) idx ->
     truthy (qget (scalar_filter (fm_args sig vi grids subset fixed_inputs idx)) [])
     = passes m p t (env_of (restricted_vars m) (as_ienv (restricted_vars m) idx))) ->
  as_bool_mask (create_filter_mask sig scalar_filter vi grids subset fixed_inputs) = filter_mask m p t.
Proof. exact regenerated_mask_is_the_specifications. Qed.
Print Assumptions C17_code_filter_mask_is_the_specifications.

Local Open Scope string_scope.
Example C17_filter_mask_nonvacuous :
  (* health in {0,1,2} x work in {0,1}; the filter admits work <= health + period with period = 0; `cons` is not restricted *)
  let sf := fun a : list qarr => scalar (Qofbool (Qleb (qget (nth 0 a dflt_arr) []) (qget (nth 1 a dflt_arr) [] + qget (nth 2 a dflt_arr) []))) in
  let vi := [mkVarinfo "health" true false false true false false true false; mkVarinfo "work" false true false true false false true false;
             mkVarinfo "cons" false true true false false false false true] in
  let grids := [("cons", [1%Q; 2%Q]); ("health", [0%Q; 1%Q; 2%Q]); ("work", [0%Q; 1%Q])] in
  let mask := create_filter_mask ["work"; "health"; "_period"] sf vi grids None (Some [("_period", scalar 0%Q)]) in
  shape mask = [3; 2]%nat /\ map truthy (data mask) = [true; false; true; true; true; true].
Proof. vm_compute. split; reflexivity. Qed.

(* ---- the axes of the mask, when model.grids follows variable_info (C05_code_grids_follow_variable_info) ------------------------------ *)
From LCM Require Import Proofs.C18_VarInfo Proofs.C17_MaskAxes.
(* the mask's axes are the filter-restricted variables in the order of variable_info; for the variable_info of a model: the restricted    *)
(* states, then the restricted choices — the canonical order the Spec's filter mask is tabulated in                                        *)
Theorem C17_code_mask_axes_are_the_restricted_variables :
  (forall (vi : list varinfo) (grids : list (string * list Q)),
     NoDup (map vname vi) -> map fst grids = map vname vi ->
     fm_axis vi grids None = map vname (filter (fun v => is_sparse v) vi)) /\
  (forall (rs rc dst dch cst cch : list (string * grid)) (grids : list (string * list Q)),
     NoDup (map vname (vi_sparse rs rc dst dch cst cch)) -> map fst grids = map vname (vi_sparse rs rc dst dch cst cch) ->
     fm_axis (vi_sparse rs rc dst dch cst cch) grids None = (map fst rs ++ map fst rc)%list).
Proof. split; [exact mask_axes_are_the_sparse_variables|exact mask_axes_of_a_model]. Qed.
Print Assumptions C17_code_mask_axes_are_the_restricted_variables.

(* Base/Prelude.v — common imports, rational helpers, the value type with -inf.   *)
From Coq Require Export String.
From Coq Require Export List Arith ZArith QArith Qround Qminmax Bool Lia.
Export ListNotations.
Set Implicit Arguments.

Local Open Scope Q_scope.

(* ------------------------------------------------------------------------- *)
(* Rational helpers (all executable; extracted as they are).                  *)
(* ------------------------------------------------------------------------- *)

Definition Qltb (a b : Q) : bool := negb (Qle_bool b a).
Definition Qleb (a b : Q) : bool := Qle_bool a b.
Definition Qeqb (a b : Q) : bool := Qeq_bool a b.

(* float -> int conversion of JAX/NumPy ([astype(int32)]): truncation toward 0 *)
Definition Qtrunc (x : Q) : Z :=
  if Qltb x 0 then Qceiling x else Qfloor x.

Definition Qclip (x lo hi : Q) : Q := Qmin (Qmax x lo) hi.   (* jnp.clip(x, lo, hi) *)
Definition Zclip (x lo hi : Z) : Z := Z.min (Z.max x lo) hi.

Definition QofZ (z : Z) : Q := inject_Z z.
Definition Qofnat (n : nat) : Q := inject_Z (Z.of_nat n).

Definition Qsum (l : list Q) : Q := fold_right Qplus 0 l.
Definition Qprod (l : list Q) : Q := fold_right Qmult 1 l.

(* truthiness of a number used as a boolean (JAX promotes bool to 0/1) *)
Definition truthy (x : Q) : bool := negb (Qeqb x 0).
Definition Qofbool (b : bool) : Q := if b then 1 else 0.

(* ------------------------------------------------------------------------- *)
(* Values of masked maxima: -inf, a finite rational, or "undefined".          *)
(* VUndef stands for what lcm computes when a -inf entry is read back by an   *)
(* interpolation or a product (NaN or -inf depending on weights); such        *)
(* entries are outside every theorem's domain and are never compared.         *)
(* ------------------------------------------------------------------------- *)

Inductive val := VUndef | VNegInf | VFin (q : Q).

Definition vmax (a b : val) : val :=
  match a, b with
  | VUndef, _ | _, VUndef => VUndef
  | VNegInf, x | x, VNegInf => x
  | VFin x, VFin y => VFin (if Qleb x y then y else x)
  end.

Definition vle (a b : val) : Prop :=
  match a, b with
  | VNegInf, VUndef => False
  | VNegInf, _ => True
  | VFin x, VFin y => x <= y
  | _, _ => False
  end.

Definition veq (a b : val) : Prop :=
  match a, b with
  | VUndef, VUndef => True
  | VNegInf, VNegInf => True
  | VFin x, VFin y => x == y
  | _, _ => False
  end.

Definition veqb (a b : val) : bool :=
  match a, b with
  | VNegInf, VNegInf => true
  | VFin x, VFin y => Qeqb x y
  | _, _ => false
  end.

Definition vred (a : val) : val :=
  match a with VFin q => VFin (Qred q) | x => x end.

Definition vmaxl (l : list val) : val := fold_right vmax VNegInf l.

(* option / error monad helpers *)
Definition obind {A B} (o : option A) (f : A -> option B) : option B :=
  match o with Some a => f a | None => None end.
Notation "'do' x <- o ;; k" := (obind o (fun x => k))
  (at level 200, x pattern, o at level 100, k at level 200, right associativity).

Fixpoint omap {A B} (f : A -> option B) (l : list A) : option (list B) :=
  match l with
  | [] => Some []
  | x :: r => do y <- f x ;; do ys <- omap f r ;; Some (y :: ys)
  end.

(* assoc lists keyed by strings *)
Fixpoint assoc {A} (k : string) (l : list (string * A)) : option A :=
  match l with
  | [] => None
  | (k', v) :: r => if String.eqb k k' then Some v else assoc k r
  end.

Definition mem_str (k : string) (l : list string) : bool :=
  existsb (String.eqb k) l.

Fixpoint index_of (k : string) (l : list string) : option nat :=
  match l with
  | [] => None
  | x :: r => if String.eqb k x then Some O
              else match index_of k r with Some i => Some (S i) | None => None end
  end.

(* Base/PyVal.v — Python scalar values as seen by isinstance and comparisons.    *)
(* Trusted semantics of: isinstance(x, int | float), bool being an int, exact  *)
(* int/float comparison, NaN comparing false, TypeError on non-numbers.        *)
From LCM Require Import Base.Prelude.
Local Open Scope Q_scope.

Inductive pyfloat := FFin (q : Q) | FPInf | FNInf | FNaN.

Inductive pyval :=
| PInt (z : Z)          (* int of any size *)
| PBool (b : bool)      (* bool: an int for isinstance and arithmetic *)
| PFloat (f : pyfloat)
| PStr | PNone | POther.

(* result of evaluating a Python expression that may raise TypeError *)
Inductive res (A : Type) := ROk (a : A) | RTypeError.
Arguments ROk {A}. Arguments RTypeError {A}.

Definition rbind {A B} (r : res A) (f : A -> res B) : res B :=
  match r with ROk a => f a | RTypeError => RTypeError end.

Definition py_num (v : pyval) : option pyfloat :=
  match v with
  | PInt z => Some (FFin (inject_Z z))
  | PBool b => Some (FFin (if b then 1 else 0))
  | PFloat f => Some f
  | _ => None
  end.

Definition py_isinstance_int_float (v : pyval) : bool :=
  match v with PInt _ | PBool _ | PFloat _ => true | _ => false end.
Definition py_isinstance_int (v : pyval) : bool :=
  match v with PInt _ | PBool _ => true | _ => false end.

Definition f_lt (a b : pyfloat) : bool :=
  match a, b with
  | FNaN, _ | _, FNaN => false
  | FFin x, FFin y => Qltb x y
  | FNInf, FNInf => false | FNInf, _ => true
  | _, FNInf => false
  | FPInf, _ => false
  | FFin _, FPInf => true
  end.
Definition f_eq (a b : pyfloat) : bool :=
  match a, b with
  | FFin x, FFin y => Qeqb x y
  | FPInf, FPInf | FNInf, FNInf => true
  | _, _ => false
  end.
Definition f_le a b := f_lt a b || f_eq a b.

Definition py_cmp (op : pyfloat -> pyfloat -> bool) (a b : pyval) : res bool :=
  match py_num a, py_num b with
  | Some x, Some y => ROk (op x y)
  | _, _ => RTypeError
  end.
Definition py_lt := py_cmp f_lt.
Definition py_le := py_cmp f_le.
Definition py_gt a b := py_cmp f_lt b a.
Definition py_ge a b := py_cmp f_le b a.

Definition py_neg (v : pyval) : pyval :=
  match v with
  | PInt z => PInt (- z)
  | PBool b => PInt (if b then -1 else 0)%Z
  | PFloat (FFin q) => PFloat (FFin (- q))
  | PFloat FPInf => PFloat FNInf
  | PFloat FNInf => PFloat FPInf
  | x => x
  end.

(* sys.float_info.max = (2 - 2^-52) * 2^1023 *)
Definition float_max_Z : Z := (2 ^ 1024 - 2 ^ 971)%Z.
Definition py_float_max : pyval := PFloat (FFin (inject_Z float_max_Z)).

Definition py_truthy_list {A} (l : list A) : bool :=
  match l with [] => false | _ => true end.

(* outcome of a validator *)
Inductive outcome := Accept | Reject | RaisesTypeError.

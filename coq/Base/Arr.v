(* Base/Arr.v — L0: n-dimensional arrays as (shape, row-major data).            *)
(* Definitions only; the characterising lemmas are in Proofs/ArrLemmas.v.      *)
From LCM Require Import Base.Prelude.
Local Open Scope nat_scope.

Fixpoint index_of_nat (k : nat) (l : list nat) : option nat :=
  match l with
  | [] => None
  | x :: r => if (k =? x)%nat then Some O
              else match index_of_nat k r with Some i => Some (S i) | None => None end
  end.

Section Arr.
Variable A : Type.

Record arr := mkArr { shape : list nat; data : list A }.

Fixpoint size (sh : list nat) : nat :=
  match sh with [] => 1 | n :: r => n * size r end.

(* row-major enumeration of all index tuples of a shape *)
Fixpoint indices (sh : list nat) : list (list nat) :=
  match sh with
  | [] => [[]]
  | n :: r => flat_map (fun i => map (cons i) (indices r)) (seq 0 n)
  end.

Fixpoint ravel (sh idx : list nat) : nat :=
  match sh, idx with
  | n :: r, i :: js => i * size r + ravel r js
  | _, _ => 0
  end.

(* jnp.unravel_index for in-range flat positions *)
Fixpoint unravel (sh : list nat) (k : nat) : list nat :=
  match sh with
  | [] => []
  | n :: r => (k / size r) :: unravel r (k mod size r)
  end.

Fixpoint in_bounds (sh idx : list nat) : Prop :=
  match sh, idx with
  | [], [] => True
  | n :: r, i :: js => i < n /\ in_bounds r js
  | _, _ => False
  end.

Fixpoint in_boundsb (sh idx : list nat) : bool :=
  match sh, idx with
  | [], [] => true
  | n :: r, i :: js => (i <? n)%nat && in_boundsb r js
  | _, _ => false
  end.

Definition tabulate (sh : list nat) (f : list nat -> A) : arr :=
  {| shape := sh; data := map f (indices sh) |}.

Definition get (d : A) (a : arr) (idx : list nat) : A :=
  nth (ravel (shape a) idx) (data a) d.

Definition scalar (x : A) : arr := {| shape := []; data := [x] |}.
Definition vec (l : list A) : arr := {| shape := [length l]; data := l |}.

Definition wf (a : arr) : Prop := length (data a) = size (shape a).
Definition wfb (a : arr) : bool := (length (data a) =? size (shape a))%nat.

(* a[i] on the leading axis *)
Definition slice (d : A) (a : arr) (i : nat) : arr :=
  tabulate (tl (shape a)) (fun idx => get d a (i :: idx)).

(* partial indexing a[i1,...,ik] *)
Definition subarr (d : A) (a : arr) (pre : list nat) : arr :=
  tabulate (skipn (length pre) (shape a)) (fun idx => get d a (pre ++ idx)).

Definition reshape (sh : list nat) (a : arr) : arr := {| shape := sh; data := data a |}.

(* a.transpose(perm): result axis j is source axis perm[j] *)
Definition transpose (d : A) (perm : list nat) (a : arr) : arr :=
  tabulate (map (fun p => nth p (shape a) 0%nat) perm)
    (fun idx =>
       get d a (map (fun ax =>
                       match index_of_nat ax perm with
                       | Some j => nth j idx 0%nat
                       | None => 0%nat end) (seq 0 (length (shape a))))).
End Arr.

Arguments mkArr {A}.
Arguments shape {A}.
Arguments data {A}.
Arguments scalar {A}.
Arguments vec {A}.
Arguments wf {A}.
Arguments wfb {A}.
Arguments reshape {A}.
Arguments tabulate {A}.

Arguments get {A}.
Arguments slice {A}.
Arguments subarr {A}.
Arguments transpose {A}.

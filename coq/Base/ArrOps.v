(* Base/ArrOps.v — L0: the jax.numpy / jax.ops primitives lcm uses, given meaning *)
(* on [arr].  Trusted semantics, validated primitive by primitive against JAX.   *)
From LCM Require Import Base.Prelude Base.Arr.
Local Open Scope nat_scope.

Section Ops.
Variable A : Type.
Variable d : A.

Definition amap {B} (f : A -> B) (a : arr A) : arr B :=
  mkArr (shape a) (map f (data a)).

Fixpoint zip_with {B C} (f : A -> B -> C) (l1 : list A) (l2 : list B) : list C :=
  match l1, l2 with
  | x :: r1, y :: r2 => f x y :: zip_with f r1 r2
  | _, _ => []
  end.

(* elementwise binary operation on arrays of equal shape *)
Definition amap2 {B C} (f : A -> B -> C) (a : arr A) (b : arr B) : arr C :=
  mkArr (shape a) (zip_with f (data a) (data b)).

(* ---- reductions over a set of axes ------------------------------------- *)

Definition axis_mask (rank : nat) (axes : list nat) : list bool :=
  map (fun k => existsb (Nat.eqb k) axes) (seq 0 rank).

Fixpoint select_mask {B} (mask : list bool) (l : list B) (want : bool) : list B :=
  match mask, l with
  | m :: ms, x :: r => if Bool.eqb m want then x :: select_mask ms r want
                       else select_mask ms r want
  | _, _ => []
  end.

(* rebuild a full index from the kept part and the reduced part *)
Fixpoint interleave (mask : list bool) (keep red : list nat) : list nat :=
  match mask with
  | [] => []
  | true :: m => hd 0 red :: interleave m keep (tl red)
  | false :: m => hd 0 keep :: interleave m (tl keep) red
  end.

(* a.reduce(op, axis=axes, initial=neutral): fold over the reduced positions in
   row-major order of the reduced axes (ascending axis number) *)
Definition reduce_axes (op : A -> A -> A) (neutral : A) (a : arr A) (axes : list nat)
  : arr A :=
  let mask := axis_mask (length (shape a)) axes in
  let keep_sh := select_mask mask (shape a) false in
  let red_sh := select_mask mask (shape a) true in
  tabulate keep_sh (fun keep =>
    fold_right op neutral
      (map (fun red => get d a (interleave mask keep red)) (indices red_sh))).

(* ---- segment reductions over the leading axis --------------------------- *)

Definition rows_of_segment (ids : list nat) (s : nat) : list nat :=
  filter (fun r => nth r ids 0 =? s) (seq 0 (length ids)).

(* jax.ops.segment_max / segment_sum (data, segment_ids, num_segments) *)
Definition segment_reduce (op : A -> A -> A) (neutral : A)
           (a : arr A) (ids : list nat) (num : nat) : arr A :=
  tabulate (num :: tl (shape a)) (fun idx =>
    match idx with
    | s :: rest =>
        fold_right op neutral (map (fun r => get d a (r :: rest)) (rows_of_segment ids s))
    | [] => neutral
    end).

(* a[ids] on the leading axis, ids in range *)
Definition take_lead (a : arr A) (ids : list nat) : arr A :=
  tabulate (length ids :: tl (shape a)) (fun idx =>
    match idx with
    | i :: rest => get d a (nth i ids 0 :: rest)
    | [] => d
    end).
End Ops.
Arguments amap {A B}.
Arguments zip_with {A B C}.
Arguments amap2 {A B C}.
Arguments select_mask {B}.
Arguments reduce_axes {A}.
Arguments segment_reduce {A}.
Arguments take_lead {A}.

(* ---- maxima of value arrays ---------------------------------------------- *)
(* x.max(axis=axes)  and  jax.ops.segment_max  on arrays of [val] *)
Definition amax_axes (a : arr val) (axes : list nat) : arr val :=
  reduce_axes VUndef vmax VNegInf a axes.
Definition segment_max_val (a : arr val) (ids : list nat) (num : nat) : arr val :=
  segment_reduce VUndef vmax VNegInf a ids num.

(* segment info as passed around by lcm: {"segment_ids", "num_segments"} *)
Record seginfo := mkSeg { segment_ids : list nat; num_segments : nat }.

(* first position holding [true] (jnp.argmax of a boolean vector; 0 if none) *)
Fixpoint first_true (l : list bool) : nat :=
  match l with
  | [] => 0
  | true :: _ => 0
  | false :: r => if existsb (fun b => b) r then S (first_true r) else 0
  end.

(* Base/ArrOps.v — L0: the jax.numpy / jax.ops primitives lcm uses, given meaning *)
(* on [arr].  Trusted semantics, validated primitive by primitive against JAX.   *)
From LCM Require Import Base.Prelude Base.Arr.
Local Open Scope nat_scope.

Section Ops.
Variable A : Type.
Variable d : A.

Definition amap {B} (f : A -> B) (a : arr A) : arr B :=
  mkArr (shape a) (map f (data a)).

Fixpoint zip_with {B C} (f : A -> B -> C) (l1 : list A) (l2 : list B) : list C :=
  match l1, l2 with
  | x :: r1, y :: r2 => f x y :: zip_with f r1 r2
  | _, _ => []
  end.

(* elementwise binary operation on arrays of equal shape *)
Definition amap2 {B C} (f : A -> B -> C) (a : arr A) (b : arr B) : arr C :=
  mkArr (shape a) (zip_with f (data a) (data b)).

(* ---- reductions over a set of axes ------------------------------------- *)

Definition axis_mask (rank : nat) (axes : list nat) : list bool :=
  map (fun k => existsb (Nat.eqb k) axes) (seq 0 rank).

Fixpoint select_mask {B} (mask : list bool) (l : list B) (want : bool) : list B :=
  match mask, l with
  | m :: ms, x :: r => if Bool.eqb m want then x :: select_mask ms r want
                       else select_mask ms r want
  | _, _ => []
  end.

(* rebuild a full index from the kept part and the reduced part *)
Fixpoint interleave (mask : list bool) (keep red : list nat) : list nat :=
  match mask with
  | [] => []
  | true :: m => hd 0 red :: interleave m keep (tl red)
  | false :: m => hd 0 keep :: interleave m (tl keep) red
  end.

(* a.reduce(op, axis=axes, initial=neutral): fold over the reduced positions in
   row-major order of the reduced axes (ascending axis number) *)
Definition reduce_axes (op : A -> A -> A) (neutral : A) (a : arr A) (axes : list nat)
  : arr A :=
  let mask := axis_mask (length (shape a)) axes in
  let keep_sh := select_mask mask (shape a) false in
  let red_sh := select_mask mask (shape a) true in
  tabulate keep_sh (fun keep =>
    fold_right op neutral
      (map (fun red => get d a (interleave mask keep red)) (indices red_sh))).

(* ---- segment reductions over the leading axis --------------------------- *)

Definition rows_of_segment (ids : list nat) (s : nat) : list nat :=
  filter (fun r => nth r ids 0 =? s) (seq 0 (length ids)).

(* jax.ops.segment_max / segment_sum (data, segment_ids, num_segments) *)
Definition segment_reduce (op : A -> A -> A) (neutral : A)
           (a : arr A) (ids : list nat) (num : nat) : arr A :=
  tabulate (num :: tl (shape a)) (fun idx =>
    match idx with
    | s :: rest =>
        fold_right op neutral (map (fun r => get d a (r :: rest)) (rows_of_segment ids s))
    | [] => neutral
    end).

(* a[ids] on the leading axis, ids in range *)
Definition take_lead (a : arr A) (ids : list nat) : arr A :=
  tabulate (length ids :: tl (shape a)) (fun idx =>
    match idx with
    | i :: rest => get d a (nth i ids 0 :: rest)
    | [] => d
    end).
End Ops.
Arguments amap {A B}.
Arguments zip_with {A B C}.
Arguments amap2 {A B C}.
Arguments select_mask {B}.
Arguments reduce_axes {A}.
Arguments segment_reduce {A}.
Arguments take_lead {A}.

(* ---- maxima of value arrays ---------------------------------------------- *)
(* x.max(axis=axes)  and  jax.ops.segment_max  on arrays of [val] *)
Definition amax_axes (a : arr val) (axes : list nat) : arr val :=
  reduce_axes VUndef vmax VNegInf a axes.
Definition segment_max_val (a : arr val) (ids : list nat) (num : nat) : arr val :=
  segment_reduce VUndef vmax VNegInf a ids num.

(* segment info as passed around by lcm: {"segment_ids", "num_segments"} *)
Record seginfo := mkSeg { segment_ids : list nat; num_segments : nat }.

(* first position holding [true] (jnp.argmax of a boolean vector; 0 if none) *)
Fixpoint first_true (l : list bool) : nat :=
  match l with
  | [] => 0
  | true :: _ => 0
  | false :: r => if existsb (fun b => b) r then S (first_true r) else 0
  end.

(* ------------------------------------------------------------------------------ *)
(* vocabulary of the array programs translated from lcm/argmax.py (Gen/Argmax.v)   *)
(* ------------------------------------------------------------------------------ *)

(* sorted(set(range(rank)) - set(axes)) *)
Definition front_axes (rank : nat) (axes : list nat) : list nat :=
  filter (fun k => negb (existsb (Nat.eqb k) axes)) (seq 0 rank).

(* a.transpose of (front_axes followed by axes) *)
Definition transpose_to {A : Type} (d : A) (a : arr A) (perm : list nat) : arr A :=
  transpose d perm a.

(* a.reshape(a.shape[:-n] + (-1,))    (n >= 1) *)
Definition reshape_flatten_last {A : Type} (a : arr A) (n : nat) : arr A :=
  let r := length (shape a) in
  reshape (firstn (r - n) (shape a) ++ [size (skipn (r - n) (shape a))]) a.

(* positions along the last axis *)
Definition last_dim (sh : list nat) : nat := last sh 0.

(* jnp.max(a, axis=-1, keepdims=True, initial=initial, where=where) on values:
   masked-out entries do not take part; [initial] (None: no initial) takes part *)
Definition max_last_keepdims (a : arr val) (initial : option val) (where_ : option (arr bool))
  : arr val :=
  let front := removelast (shape a) in
  let n := last_dim (shape a) in
  tabulate (front ++ [1]) (fun idx =>
    let outer := removelast idx in
    fold_right vmax (match initial with Some v => v | None => VNegInf end)
      (map (fun k =>
              let pos := outer ++ [k] in
              match where_ with
              | Some w => if get false w pos then get VUndef a pos else VNegInf
              | None => get VUndef a pos
              end) (seq 0 n))).

(* numpy broadcasting of two arrays of equal rank: a dimension of size 1 is repeated *)
Definition bshape (s1 s2 : list nat) : list nat :=
  zip_with (fun x y => if x =? 1 then y else x) s1 s2.
Definition bget {A : Type} (d : A) (a : arr A) (idx : list nat) : A :=
  get d a (zip_with (fun s i => if s =? 1 then 0 else i) (shape a) idx).
Definition amap2_bcast {A B C : Type} (da : A) (db : B) (f : A -> B -> C)
           (a : arr A) (b : arr B) : arr C :=
  tabulate (bshape (shape a) (shape b)) (fun idx => f (bget da a idx) (bget db b idx)).

(* a == b on values (NaN/undefined compares false, -inf == -inf) *)
Definition veqb_num (x y : val) : bool :=
  match x, y with
  | VNegInf, VNegInf => true
  | VFin p, VFin r => Qeqb p r
  | _, _ => false
  end.
Definition arr_eq (a b : arr val) : arr bool := amap2_bcast VUndef VUndef veqb_num a b.
Definition arr_and (a b : arr bool) : arr bool := amap2_bcast false false andb a b.
(* bool array * int array *)
Definition arr_mask_mul (m : arr bool) (i : arr nat) : arr nat :=
  amap2_bcast false 0 (fun b k => if b then k else 0) m i.

(* jnp.argmax(mask, axis=-1) of a boolean array: first True, 0 if none *)
Definition argmax_last (m : arr bool) : arr nat :=
  let front := removelast (shape m) in
  let n := last_dim (shape m) in
  tabulate front (fun outer => first_true (map (fun k => get false m (outer ++ [k])) (seq 0 n))).

Definition arange (n : nat) : arr nat := vec (seq 0 n).
(* x.reshape(-1, 1, ..., 1) with k ones, of a 1-d array *)
Definition reshape_col {A : Type} (a : arr A) (k : nat) : arr A :=
  reshape (length (data a) :: repeat 1 k) a.
Definition broadcast_to {A : Type} (d : A) (a : arr A) (sh : list nat) : arr A :=
  tabulate sh (fun idx => bget d a idx).

Definition segment_max_nat (a : arr nat) (ids : list nat) (num : nat) : arr nat :=
  segment_reduce 0 Nat.max 0 a ids num.

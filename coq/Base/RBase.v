(* Base/RBase.v — real-number support for the kernels that use ln/exp.            *)
(* Not executable; tied to the source by the translator (Gen/*R.v, Gen/SegLSE.v) *)
From Coq Require Import Reals.
From LCM Require Import Base.Prelude Base.Arr Base.ArrOps.
Local Open Scope R_scope.

Definition Rfloor (x : R) : R := IZR (Int_part x).          (* jnp.floor *)
Definition Rclip (x lo hi : R) : R := Rmin (Rmax x lo) hi.   (* jnp.clip  *)
Definition Rsum (l : list R) : R := fold_right Rplus 0 l.

(* maximum of a non-empty list (0 for the empty list: JAX gives -inf there; every
   theorem about segment maxima is stated for segments that contain a row) *)
Definition Rmaxl (l : list R) : R :=
  match l with [] => 0 | x :: r => fold_right Rmax x r end.

Definition rarr := arr R.
Definition rget (a : rarr) (idx : list nat) : R := get 0 a idx.

Definition r_div_s (a : rarr) (s : R) : rarr := amap (fun x => x / s) a.
Definition r_s_mul (s : R) (a : rarr) : rarr := amap (fun x => s * x) a.
Definition r_sub (a b : rarr) : rarr := amap2 Rminus a b.
Definition r_add (a b : rarr) : rarr := amap2 Rplus a b.
Definition r_exp (a : rarr) : rarr := amap exp a.
Definition r_log (a : rarr) : rarr := amap ln a.

(* jax.ops.segment_max / segment_sum over the leading axis *)
Definition r_segment_max (a : rarr) (ids : list nat) (num : nat) : rarr :=
  tabulate (num :: tl (shape a)) (fun idx =>
    match idx with
    | s :: rest => Rmaxl (map (fun r => rget a (r :: rest)) (rows_of_segment ids s))
    | [] => 0
    end).
Definition r_segment_sum (a : rarr) (ids : list nat) (num : nat) : rarr :=
  tabulate (num :: tl (shape a)) (fun idx =>
    match idx with
    | s :: rest => Rsum (map (fun r => rget a (r :: rest)) (rows_of_segment ids s))
    | [] => 0
    end).
Definition r_take (a : rarr) (ids : list nat) : rarr := take_lead 0 a ids.

(* jax.scipy.special.logsumexp(a, axis=axes): its mathematical definition.
   (External function: numerical stability of JAX's implementation is trusted.) *)
Definition r_logsumexp (a : rarr) (axes : list nat) : rarr :=
  let mask := axis_mask (length (shape a)) axes in
  let keep_sh := select_mask mask (shape a) false in
  let red_sh := select_mask mask (shape a) true in
  tabulate keep_sh (fun keep =>
    ln (Rsum (map (fun red => exp (rget a (interleave mask keep red))) (indices red_sh)))).

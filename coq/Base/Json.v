(* Base/Json.v — the data exchanged between the harness and the extracted model. *)
From LCM Require Import Base.Prelude Base.Arr.
Local Open Scope string_scope.

Inductive json :=
| JNull
| JBool (b : bool)
| JInt (z : Z)
| JStr (s : string)
| JList (l : list json)
| JObj (l : list (string * json)).

(* ---- decoders (option monad) ---------------------------------------------- *)
Definition jfield (k : string) (j : json) : option json :=
  match j with JObj l => assoc k l | _ => None end.

Definition jint (j : json) : option Z := match j with JInt z => Some z | _ => None end.
Definition jnat (j : json) : option nat :=
  match j with JInt z => if (z <? 0)%Z then None else Some (Z.to_nat z) | _ => None end.
Definition jbool (j : json) : option bool := match j with JBool b => Some b | _ => None end.
Definition jstr (j : json) : option string := match j with JStr s => Some s | _ => None end.
Definition jlist (j : json) : option (list json) :=
  match j with JList l => Some l | _ => None end.

(* rationals travel as {"q":[num, den]} with den > 0, or as a bare integer *)
Definition jq (j : json) : option Q :=
  match j with
  | JInt z => Some (inject_Z z)
  | JObj [(_, JList [JInt n; JInt (Zpos d)])] => Some (Qmake n d)
  | _ => None
  end.

Definition jlist_of {A} (f : json -> option A) (j : json) : option (list A) :=
  do l <- jlist j ;; omap f l.

Definition jfield_of {A} (f : json -> option A) (k : string) (j : json) : option A :=
  do x <- jfield k j ;; f x.

(* values: null = undefined, "-inf", or a rational *)
Definition jval (j : json) : option val :=
  match j with
  | JNull => Some VUndef
  | JStr _ => Some VNegInf
  | _ => do q <- jq j ;; Some (VFin q)
  end.

Definition jarr {A} (f : json -> option A) (j : json) : option (arr A) :=
  do sh <- jfield_of (jlist_of jnat) "shape" j ;;
  do dt <- jfield_of (jlist_of f) "data" j ;;
  Some (mkArr sh dt).

(* ---- encoders ----------------------------------------------------------------- *)
Definition of_q (q : Q) : json :=
  let r := Qred q in
  match Qden r with
  | xH => JInt (Qnum r)
  | d => JObj [("q", JList [JInt (Qnum r); JInt (Zpos d)])]
  end.
Definition of_nat (n : nat) : json := JInt (Z.of_nat n).
Definition of_val (v : val) : json :=
  match v with VUndef => JNull | VNegInf => JStr "-inf" | VFin q => of_q q end.
Definition of_list {A} (f : A -> json) (l : list A) : json := JList (map f l).
Definition of_arr {A} (f : A -> json) (a : arr A) : json :=
  JObj [("shape", of_list of_nat (shape a)); ("data", of_list f (data a))].
Definition of_option {A} (f : A -> json) (o : option A) : json :=
  match o with Some a => f a | None => JNull end.
Definition jerror (msg : string) : json := JObj [("error", JStr msg)].

(* Base/QKernel.v — the jnp vocabulary of the translated kernels, over Q.      *)
From LCM Require Import Base.Prelude.
Local Open Scope Q_scope.

Definition Qfloor_q (x : Q) : Q := inject_Z (Qfloor x).       (* jnp.floor *)
Definition Qastype_int (x : Q) : Q := inject_Z (Qtrunc x).    (* .astype(jnp.int32) *)

(* functools.reduce(op, l) for a non-empty list (0 on the empty list, where Python
   raises TypeError; lcm never calls it on an empty sequence: rank >= 1) *)
Definition reduce1 (op : Q -> Q -> Q) (l : list Q) : Q :=
  match l with [] => 0 | x :: r => fold_left op r x end.

(* Proofs/C17_FilterMaskTie.v — the mask the regenerated create_filter_mask returns IS the filter mask C17's state-space theorems *)
(* (and with them C01/C02/C05/C14 with filters) are stated on: Refine_StateSpace.filter_mask, the Spec's filters tabulated over   *)
(* the grids of the restricted variables.                                                                                         *)
From Coq Require Import Lia.
From LCM Require Import Base.Prelude Base.Arr Model.Dispatchers Model.PyVocab Spec.Lang Spec.Bellman Spec.Layout Gen.ChoiceAxes Gen.FilterMask.
From LCM Require Import Proofs.ArrLemmas Proofs.C19_Dispatch Proofs.PyVocabLemmas Proofs.C17_FilterMask Proofs.Refine_StateSpace.
Local Open Scope nat_scope.

Lemma nth_indices_unravel' sh k : k < size sh -> nth k (indices sh) [] = unravel sh k.
Proof. intros H. rewrite <- (ravel_unravel sh k H) at 1. apply nth_indices. now apply unravel_in_bounds. Qed.

Lemma data_as_entries' (a : qarr) : wf a -> data a = map (qget a) (indices (shape a)).
Proof.
  intros W. apply (nth_ext _ _ 0%Q 0%Q).
  - rewrite map_length, length_indices. exact W.
  - intros k Hk. rewrite W in Hk.
    rewrite (nth_indep (map _ _) 0%Q (qget a [])) by (now rewrite map_length, length_indices).
    rewrite (map_nth (qget a)). rewrite nth_indices_unravel' by exact Hk.
    unfold qget, get. now rewrite ravel_unravel.
Qed.

(* the code's mask as an array of booleans *)
Definition as_bool_mask (a : qarr) : arr bool := {| shape := shape a; data := map truthy (data a) |}.

Section Tie.
Variables (sig : list string) (scalar_filter : list qarr -> qarr).
Hypothesis Hscalar : forall a, wf (scalar_filter a) /\ shape (scalar_filter a) = [].
Hypothesis Hsig : NoDup sig.
Variables (vi : list varinfo) (grids : list (string * list Q)) (subset : option (list string)) (fixed_inputs : option (list (string * qarr))).
Hypothesis Hgrids_nd : NoDup (map fst grids).
Hypothesis Hfixed_nd : NoDup (map fst (fm_fixed fixed_inputs)).
Hypothesis Haxis_sig : forall a, In a (fm_axis vi grids subset) -> In a sig.
Hypothesis Haxis_fixed : forall a, In a (fm_axis vi grids subset) -> ~ In a (map fst (fm_fixed fixed_inputs)).
(* the model and the period; the axes of the mask are the restricted variables in the Spec's canonical order, each grid held as the array of its points *)
Variables (m : model) (p : params) (t : nat).
Hypothesis Haxis : fm_axis vi grids subset = map fst (restricted_vars m).
Hypothesis Hpoints : forall x g, In (x, g) (restricted_vars m) -> fm_grid grids x = grid_points g.
(* the interface assumption: the concatenated filter (dags), at the grid values of a combination and the fixed inputs, computes the Spec's filters *)
Hypothesis Hdags : forall idx, in_bounds (var_sizes (restricted_vars m)) idx ->
  truthy (qget (scalar_filter (fm_args sig vi grids subset fixed_inputs idx)) []) = passes m p t (env_of (restricted_vars m) (as_ienv (restricted_vars m) idx)).

Lemma shape_is : fm_shape vi grids subset = var_sizes (restricted_vars m).
Proof.
  unfold fm_shape, var_sizes. rewrite Haxis, map_map. apply map_ext_in. intros [x g] Hin. cbn [fst snd].
  rewrite (Hpoints x g Hin). unfold grid_points. now rewrite map_length, seq_length.
Qed.

Theorem regenerated_mask_is_the_specifications :
  as_bool_mask (create_filter_mask sig scalar_filter vi grids subset fixed_inputs) = filter_mask m p t.
Proof.
  destruct (create_filter_mask_entries sig scalar_filter Hscalar Hsig vi grids subset fixed_inputs Hgrids_nd Hfixed_nd Haxis_sig Haxis_fixed)
    as (Hw & Hs & Hget).
  unfold as_bool_mask, filter_mask, tabulate. rewrite (data_as_entries' _ Hw), Hs, shape_is. f_equal.
  rewrite map_map. apply map_ext_in. intros idx Hin. apply in_indices in Hin.
  rewrite Hget by (now rewrite shape_is). now apply Hdags.
Qed.
End Tie.

(* Proofs/C19_FunctoolsGen.v — the regenerated wrappers (Gen/FunctoolsGen.v) ARE the model of         *)
(* Model/Functools.v that C19's rejection and by-name-binding theorems are about.                        *)
From LCM Require Import Base.Prelude Model.Functools Gen.FunctoolsGen.

Theorem gen_allow_only_kwargs_is_model (V : Type) s f args kw :
  gen_allow_only_kwargs V s f args kw = allow_only_kwargs s f args kw.
Proof.
  unfold gen_allow_only_kwargs, allow_only_kwargs. destruct args as [|a r]; cbn [negb]; [|reflexivity].
  destruct (negb (subset (map fst kw) (names s))); [reflexivity|].
  destruct (negb (subset (names s) (map fst kw))); [reflexivity|].
  destruct (convert_kwargs_to_args _ (names s)); reflexivity.
Qed.

Theorem gen_allow_args_is_model (V : Type) s f args kw :
  gen_allow_args V s f args kw = allow_args s f args kw.
Proof.
  unfold gen_allow_args, allow_args.
  destruct (negb (Nat.eqb (length args + length kw) (length (names s)))); [reflexivity|].
  destruct (negb (same_set (map fst kw) (skipn (length args) (names s)))); [reflexivity|].
  destruct (convert_kwargs_to_args kw (names s)) as [conv|e]; [|reflexivity].
  cbv zeta. destruct (zip_strict _ _); reflexivity.
Qed.

Theorem gen_convert_kwargs_to_args_is_model (V : Type) kw parameters :
  gen_convert_kwargs_to_args V kw parameters = convert_kwargs_to_args kw parameters.
Proof. reflexivity. Qed.

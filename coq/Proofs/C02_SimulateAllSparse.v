(* Proofs/C02_SimulateAllSparse.v — EVERY ROW of what simulate returns is a feasible maximiser, WITH filter-restricted         *)
(* variables: the regenerated forward loop with the data space of Proofs/C02_DataRows.v and the decision of                      *)
(* Proofs/C02_SparseDecision.v as its per-period decision block, the arrays and state indexers of the regenerated solve           *)
(* (Proofs/C01_SparseSolve.v) as value arrays and lookup objects.                                                                 *)
From Coq Require Import Lqa Lia Permutation ZArith.
From LCM Require Import Base.Prelude Base.Arr Base.ArrOps Model.RandomChoice Model.StateSpace Gen.Simulate.
From LCM Require Import Spec.Lang Spec.Bellman Spec.Layout Proofs.ArrLemmas Proofs.C14_Refine Proofs.C04_SimulateLoop
                        Proofs.C01_Compose Proofs.C01_MaxCompose Proofs.C01_Period Proofs.C01_Solve Proofs.C01_Sparse Proofs.C01_SparseSolve
                        Proofs.C01_Agents Proofs.C02_Decision Proofs.C02_SparseDecision Proofs.C02_DataRows.
Local Open Scope nat_scope.

Section SimulateAllSparse.
Variables (m : model) (p : params) (n : nat) (dch cch : list (string * grid)).
Let sts := states m.
Let isr := is_restricted m.
Let rs := restricted_states m.
Let rc := restricted_choices m.
Let dst := free_discrete_states m.
Let cst := free_continuous_states m.
Hypothesis Hperm : Permutation (rc ++ dch ++ cch) (choices m).
Hypothesis Hnd : NoDup (map fst (choices m)).
Hypothesis Hnodup : NoDup (map fst (rs ++ rc)).
Hypothesis Hrs : rs <> [].
Hypothesis Hfree : forall x, In x (map fst (dst ++ cst ++ dch ++ cch)) -> is_restricted m x = false.
Hypothesis Hnds : NoDup (map fst sts).
Hypothesis Hvalid : grids_valid sts.
Hypothesis Hdisc : forall sg, In sg sts -> isr (fst sg) = true -> is_cont (snd sg) = false.
Hypothesis Hnames : NoDup (map fst (rc ++ dst ++ dch ++ cst ++ cch)).
Hypothesis Hsparse_name : ~ In "__sparse__"%string (map fst (rc ++ dch ++ cch)).
Hypothesis Hall_names : NoDup (map fst (rs ++ rc ++ dst ++ cst ++ dch ++ cch) ++ [period_name]).
Hypothesis Hn : 1 <= n.

(* the agents' states: the columns of the restricted, the free discrete and the continuous states *)
Definition S3 := (list (list Q) * list (list Q) * list (list Q))%type.
Variable nag : nat.
Variable trans : S3 -> list (list nat * list nat * list nat) -> nat -> list key -> S3.
Variables (initial : S3) (seed : nat) (prng : nat -> key) (n_stoch : nat).

Definition sp_uf (t : nat) (vf : option (arr val)) (ix : arr Z) : list Q -> val * bool :=
  match vf with
  | Some a => uf_code_sparse_arr m p dch cch t (qarr_of a) ix
  | None => uf_code_sparse_last m p t rs rc dst dch cst cch
  end.

Definition sp_decide (st : S3) (t : nat) (_ _ : unit) (vf : option (arr val)) (ix : arr Z) (_ : unit)
  : list val * list (list nat * list nat * list nat) :=
  let '(stRs, stDst, stCst) := st in
  let uf := sp_uf t vf ix in
  let keepA := keep_of m p t rs rc dst cst stRs stDst stCst in
  let colsA := data_colsA rc nag keepA stRs stDst in
  let colsC := data_colsC rc nag keepA stCst in
  let ids := data_ids rc nag keepA in
  (map (value_agent rs rc dst dch cst cch uf colsA colsC ids nag) (seq 0 nag),
   map (fun a => let row := row_agent rs rc dst dch cst cch uf colsA colsC ids nag a in
                 (ci_of_row rc nag keepA row,
                  red_g ((rs ++ rc) ++ dst) dch cst cch uf colsA colsC row,
                  unravel (sizes cch) (cont_argmax_g ((rs ++ rc) ++ dst) dch cst cch uf colsA colsC row))) (seq 0 nag)).

Definition sp_sim : sim_env :=
  {| E_params := unit; E_states := S3; E_choices := list (list nat * list nat * list nat); E_value := list val;
     E_arr := arr val; E_indexers := arr Z; E_policy := unit; E_grids := unit;
     e_d_grids := tt; e_d_policy := tt; e_d_indexers := scalar 0%Z; e_prng_key := prng; e_n_stochastic := n_stoch;
     e_solve_model := fun _ => code_solve_sparse m p n dch cch;
     e_decide := sp_decide; e_next_state := fun st ch t _ ks => trans st ch t ks; e_remove_next_prefix := fun st => st;
     e_params := tt; e_initial_states := initial;
     e_state_indexers := map (fun t => ix_at m p (S t)) (seq 0 n);      (* shifted: period t looks up with the indexer of t+1 *)
     e_grids := repeat tt n; e_policies := repeat tt n; e_vf_arr_list := None; e_seed := seed |}.

Lemma sp_periods : sim_n_periods sp_sim = n.
Proof.
  unfold sim_n_periods, n_periods, lookup_arrays, solved. cbn [sp_sim e_vf_arr_list e_solve_model e_params].
  pose proof (code_solve_sparse_length m p n dch cch Hn) as L.
  rewrite app_length, map_length. cbn [length]. destruct (code_solve_sparse m p n dch cch) as [|a r]; cbn [tl length E_arr sp_sim] in *; clear -L Hn; lia.
Qed.

Definition sp_states_at (t : nat) : S3 := fst (sim_at sp_sim t).

Lemma sp_lookup_at t : t < n ->
  nth t (sim_lookup sp_sim) None = if S t =? n then None else Some (nth (S t) (code_solve_sparse m p n dch cch) (scalar VUndef)).
Proof.
  intros Ht. assert (L : length (sim_solved sp_sim) = n) by exact (code_solve_sparse_length m p n dch cch Hn).
  destruct (Nat.eqb_spec (S t) n) as [E|E].
  - assert (Et : t = length (sim_solved sp_sim) - 1) by lia. rewrite Et.
    apply bundled_no_lookup_last. intros C. rewrite C in L. simpl in L. lia.
  - rewrite (bundled_lookup_next sp_sim t (scalar VUndef)); [reflexivity|]. rewrite L. lia.
Qed.

Lemma sp_indexer_at t : t < n -> nth t (e_state_indexers sp_sim) (e_d_indexers sp_sim) = ix_at m p (S t).
Proof.
  intros Ht. cbn [e_state_indexers e_d_indexers sp_sim].
  rewrite (nth_indep _ (scalar 0%Z) ((fun t => ix_at m p (S t)) 0)) by (now rewrite map_length, seq_length).
  now rewrite (map_nth (fun t => ix_at m p (S t))), seq_nth.
Qed.

(* the recorded row of period t and agent a *)
Definition sp_row_value (t a : nat) : val := nth a (fst (fst (nth t (sim_results sp_sim) ([], [], ([], [], []))))) VUndef.
Definition sp_row_choice (t a : nat) : list nat * list nat * list nat :=
  nth a (snd (fst (nth t (sim_results sp_sim) ([], [], ([], [], []))))) ([], [], []).
Definition sp_row_states (t : nat) : S3 := snd (nth t (sim_results sp_sim) ([], [], ([], [], []))).

Lemma nth_map_seq'' {B} (f : nat -> B) k i d : i < k -> nth i (map f (seq 0 k)) d = f i.
Proof. intros H. rewrite (nth_indep _ d (f 0)) by (now rewrite map_length, seq_length). now rewrite map_nth, seq_nth. Qed.

(* the hypotheses about the trajectory, for period t *)
Definition sp_uf_at (t : nat) : list Q -> val * bool :=
  sp_uf t (if S t =? n then None else Some (nth (S t) (code_solve_sparse m p n dch cch) (scalar VUndef))) (ix_at m p (S t)).

Theorem every_simulated_row_with_filters_is_a_feasible_maximiser t a :
  t < n -> a < nag ->
  let '(stRs, stDst, stCst) := sp_states_at t in
  let keepA := keep_of m p t rs rc dst cst stRs stDst stCst in
  let colsA := data_colsA rc nag keepA stRs stDst in
  let colsC := data_colsC rc nag keepA stCst in
  (* format of the state columns, an admissible restricted choice for the agent, the model evaluates where the decision looks *)
  length stRs = length rs -> length stDst = length dst -> length stCst = length cst -> (colsA ++ colsC)%list <> [] ->
  (exists ci, in_bounds (sizes rc) ci /\ keepA a ci = true) ->
  S t < n ->
  (forall row dc cc, row < length (data_rows rc nag keepA) -> in_bounds (sizes dch) dc -> in_bounds (sizes cch) cc ->
     evaluates_at_ix m p (next_table_sparse m p n dch cch t) isr (rem_at m p (S t))
                     (env_of_vals6 t rs rc dst dch cst cch (agent_vals dch cch colsA colsC row dc cc))) ->
  let vnext := fun idx => VFin (next_table_sparse m p n dch cch t idx) in
  let sigma := agent_sigma rs dst cst stRs stDst stCst a in
  sp_row_states t = sp_states_at t /\
  veq (sp_row_value t a) (value_at m p t false vnext sigma) /\
  (sp_row_value t a <> VNegInf ->
   let '(ci, red, cidx) := sp_row_choice t a in
   in_bounds (sizes rc) ci /\ in_bounds (sizes dch) red /\ in_bounds (sizes cch) cidx /\
   feasible m p (sigma ++ (env_of_idx rc ci ++ env_of_idx dch red ++ env_of_idx cch cidx) ++ [(period_name, Qofnat t)])%list = true /\
   veq (objective m p false vnext (sigma ++ (env_of_idx rc ci ++ env_of_idx dch red ++ env_of_idx cch cidx) ++ [(period_name, Qofnat t)])%list)
       (sp_row_value t a)).
Proof.
  intros Ht Ha. destruct (sp_states_at t) as [[stRs stDst] stCst] eqn:Est. cbv zeta.
  intros L1 L2 L3 Hne Hex Ht' Heval.
  assert (Eres : nth t (sim_results sp_sim) ([], [], ([], [], []))
                 = (fst (sp_decide (stRs, stDst, stCst) t tt tt (Some (nth (S t) (code_solve_sparse m p n dch cch) (scalar VUndef))) (ix_at m p (S t)) tt),
                    snd (sp_decide (stRs, stDst, stCst) t tt tt (Some (nth (S t) (code_solve_sparse m p n dch cch) (scalar VUndef))) (ix_at m p (S t)) tt),
                    (stRs, stDst, stCst))).
  { rewrite (bundled_result_of_period sp_sim t) by (now rewrite sp_periods). fold (sp_states_at t). rewrite Est.
    unfold sim_decision. cbn [e_decide sp_sim]. rewrite (sp_lookup_at t Ht).
    replace (S t =? n) with false by (symmetry; apply Nat.eqb_neq; lia).
    change (nth t (map (fun t0 => ix_at m p (S t0)) (seq 0 n)) (scalar 0%Z)) with (nth t (e_state_indexers sp_sim) (e_d_indexers sp_sim)).
    rewrite (sp_indexer_at t Ht). cbn [e_grids e_policies sp_sim]. 
    replace (nth t (repeat tt n) tt) with tt by (now destruct (nth t (repeat tt n) tt)). reflexivity. }
  unfold sp_row_states, sp_row_value, sp_row_choice. rewrite Eres. cbn [fst snd].
  unfold sp_decide. cbn [fst snd]. rewrite !nth_map_seq'' by exact Ha.
  unfold sp_uf. rewrite (uf_code_sparse_arr_of_solved m p n dch cch Hnodup Hrs Hdisc Hnames Hsparse_name t Ht').
  pose proof (sparse_decision_on_the_data_space m p t (next_table_sparse m p n dch cch t) rs rc dst dch cst cch isr (rem_at m p (S t))
                Hperm Hnd Hall_names Hnds Hvalid
                (fun x Hx => Hfree x ltac:(rewrite !map_app in *; apply in_app_or in Hx; destruct Hx; repeat (apply in_or_app; (now left) || right); assumption))
                nag stRs stDst stCst L1 L2 L3 Hne Heval a Ha Hex) as [HV HM].
  split; [reflexivity|]. split; [exact HV|]. intros Hneq. destruct (HM Hneq) as (_ & H2 & H3 & H4 & H5 & H6). auto.
Qed.

Theorem every_simulated_row_with_filters_in_the_last_period_is_a_feasible_maximiser t a (vnext : list nat -> val) :
  t < n -> a < nag -> S t = n ->
  let '(stRs, stDst, stCst) := sp_states_at t in
  let keepA := keep_of m p t rs rc dst cst stRs stDst stCst in
  let colsA := data_colsA rc nag keepA stRs stDst in
  let colsC := data_colsC rc nag keepA stCst in
  length stRs = length rs -> length stDst = length dst -> length stCst = length cst -> (colsA ++ colsC)%list <> [] ->
  (exists ci, in_bounds (sizes rc) ci /\ keepA a ci = true) ->
  (forall row dc cc, row < length (data_rows rc nag keepA) -> in_bounds (sizes dch) dc -> in_bounds (sizes cch) cc ->
     exists u, eval_fun (depth m) m p (env_of_vals6 t rs rc dst dch cst cch (agent_vals dch cch colsA colsC row dc cc)) "utility" = Some u) ->
  let sigma := agent_sigma rs dst cst stRs stDst stCst a in
  sp_row_states t = sp_states_at t /\
  veq (sp_row_value t a) (value_at m p t true vnext sigma) /\
  (sp_row_value t a <> VNegInf ->
   let '(ci, red, cidx) := sp_row_choice t a in
   in_bounds (sizes rc) ci /\ in_bounds (sizes dch) red /\ in_bounds (sizes cch) cidx /\
   feasible m p (sigma ++ (env_of_idx rc ci ++ env_of_idx dch red ++ env_of_idx cch cidx) ++ [(period_name, Qofnat t)])%list = true /\
   veq (objective m p true vnext (sigma ++ (env_of_idx rc ci ++ env_of_idx dch red ++ env_of_idx cch cidx) ++ [(period_name, Qofnat t)])%list)
       (sp_row_value t a)).
Proof.
  intros Ht Ha Hlast. destruct (sp_states_at t) as [[stRs stDst] stCst] eqn:Est. cbv zeta.
  intros L1 L2 L3 Hne Hex Heval.
  assert (Eres : nth t (sim_results sp_sim) ([], [], ([], [], []))
                 = (fst (sp_decide (stRs, stDst, stCst) t tt tt None (ix_at m p (S t)) tt),
                    snd (sp_decide (stRs, stDst, stCst) t tt tt None (ix_at m p (S t)) tt),
                    (stRs, stDst, stCst))).
  { rewrite (bundled_result_of_period sp_sim t) by (now rewrite sp_periods). fold (sp_states_at t). rewrite Est.
    unfold sim_decision. cbn [e_decide sp_sim]. rewrite (sp_lookup_at t Ht).
    replace (S t =? n) with true by (symmetry; apply Nat.eqb_eq; lia).
    change (nth t (map (fun t0 => ix_at m p (S t0)) (seq 0 n)) (scalar 0%Z)) with (nth t (e_state_indexers sp_sim) (e_d_indexers sp_sim)).
    rewrite (sp_indexer_at t Ht). cbn [e_grids e_policies sp_sim].
    replace (nth t (repeat tt n) tt) with tt by (now destruct (nth t (repeat tt n) tt)). reflexivity. }
  unfold sp_row_states, sp_row_value, sp_row_choice. rewrite Eres. cbn [fst snd].
  unfold sp_decide. cbn [fst snd]. rewrite !nth_map_seq'' by exact Ha. unfold sp_uf.
  pose proof (sparse_last_decision_on_the_data_space m p t vnext rs rc dst dch cst cch Hperm Hnd Hall_names
                (fun x Hx => Hfree x ltac:(rewrite !map_app in *; apply in_app_or in Hx; destruct Hx; repeat (apply in_or_app; (now left) || right); assumption))
                nag stRs stDst stCst L1 L2 L3 Hne Heval a Ha Hex) as [HV HM].
  split; [reflexivity|]. split; [exact HV|]. intros Hneq. destruct (HM Hneq) as (_ & H2 & H3 & H4 & H5 & H6). auto.
Qed.

(* the trajectory: the states of t+1 are the law of motion applied to the states and the recorded choices of t *)
Theorem sparse_trajectory_of_the_states :
  sp_states_at 0 = initial /\
  forall t, t < n -> sp_states_at (S t) = trans (sp_states_at t) (snd (sim_decision sp_sim (sp_states_at t) t)) t (sim_draw_keys sp_sim t).
Proof. split; [reflexivity|]. intros t Ht. unfold sp_states_at. now rewrite (bundled_law_of_motion sp_sim t). Qed.
End SimulateAllSparse.

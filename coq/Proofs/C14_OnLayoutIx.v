(* Proofs/C14_OnLayoutIx.v — the function-representation capstone WITH filter-restricted states: on the *)
(* array that stores a finite table in the documented layout ([rank of the restricted-state combination   *)
(* among the remaining ones] ++ unrestricted discrete states ++ continuous states) together with the        *)
(* state indexer (restricted labels -> rank, -1 for combinations that do not remain), the function          *)
(* representation called with the next state's restricted labels, unrestricted discrete labels and          *)
(* continuous axes returns the value the specification's read returns -- provided the next state's          *)
(* restricted combination is one of the remaining ones (C01's supported class).                             *)
From Coq Require Import Lqa Lia.
From LCM Require Import Base.Prelude Base.Arr Base.QKernel Model.Ndimage Model.FunctionRepresentation.
From LCM Require Import Spec.Interp Spec.Lang Spec.Bellman Proofs.ArrLemmas Proofs.ArrLemmas2 Proofs.C14_FunRep Proofs.C14_Refine Proofs.C14_OnLayout.
Local Open Scope Q_scope.

Section Ix.
Variable isr : string -> bool.                      (* is the (discrete) state filter-restricted? *)

Fixpoint rsizes (sts : list (string * grid)) : list nat :=
  match sts with
  | [] => []
  | (s, GDisc n) :: r => if isr s then n :: rsizes r else rsizes r
  | (_, GLin _ _ _) :: r => rsizes r
  end.
Fixpoint fdsizes (sts : list (string * grid)) : list nat :=
  match sts with
  | [] => []
  | (s, GDisc n) :: r => if isr s then fdsizes r else n :: fdsizes r
  | (_, GLin _ _ _) :: r => fdsizes r
  end.

(* the index in declaration order from restricted labels, unrestricted discrete labels, continuous indices *)
Fixpoint merge3 (sts : list (string * grid)) (rl dl cidx : list nat) : list nat :=
  match sts with
  | [] => []
  | (s, GDisc _) :: r =>
      if isr s then match rl with k :: rl' => k :: merge3 r rl' dl cidx | [] => [] end
      else match dl with k :: dl' => k :: merge3 r rl dl' cidx | [] => [] end
  | (_, GLin _ _ _) :: r => match cidx with i :: ci' => i :: merge3 r rl dl ci' | [] => [] end
  end.

(* all discrete labels (declaration order) split into restricted and unrestricted ones *)
Fixpoint split_labels (sts : list (string * grid)) (dl_all : list nat) : list nat * list nat :=
  match sts with
  | [] => ([], [])
  | (s, GDisc _) :: r =>
      match dl_all with
      | k :: rest => let ab := split_labels r rest in if isr s then (k :: fst ab, snd ab) else (fst ab, k :: snd ab)
      | [] => ([], [])
      end
  | (_, GLin _ _ _) :: r => split_labels r dl_all
  end.

Lemma merge_is_merge3 : forall sts dl_all cidx, length dl_all = length (dsizes sts) ->
  merge sts dl_all cidx = merge3 sts (fst (split_labels sts dl_all)) (snd (split_labels sts dl_all)) cidx.
Proof.
  induction sts as [|[s g] r IH]; intros dl_all cidx H; [reflexivity|].
  destruct g as [n|a b n]; cbn [merge merge3 split_labels dsizes] in *.
  - destruct dl_all as [|k rest]; [discriminate|]. cbn [length] in H.
    destruct (isr s); cbn [fst snd]; f_equal; apply IH; lia.
  - destruct cidx as [|i ci]; [reflexivity|]. f_equal. now apply IH.
Qed.

Lemma split_bounds : forall sts dl_all, Forall2 (fun n k => (k < n)%nat) (dsizes sts) dl_all ->
  Forall2 (fun n k => (k < n)%nat) (rsizes sts) (fst (split_labels sts dl_all)) /\
  Forall2 (fun n k => (k < n)%nat) (fdsizes sts) (snd (split_labels sts dl_all)).
Proof.
  induction sts as [|[s g] r IH]; intros dl_all H; [split; constructor|].
  destruct g as [n|a b n]; cbn [dsizes rsizes fdsizes split_labels] in *; [|now apply IH].
  inversion H as [|? k ? rest Hk Hr]; subst. destruct (IH rest Hr) as [A B].
  destruct (isr s); cbn [fst snd]; split; try constructor; assumption.
Qed.

(* ---- the indexer and the array ----------------------------------------------------------------------- *)
Variable remaining : list (list nat).                (* the remaining restricted-label combinations, in order *)

Fixpoint list_eqb (a b : list nat) : bool :=
  match a, b with
  | [], [] => true
  | x :: a', y :: b' => (x =? y)%nat && list_eqb a' b'
  | _, _ => false
  end.
Lemma list_eqb_eq a : forall b, list_eqb a b = true <-> a = b.
Proof.
  induction a as [|x a IH]; intros [|y b]; simpl; split; intros H; try discriminate; try reflexivity.
  - apply andb_true_iff in H. destruct H as [E1 E2]. apply Nat.eqb_eq in E1. apply IH in E2. now subst.
  - injection H as -> ->. rewrite Nat.eqb_refl. now apply IH.
Qed.
Fixpoint find_pos (x : list nat) (l : list (list nat)) : option nat :=
  match l with
  | [] => None
  | y :: r => if list_eqb x y then Some 0%nat else match find_pos x r with Some i => Some (S i) | None => None end
  end.
Lemma find_pos_spec x : forall l, In x l -> exists i, find_pos x l = Some i /\ (i < length l)%nat /\ nth i l [] = x.
Proof.
  induction l as [|y r IH]; intros H; [contradiction|]. cbn [find_pos].
  destruct (list_eqb x y) eqn:E.
  - apply list_eqb_eq in E. subst. exists 0%nat. repeat split; simpl; lia.
  - destruct H as [->|H]; [rewrite (proj2 (list_eqb_eq x x) eq_refl) in E; discriminate|].
    destruct (IH H) as (i & Hi & Hl & Hn). exists (S i). rewrite Hi. repeat split; simpl; [lia|exact Hn].
Qed.

Definition indexer_array (sts : list (string * grid)) : arr Z :=
  tabulate (rsizes sts) (fun rl => match find_pos rl remaining with Some r => Z.of_nat r | None => (-1)%Z end).

Definition layout_array_ix (sts : list (string * grid)) (F : list nat -> Q) : arr Q :=
  tabulate (length remaining :: fdsizes sts ++ cont_sizes sts)
           (fun idx => match idx with
                       | r :: rest => F (merge3 sts (nth r remaining []) (firstn (length (fdsizes sts)) rest)
                                                (skipn (length (fdsizes sts)) rest))
                       | [] => 0
                       end).
End Ix.

Section OnLayoutIx.
Variable isr : string -> bool.
Variable remaining : list (list nat).
Variables (sts : list (string * grid)) (F : list nat -> Q) (vals : list Q) (q : Q) (dl_all : list nat).
Hypothesis Hvalid : grids_valid sts.
Hypothesis Hlen : length vals = length sts.
Hypothesis Hq : qread sts F vals = Some q.
Hypothesis Hd : disc_labels sts vals = Some dl_all.

Let rl := fst (split_labels isr sts dl_all).
Let dl := snd (split_labels isr sts dl_all).
(* the next state's restricted combination is one of those that remain *)
Hypothesis Hrem : In rl remaining.

Let vf := layout_array_ix isr remaining sts F.
Let ix := indexer_array isr remaining sts.
Let rlabels := map Z.of_nat rl.
Let dlabels := map Z.of_nat dl.

Lemma bounds_all : Forall2 (fun n k => (k < n)%nat) (dsizes sts) dl_all.
Proof. exact (disc_labels_bounds sts vals dl_all Hd). Qed.
Lemma bounds_r : Forall2 (fun n k => (k < n)%nat) (rsizes isr sts) rl.
Proof. exact (proj1 (split_bounds isr sts dl_all bounds_all)). Qed.
Lemma bounds_d : Forall2 (fun n k => (k < n)%nat) (fdsizes isr sts) dl.
Proof. exact (proj2 (split_bounds isr sts dl_all bounds_all)). Qed.

Lemma valid_labels (sh : list nat) (l : list nat) : Forall2 (fun n k => (k < n)%nat) sh l ->
  Forall2 (fun n i => (0 <= i < Z.of_nat n)%Z) sh (map Z.of_nat l).
Proof. induction 1 as [|n k s r H _ IH]; [constructor|]. cbn [map]. constructor; [lia|exact IH]. Qed.

Lemma to_nat_of_nat l : map Z.to_nat (map Z.of_nat l) = l.
Proof. rewrite map_map. rewrite <- (map_id l) at 2. apply map_ext. intros k. apply Nat2Z.id. Qed.

Lemma in_bounds_of_F2 sh l : Forall2 (fun n k => (k < n)%nat) sh l -> in_bounds sh l.
Proof. induction 1 as [|n k s r H _ IH]; [exact I|]. split; assumption. Qed.

Definition rank : nat := match find_pos rl remaining with Some r => r | None => 0%nat end.

Lemma rank_spec : find_pos rl remaining = Some rank /\ (rank < length remaining)%nat /\ nth rank remaining [] = rl.
Proof. unfold rank. destruct (find_pos_spec rl remaining Hrem) as (i & Hi & Hl & Hn). rewrite Hi. auto. Qed.

Lemma state_index_is_rank : state_index (Some ix) rlabels = [Z.of_nat rank].
Proof.
  unfold state_index. f_equal. unfold jax_lookup.
  assert (Lr : length rl = length (rsizes isr sts)) by (symmetry; exact (Forall2_len _ _ _ bounds_r)).
  assert (P : jax_positions (shape ix) rlabels = rl).
  { unfold ix, indexer_array. rewrite shape_tabulate. unfold rlabels.
    rewrite (jax_positions_in_range (rsizes isr sts) (map Z.of_nat rl)); [apply to_nat_of_nat|].
    rewrite map_length, Lr, firstn_all. apply valid_labels. exact bounds_r. }
  rewrite P. rewrite (get_subarr (-1)%Z ix rl []).
  - rewrite app_nil_r. unfold ix, indexer_array. rewrite get_tabulate by (apply in_bounds_of_F2; exact bounds_r).
    now rewrite (proj1 rank_spec).
  - unfold ix, indexer_array. rewrite shape_tabulate, Lr, skipn_all. exact I.
Qed.

Lemma dl_len : length dl = length (fdsizes isr sts).
Proof. symmetry. exact (Forall2_len _ _ _ bounds_d). Qed.

Lemma positions_ix : positions vf (Some ix) rlabels dlabels = rank :: dl.
Proof.
  unfold positions. rewrite state_index_is_rank. cbn [app]. unfold vf, layout_array_ix. rewrite shape_tabulate.
  rewrite jax_positions_in_range.
  - cbn [map]. rewrite Nat2Z.id. f_equal. apply to_nat_of_nat.
  - cbn [length firstn]. unfold dlabels. rewrite map_length, dl_len, firstn_app_exact by reflexivity.
    constructor; [destruct rank_spec as (_ & H & _); lia|]. apply valid_labels. exact bounds_d.
Qed.

Lemma cont_shape_ix : cont_shape vf (Some ix) rlabels dlabels = cont_sizes sts.
Proof.
  unfold cont_shape. rewrite positions_ix. unfold vf, layout_array_ix. rewrite shape_tabulate.
  cbn [length skipn]. apply skipn_app_exact. symmetry. apply dl_len.
Qed.

Lemma layout_ix cidx : in_bounds (cont_sizes sts) cidx ->
  get 0 vf (positions vf (Some ix) rlabels dlabels ++ cidx) == F (merge sts dl_all cidx).
Proof.
  intros Hc. rewrite positions_ix. cbn [app]. unfold vf, layout_array_ix. rewrite get_tabulate.
  - rewrite firstn_app_exact, skipn_app_exact by (apply dl_len). rewrite (proj2 (proj2 rank_spec)).
    rewrite (merge_is_merge3 isr sts dl_all cidx) by (symmetry; exact (Forall2_len _ _ _ bounds_all)). reflexivity.
  - split; [exact (proj1 (proj2 rank_spec))|]. apply in_bounds_app_F2; [exact bounds_d|exact Hc].
Qed.

Theorem function_representation_on_the_indexed_layout :
  vread sts (fun idx => VFin (F idx)) vals = VFin q /\
  function_representation vf (Some ix) rlabels dlabels (conts_of sts vals) == q.
Proof.
  split; [rewrite vread_finite; now rewrite Hq|].
  destruct (conts_of sts vals) as [|c0 cr] eqn:Ec.
  - assert (Hcs : cont_sizes sts = []).
    { pose proof (length_conts_of sts vals Hlen) as L. rewrite Ec in L. destruct (cont_sizes sts); [reflexivity|discriminate]. }
    rewrite <- Ec. apply (function_representation_discrete_only sts F vals q dl_all vf (Some ix) rlabels dlabels Hq Hd Hcs).
    + rewrite cont_shape_ix. exact Hcs.
    + rewrite <- (app_nil_r (positions vf (Some ix) rlabels dlabels)). apply layout_ix. rewrite Hcs. exact I.
  - rewrite <- Ec.
    apply (function_representation_is_spec_read sts F vals q dl_all vf (Some ix) rlabels dlabels Hvalid Hlen Hq Hd).
    + rewrite Ec. discriminate.
    + apply cont_shape_ix.
    + apply layout_ix.
Qed.
End OnLayoutIx.

(* Proofs/C03_WeightFunc.v — the regenerated stochastic weight function (Gen/WeightFunc.v) selects   *)
(* the row the specification selects: the labels of the dependencies in the order of the next          *)
(* function's own signature index the leading axes of the variable's transition array.                 *)
From LCM Require Import Base.Prelude Base.Arr Spec.Lang Spec.Bellman Gen.WeightFunc.
Local Open Scope Q_scope.

Lemma omap_map {A B C} (f : B -> option C) (g : A -> B) l : omap f (map g l) = omap (fun x => f (g x)) l.
Proof. induction l as [|x r IH]; [reflexivity|]. cbn [map omap]. now rewrite IH. Qed.

Theorem weight_func_is_spec_weight_row m p e s f a :
  find_fun m ("next_" ++ s) = Some f -> assoc s (shocks p) = Some a ->
  weight_func (fargs f) a e = weight_row m p e s.
Proof.
  intros Hf Ha. unfold weight_func, row_at, weight_row. rewrite Hf, Ha. cbn [obind]. now rewrite omap_map.
Qed.

(* Proofs/C02_SparseDecision.v — ONE SIMULATED DECISION WITH FILTER-RESTRICTED CHOICES: the rows of the data space are    *)
(* the stored (agent, restricted-choice combination) pairs; the dense discrete arg-max is taken per row, the segment        *)
(* arg-max over the rows of every agent; the reported value is the specification's value of the agent's state and the        *)
(* reported choices (the restricted ones of the chosen row, the dense and continuous ones at that row) attain it.            *)
From Coq Require Import Lqa Lia Permutation.
From LCM Require Import Base.Prelude Base.Arr Base.ArrOps Model.Dispatchers Model.DispatchersG
                        Gen.Argmax Gen.CCV Gen.ChoiceAxes Gen.SimulateKernels.
From LCM Require Import Spec.Lang Spec.Bellman Proofs.ArrLemmas Proofs.ArrLemmas2 Proofs.Spec_Algebra
                        Proofs.C11_Affine Proofs.C11_Horizon Proofs.C10_Rewrite Proofs.C10_Choices Proofs.C18_Segment Proofs.Refine_StateSpace
                        Proofs.C01_Compose Proofs.C01_MaxCompose Proofs.C01_Period Proofs.C01_Agents Proofs.C01_Sparse Proofs.C02_Decision.
Local Open Scope nat_scope.

Lemma keys_of_env_of_idx vars idx : length idx = length vars -> map fst (env_of_idx vars idx) = map fst vars.
Proof.
  revert idx. induction vars as [|[x g] r IH]; intros [|k i] H; try discriminate; [reflexivity|].
  cbn [env_of_idx combine map fst]. f_equal. apply IH. simpl in H. lia.
Qed.

Section SparseDecision.
Variables (m : model) (p : params) (t : nat) (last : bool) (vnext : list nat -> val).
Variables (rs rc dst dch cst cch : list (string * grid)).
Hypothesis Hperm : Permutation (rc ++ dch ++ cch) (choices m).
Hypothesis Hnd : NoDup (map fst (choices m)).
Hypothesis Hnames : NoDup (map fst (rs ++ rc ++ dst ++ cst ++ dch ++ cch) ++ [period_name]).
Variable uf : list Q -> val * bool.
Hypothesis Hdef : forall vals, defined (fst (uf vals)).
(* the rows of the data space: one column per sparse variable (restricted states, restricted choices, free discrete states),
   one per continuous state *)
Let dstR := ((rs ++ rc) ++ dst)%list.
Variables (nrows : nat) (colsA colsC : list (list Q)).
Hypothesis HlA : length colsA = length dstR.
Hypothesis HlC : length colsC = length cst.
Hypothesis Hformat : Forall (fun c : list Q => length c = nrows) (colsA ++ colsC).
Hypothesis Hne : (colsA ++ colsC)%list <> [].
Hypothesis Hpoint : forall row dc cc, row < nrows -> in_bounds (sizes dch) dc -> in_bounds (sizes cch) cc ->
  snd (uf (agent_vals dch cch colsA colsC row dc cc)) = feasible m p (agent_env t dstR dch cst cch colsA colsC row dc cc) /\
  (feasible m p (agent_env t dstR dch cst cch colsA colsC row dc cc) = true ->
   veq (fst (uf (agent_vals dch cch colsA colsC row dc cc))) (objective m p last vnext (agent_env t dstR dch cst cch colsA colsC row dc cc))).
(* the segments: one per agent *)
Variables (ids : list nat) (num : nat).
Hypothesis Hids : length ids = nrows.

Definition decision_s := calculate_discrete_argmax (ccv_arr dstR dch cst cch uf colsA colsC) (sim_choice_axes dch) (Some (ids, num)).
Let value_rows : arr val := snd (decision_g dstR dch cst cch uf colsA colsC).
Let sa := segment_argmax value_rows ids num.

Lemma decision_s_unfold : decision_s = (fst (fst (decision_g dstR dch cst cch uf colsA colsC)), Some (fst sa), snd sa).
Proof. unfold decision_s, sa, value_rows, decision_g, calculate_discrete_argmax. destruct (sim_choice_axes dch); reflexivity. Qed.

Definition value_agent (a : nat) : val := get VUndef (snd decision_s) [a].
Definition row_agent (a : nat) : nat := match snd (fst decision_s) with Some x => get 0 x [a] | None => 0 end.

Let G := decision_rows_general m p t last vnext dstR dch cst cch uf Hdef nrows colsA colsC HlA HlC Hformat Hne Hpoint.

Lemma value_rows_wf : wf value_rows /\ shape value_rows = nrows :: [].
Proof. exact (proj1 G). Qed.

Lemma value_rows_entry row : row < nrows -> get VUndef value_rows [row] = value_g dstR dch cst cch uf colsA colsC row.
Proof. reflexivity. Qed.

Lemma value_rows_defined : Forall defined (data value_rows).
Proof.
  destruct value_rows_wf as [W S]. apply Forall_forall. intros x Hx. destruct (In_nth _ _ VUndef Hx) as (k & Hk & <-).
  unfold wf in W. rewrite S in W. cbn [size] in W. rewrite Nat.mul_1_r in W. rewrite W in Hk.
  assert (E : nth k (data value_rows) VUndef = get VUndef value_rows [k]).
  { unfold get. rewrite S. cbn [ravel size]. f_equal. lia. }
  rewrite E, (value_rows_entry k Hk). exact (proj1 (proj2 (proj2 G k Hk))).
Qed.

(* --- one agent --- *)
Section Agent.
Variables (a : nat) (vRs vDst vCst : list Q) (keep : list nat -> bool) (ci_of : nat -> list nat).
Hypothesis Ha : a < num.
Hypothesis HvRs : length vRs = length rs.
Hypothesis HvDst : length vDst = length dst.
Hypothesis HvCst : length vCst = length cst.
Definition sigma_agent : env := (combine (map fst rs) vRs ++ combine (map fst dst) vDst ++ combine (map fst cst) vCst)%list.
Definition row_is (row : nat) (ci : list nat) : Prop :=
  at_row colsA row = ((vRs ++ map snd (env_of_idx rc ci)) ++ vDst)%list /\ at_row colsC row = vCst.
Hypothesis Hrows : forall row, In row (rows_of_segment ids a) -> in_bounds (sizes rc) (ci_of row) /\ row_is row (ci_of row).
Hypothesis Hstored : forall ci, in_bounds (sizes rc) ci -> keep ci = true -> exists row, In row (rows_of_segment ids a) /\ ci_of row = ci.
Hypothesis Hdropped : forall ci dc cidx, in_bounds (sizes rc) ci -> in_bounds (sizes dch) dc -> in_bounds (sizes cch) cidx ->
  keep ci = false ->
  feasible m p (sigma_agent ++ (env_of_idx rc ci ++ env_of_idx dch dc ++ env_of_idx cch cidx) ++ [(period_name, Qofnat t)])%list = false.
Hypothesis Hnonempty : rows_of_segment ids a <> [].

Lemma row_lt row : In row (rows_of_segment ids a) -> row < nrows.
Proof. intros H. apply in_rows in H. lia. Qed.

(* the environment of a row is that of the agent with the row's restricted choices *)
Lemma row_env_equiv row ci dc cidx : row_is row ci -> in_bounds (sizes rc) ci -> in_bounds (sizes dch) dc -> in_bounds (sizes cch) cidx ->
  env_equiv (agent_env t dstR dch cst cch colsA colsC row dc cidx)
            (sigma_agent ++ (env_of_idx rc ci ++ env_of_idx dch dc ++ env_of_idx cch cidx) ++ [(period_name, Qofnat t)])%list.
Proof.
  intros [EA EC] Hci Hdc Hcc a0. unfold agent_env, agent_state, sigma_agent. rewrite EA, EC. unfold dstR.
  rewrite !map_app.
  rewrite (combine_app (map fst rs ++ map fst rc) (vRs ++ map snd (env_of_idx rc ci)) (map fst dst) vDst)
    by (rewrite !app_length, !map_length, HvRs, (length_env_of_idx rc ci); [reflexivity|rewrite (in_bounds_length _ _ Hci); unfold sizes; now rewrite map_length]).
  rewrite (combine_app (map fst rs) vRs (map fst rc) (map snd (env_of_idx rc ci))) by (now rewrite map_length).
  rewrite combine_names_vals by (rewrite (in_bounds_length _ _ Hci); unfold sizes; now rewrite map_length).
  set (Ers := combine (map fst rs) vRs). set (Erc := env_of_idx rc ci). set (Edst := combine (map fst dst) vDst).
  set (Ecst := combine (map fst cst) vCst). set (T := ((env_of_idx dch dc ++ env_of_idx cch cidx) ++ [(period_name, Qofnat t)])%list).
  assert (P : Permutation ((((Ers ++ Erc) ++ Edst) ++ Ecst) ++ T) ((Ers ++ Edst ++ Ecst) ++ (Erc ++ env_of_idx dch dc ++ env_of_idx cch cidx) ++ [(period_name, Qofnat t)])).
  { unfold T. rewrite <- !app_assoc. apply Permutation_app_head.
    eapply Permutation_trans; [apply Permutation_app_swap_app|]. apply Permutation_app_head. apply Permutation_app_swap_app. }
  apply (assoc_perm a0 _ _ P).
  (* the keys are the variable names and the period *)
  unfold T, Ers, Erc, Edst, Ecst. rewrite !map_app.
  rewrite (map_fst_combine (map fst rs) vRs), (map_fst_combine (map fst dst) vDst), (map_fst_combine (map fst cst) vCst) by (now rewrite map_length).
  assert (L : forall vars idx, in_bounds (sizes vars) idx -> length idx = length vars).
  { intros vars idx H. rewrite (in_bounds_length _ _ H). unfold sizes. now rewrite map_length. }
  rewrite (keys_of_env_of_idx rc ci (L _ _ Hci)), (keys_of_env_of_idx dch dc (L _ _ Hdc)), (keys_of_env_of_idx cch cidx (L _ _ Hcc)).
  cbn [map fst]. pose proof Hnames as N. rewrite !map_app in N. rewrite <- !app_assoc in *. exact N.
Qed.

Definition agent_cands (ci : list nat) : list val :=
  flat_map (fun dc => map (cand3 m p t last vnext sigma_agent rc dch cch ci dc) (indices (sizes cch))) (indices (sizes dch)).

Lemma row_value row ci : row < nrows -> row_is row ci -> in_bounds (sizes rc) ci ->
  veq (value_g dstR dch cst cch uf colsA colsC row) (vmaxl (agent_cands ci)).
Proof.
  intros Hr Hrow Hci. destruct (proj2 G row Hr) as (Hv & _ & _). eapply veq_trans; [exact Hv|].
  unfold cond_max, agent_cands. rewrite vmaxl_flat_map. apply vmaxl_compat. apply Forall2_map_in. intros dc Hdc. apply in_indices in Hdc.
  apply vmaxl_compat. apply Forall2_map_in. intros cidx Hc. apply in_indices in Hc.
  unfold spec_cand, cand3. cbv zeta. fold (agent_env t dstR dch cst cch colsA colsC row dc cidx).
  rewrite (feasible_env m p _ _ (row_env_equiv row ci dc cidx Hrow Hci Hdc Hc)),
          (objective_env m p _ _ (row_env_equiv row ci dc cidx Hrow Hci Hdc Hc) last vnext).
  reflexivity.
Qed.

Lemma value_agent_is_segment_max :
  value_agent a = vmaxl (map (fun row => get VUndef value_rows [row]) (rows_of_segment ids a)).
Proof.
  unfold value_agent. rewrite decision_s_unfold. cbn [snd]. unfold sa.
  destruct value_rows_wf as [W S].
  rewrite (seg_get_max value_rows ids num nrows [] S a [] Ha I). reflexivity.
Qed.

(* (1) the reported value of the agent is the specification's value of the agent's state *)
Theorem agent_value_is_the_specifications : veq (value_agent a) (value_at m p t last vnext sigma_agent).
Proof.
  rewrite value_agent_is_segment_max.
  rewrite (value_at_three_groups m p t last vnext sigma_agent rc dch cch Hperm Hnd).
  change (flat_map _ (indices (sizes rc))) with (flat_map agent_cands (indices (sizes rc))).
  (* every row's value is the maximum of its candidates *)
  eapply veq_trans.
  { apply vmaxl_compat. apply (Forall2_map_in _ (fun row => vmaxl (agent_cands (ci_of row)))). intros row Hrow.
    rewrite (value_rows_entry row (row_lt row Hrow)). destruct (Hrows row Hrow) as [Hci Hr].
    exact (row_value row (ci_of row) (row_lt row Hrow) Hr Hci). }
  rewrite <- (vmaxl_flat_map (fun row => agent_cands (ci_of row))).
  apply vmaxl_same_values_up_to_neginf.
  - intros x Hx. right. apply in_flat_map in Hx. destruct Hx as (row & Hrow & Hx). exists x. split; [|reflexivity].
    apply in_flat_map. exists (ci_of row). split; [apply in_indices; exact (proj1 (Hrows row Hrow))|exact Hx].
  - intros y Hy. apply in_flat_map in Hy. destruct Hy as (ci & Hci & Hy). apply in_indices in Hci.
    destruct (keep ci) eqn:Ek.
    + right. destruct (Hstored ci Hci Ek) as (row & Hrow & Er). exists y. split; [|reflexivity].
      apply in_flat_map. exists row. split; [exact Hrow|]. now rewrite Er.
    + left. unfold agent_cands in Hy. apply in_flat_map in Hy. destruct Hy as (dc & Hdc & Hy). apply in_map_iff in Hy.
      destruct Hy as (cidx & <- & Hc). apply in_indices in Hdc. apply in_indices in Hc.
      unfold cand3. cbv zeta. now rewrite (Hdropped ci dc cidx Hci Hdc Hc Ek).
Qed.

(* (2) the chosen row is a row of the agent; its restricted choices together with the dense and continuous choices read at
   that row are admissible and attain the reported value *)
Theorem agent_choice_is_a_maximiser : value_agent a <> VNegInf ->
  let row := row_agent a in
  let ci := ci_of row in
  let red := red_g dstR dch cst cch uf colsA colsC row in
  let cidx := unravel (sizes cch) (cont_argmax_g dstR dch cst cch uf colsA colsC row) in
  In row (rows_of_segment ids a) /\ in_bounds (sizes rc) ci /\ in_bounds (sizes dch) red /\ in_bounds (sizes cch) cidx /\
  feasible m p (sigma_agent ++ (env_of_idx rc ci ++ env_of_idx dch red ++ env_of_idx cch cidx) ++ [(period_name, Qofnat t)])%list = true /\
  veq (objective m p last vnext (sigma_agent ++ (env_of_idx rc ci ++ env_of_idx dch red ++ env_of_idx cch cidx) ++ [(period_name, Qofnat t)])%list)
      (value_agent a).
Proof.
  intros HM. cbv zeta.
  destruct value_rows_wf as [W S].
  destruct (segment_argmax_spec value_rows ids num nrows [] W value_rows_defined S Hids a [] Ha I Hnonempty) as (_ & _ & Hin & Hatt & _).
  assert (Ev : value_agent a = get VUndef (snd (segment_argmax value_rows ids num)) [a])
    by (unfold value_agent; now rewrite decision_s_unfold).
  assert (Er : row_agent a = get 0 (fst (segment_argmax value_rows ids num)) [a])
    by (unfold row_agent; now rewrite decision_s_unfold).
  rewrite <- Ev, <- Er in *. set (row := row_agent a) in *.
  apply veqb_num_veq in Hatt. rewrite (value_rows_entry row (row_lt row Hin)) in Hatt.
  destruct (Hrows row Hin) as [Hci Hrow].
  assert (Hne' : value_g dstR dch cst cch uf colsA colsC row <> VNegInf).
  { intros E. rewrite E in Hatt. destruct (value_agent a); simpl in Hatt; contradiction. }
  destruct (proj2 (proj2 (proj2 G row (row_lt row Hin))) Hne') as (Hred & Hcb & Hf & Ho).
  set (red := red_g dstR dch cst cch uf colsA colsC row) in *.
  set (cidx := unravel (sizes cch) (cont_argmax_g dstR dch cst cch uf colsA colsC row)) in *.
  split; [exact Hin|]. split; [exact Hci|]. split; [exact Hred|]. split; [exact Hcb|].
  rewrite <- (feasible_env m p _ _ (row_env_equiv row (ci_of row) red cidx Hrow Hci Hred Hcb)),
          <- (objective_env m p _ _ (row_env_equiv row (ci_of row) red cidx Hrow Hci Hred Hcb) last vnext).
  split; [exact Hf|]. eapply veq_trans; [exact Ho|exact Hatt].
Qed.
End Agent.
End SparseDecision.

(* ---- with the regenerated u_and_f at every (row, choice) point -------------------------------------------------------------- *)
Section SparseDecisionOfTheCode.
Variables (m : model) (p : params) (t : nat) (rs rc dst dch cst cch : list (string * grid)).
Hypothesis Hnames : NoDup (map fst (rs ++ rc ++ dst ++ cst ++ dch ++ cch) ++ [period_name]).
Variables (nrows : nat) (colsA colsC : list (list Q)).
Hypothesis HlA : length colsA = length ((rs ++ rc) ++ dst).
Hypothesis HlC : length colsC = length cst.

(* the three parts of a row's sparse columns *)
Definition rowRs (row : nat) : list Q := firstn (length rs) (at_row colsA row).
Definition rowRc (row : nat) : list Q := firstn (length rc) (skipn (length rs) (at_row colsA row)).
Definition rowDst (row : nat) : list Q := skipn (length rc) (skipn (length rs) (at_row colsA row)).

Lemma row_parts row : at_row colsA row = (rowRs row ++ rowRc row ++ rowDst row)%list /\
  length (rowRs row) = length rs /\ length (rowRc row) = length rc /\ length (rowDst row) = length dst.
Proof.
  unfold rowRs, rowRc, rowDst.
  assert (L : length (at_row colsA row) = length rs + length rc + length dst) by (unfold at_row; rewrite map_length, HlA, !app_length; lia).
  split; [now rewrite !firstn_skipn|]. rewrite !firstn_length, !skipn_length. lia.
Qed.

Lemma env6_of_row row dc cc : in_bounds (sizes dch) dc -> in_bounds (sizes cch) cc ->
  env_equiv (env_of_vals6 t rs rc dst dch cst cch (agent_vals dch cch colsA colsC row dc cc))
            (agent_env t ((rs ++ rc) ++ dst) dch cst cch colsA colsC row dc cc).
Proof.
  intros Hdc Hcc a0.
  assert (L : forall vars idx, in_bounds (sizes vars) idx -> length idx = length vars).
  { intros vars idx H. rewrite (in_bounds_length _ _ H). unfold sizes. now rewrite map_length. }
  destruct (row_parts row) as (EA & L1 & L2 & L3).
  assert (LC : length (at_row colsC row) = length cst) by (unfold at_row; now rewrite map_length).
  unfold env_of_vals6, agent_vals, agent_env, agent_state. cbv zeta. rewrite EA, <- !app_assoc.
  destruct (firstn_skipn_app (rowRs row) (rowRc row ++ rowDst row ++ map snd (env_of_idx dch dc) ++ at_row colsC row ++ map snd (env_of_idx cch cc)) (length rs) L1) as [E1 E2]. rewrite E1, E2.
  destruct (firstn_skipn_app (rowRc row) (rowDst row ++ map snd (env_of_idx dch dc) ++ at_row colsC row ++ map snd (env_of_idx cch cc)) (length rc) L2) as [E3 E4]. rewrite E3, E4.
  destruct (firstn_skipn_app (rowDst row) (map snd (env_of_idx dch dc) ++ at_row colsC row ++ map snd (env_of_idx cch cc)) (length dst) L3) as [E5 E6]. rewrite E5, E6.
  destruct (firstn_skipn_app (map snd (env_of_idx dch dc)) (at_row colsC row ++ map snd (env_of_idx cch cc)) (length dch)) as [E7 E8];
    [rewrite map_length; apply length_env_of_idx; now apply L|]. rewrite E7, E8.
  destruct (firstn_skipn_app (at_row colsC row) (map snd (env_of_idx cch cc)) (length cst) LC) as [E9 E10]. rewrite E9, E10.
  rewrite !combine_names_vals by (now apply L). rewrite !map_app. rewrite <- ?app_assoc.
  rewrite (combine_app (map fst rs) (rowRs row) (map fst rc ++ map fst dst) (rowRc row ++ rowDst row)) by (now rewrite map_length).
  rewrite (combine_app (map fst rc) (rowRc row) (map fst dst) (rowDst row)) by (now rewrite map_length).
  set (Ers := combine (map fst rs) (rowRs row)). set (Erc := combine (map fst rc) (rowRc row)). set (Edst := combine (map fst dst) (rowDst row)).
  set (Ecst := combine (map fst cst) (at_row colsC row)). set (Edch := env_of_idx dch dc). set (Ecch := env_of_idx cch cc).
  assert (P : Permutation (Ers ++ Erc ++ Edst ++ Ecst ++ Edch ++ Ecch ++ [(period_name, Qofnat t)])
                          (Ers ++ Edst ++ Ecst ++ Erc ++ Edch ++ Ecch ++ [(period_name, Qofnat t)])).
  { apply Permutation_app_head.
    eapply Permutation_trans; [apply Permutation_app_swap_app|]. apply Permutation_app_head. apply Permutation_app_swap_app. }
  symmetry. rewrite <- ?app_assoc. apply (assoc_perm a0 _ _ P).
  unfold Ers, Erc, Edst, Ecst, Edch, Ecch. rewrite !map_app.
  rewrite (map_fst_combine (map fst rs) (rowRs row)), (map_fst_combine (map fst rc) (rowRc row)), (map_fst_combine (map fst dst) (rowDst row)),
          (map_fst_combine (map fst cst) (at_row colsC row)) by (now rewrite map_length).
  rewrite (keys_of_env_of_idx dch dc (L _ _ Hdc)), (keys_of_env_of_idx cch cc (L _ _ Hcc)).
  cbn [map fst]. pose proof Hnames as N. rewrite !map_app in N. rewrite <- !app_assoc in *. exact N.
Qed.
End SparseDecisionOfTheCode.

From LCM Require Import Proofs.C14_Refine.

Theorem sparse_decision_generic :
  forall (m : model) (p : params) (t : nat) (last : bool) (vnext : list nat -> val) (rs rc dst dch cst cch : list (string * grid)),
  Permutation (rc ++ dch ++ cch) (choices m) -> NoDup (map fst (choices m)) ->
  NoDup (map fst (rs ++ rc ++ dst ++ cst ++ dch ++ cch) ++ [period_name]) ->
  forall (uf : list Q -> val * bool), (forall vals, defined (fst (uf vals))) ->
  forall (nrows : nat) (colsA colsC : list (list Q)),
  length colsA = length ((rs ++ rc) ++ dst) -> length colsC = length cst ->
  Forall (fun c : list Q => length c = nrows) (colsA ++ colsC) -> (colsA ++ colsC)%list <> [] ->
  (* at every (row, choice) point the function returns the specification's feasibility and objective of the bound environment *)
  (forall row dc cc, row < nrows -> in_bounds (sizes dch) dc -> in_bounds (sizes cch) cc ->
     let e := env_of_vals6 t rs rc dst dch cst cch (agent_vals dch cch colsA colsC row dc cc) in
     snd (uf (agent_vals dch cch colsA colsC row dc cc)) = feasible m p e /\
     (feasible m p e = true -> veq (fst (uf (agent_vals dch cch colsA colsC row dc cc))) (objective m p last vnext e))) ->
  forall (ids : list nat) (num : nat), length ids = nrows ->
  (* one agent: its rows are its kept restricted-choice combinations *)
  forall (a : nat) (vRs vDst vCst : list Q) (keep : list nat -> bool) (ci_of : nat -> list nat),
  a < num -> length vRs = length rs -> length vDst = length dst -> length vCst = length cst ->
  (forall row, In row (rows_of_segment ids a) ->
     in_bounds (sizes rc) (ci_of row) /\ row_is rc colsA colsC vRs vDst vCst row (ci_of row)) ->
  (forall ci, in_bounds (sizes rc) ci -> keep ci = true -> exists row, In row (rows_of_segment ids a) /\ ci_of row = ci) ->
  (forall ci dc cidx, in_bounds (sizes rc) ci -> in_bounds (sizes dch) dc -> in_bounds (sizes cch) cidx -> keep ci = false ->
     feasible m p (sigma_agent rs dst cst vRs vDst vCst ++ (env_of_idx rc ci ++ env_of_idx dch dc ++ env_of_idx cch cidx) ++ [(period_name, Qofnat t)])%list = false) ->
  rows_of_segment ids a <> [] ->
  let sigma := sigma_agent rs dst cst vRs vDst vCst in
  let V := value_agent rs rc dst dch cst cch uf colsA colsC ids num a in
  veq V (value_at m p t last vnext sigma) /\
  (V <> VNegInf ->
   let row := row_agent rs rc dst dch cst cch uf colsA colsC ids num a in
   let ci := ci_of row in
   let red := red_g ((rs ++ rc) ++ dst) dch cst cch uf colsA colsC row in
   let cidx := unravel (sizes cch) (cont_argmax_g ((rs ++ rc) ++ dst) dch cst cch uf colsA colsC row) in
   In row (rows_of_segment ids a) /\ in_bounds (sizes rc) ci /\ in_bounds (sizes dch) red /\ in_bounds (sizes cch) cidx /\
   feasible m p (sigma ++ (env_of_idx rc ci ++ env_of_idx dch red ++ env_of_idx cch cidx) ++ [(period_name, Qofnat t)])%list = true /\
   veq (objective m p last vnext (sigma ++ (env_of_idx rc ci ++ env_of_idx dch red ++ env_of_idx cch cidx) ++ [(period_name, Qofnat t)])%list) V).
Proof.
  intros m p t last vnext rs rc dst dch cst cch Hperm Hnd Hnames uf Hdef nrows colsA colsC HlA HlC Hformat Hne Hpt6
         ids num Hids a vRs vDst vCst keep ci_of Ha H1 H2 H3 Hrows Hstored Hdropped Hnonempty sigma V.
  assert (Hpoint : forall row dc cc, row < nrows -> in_bounds (sizes dch) dc -> in_bounds (sizes cch) cc ->
    snd (uf (agent_vals dch cch colsA colsC row dc cc)) = feasible m p (agent_env t ((rs ++ rc) ++ dst) dch cst cch colsA colsC row dc cc) /\
    (feasible m p (agent_env t ((rs ++ rc) ++ dst) dch cst cch colsA colsC row dc cc) = true ->
     veq (fst (uf (agent_vals dch cch colsA colsC row dc cc))) (objective m p last vnext (agent_env t ((rs ++ rc) ++ dst) dch cst cch colsA colsC row dc cc)))).
  { intros row dc cc Hr Hdc Hcc. destruct (Hpt6 row dc cc Hr Hdc Hcc) as [Ef Ev]. cbv zeta in Ef, Ev.
    pose proof (env6_of_row t rs rc dst dch cst cch Hnames colsA colsC HlA HlC row dc cc Hdc Hcc) as EQ.
    rewrite <- (feasible_env m p _ _ EQ), <- (objective_env m p _ _ EQ last vnext). split; assumption. }
  split.
  - exact (agent_value_is_the_specifications m p t last vnext rs rc dst dch cst cch Hperm Hnd Hnames uf Hdef nrows colsA colsC HlA HlC Hformat Hne Hpoint
             ids num Hids a vRs vDst vCst keep ci_of Ha H1 H2 H3 Hrows Hstored Hdropped).
  - exact (agent_choice_is_a_maximiser m p t last vnext rs rc dst dch cst cch Hnames uf Hdef nrows colsA colsC HlA HlC Hformat Hne Hpoint
             ids num Hids a vRs vDst vCst ci_of Ha H1 H2 H3 Hrows Hnonempty).
Qed.

Theorem sparse_decision_of_the_code_is_optimal :
  forall (m : model) (p : params) (t : nat) (F : list nat -> Q) (rs rc dst dch cst cch : list (string * grid))
         (isr : string -> bool) (remaining : list (list nat)),
  Permutation (rc ++ dch ++ cch) (choices m) -> NoDup (map fst (choices m)) ->
  NoDup (map fst (rs ++ rc ++ dst ++ cst ++ dch ++ cch) ++ [period_name]) ->
  NoDup (map fst (states m)) -> grids_valid (states m) ->
  forall (nrows : nat) (colsA colsC : list (list Q)),
  length colsA = length ((rs ++ rc) ++ dst) -> length colsC = length cst ->
  Forall (fun c : list Q => length c = nrows) (colsA ++ colsC) -> (colsA ++ colsC)%list <> [] ->
  let uf := uf_code_sparse m p t F rs rc dst dch cst cch isr remaining in
  (* the model evaluates at every (row, choice) point the decision looks at *)
  (forall row dc cc, row < nrows -> in_bounds (sizes dch) dc -> in_bounds (sizes cch) cc ->
     evaluates_at_ix m p F isr remaining (env_of_vals6 t rs rc dst dch cst cch (agent_vals dch cch colsA colsC row dc cc))) ->
  forall (ids : list nat) (num : nat), length ids = nrows ->
  (* one agent: its rows are its kept restricted-choice combinations *)
  forall (a : nat) (vRs vDst vCst : list Q) (keep : list nat -> bool) (ci_of : nat -> list nat),
  a < num -> length vRs = length rs -> length vDst = length dst -> length vCst = length cst ->
  (forall row, In row (rows_of_segment ids a) ->
     in_bounds (sizes rc) (ci_of row) /\ row_is rc colsA colsC vRs vDst vCst row (ci_of row)) ->
  (forall ci, in_bounds (sizes rc) ci -> keep ci = true -> exists row, In row (rows_of_segment ids a) /\ ci_of row = ci) ->
  (forall ci dc cidx, in_bounds (sizes rc) ci -> in_bounds (sizes dch) dc -> in_bounds (sizes cch) cidx -> keep ci = false ->
     feasible m p (sigma_agent rs dst cst vRs vDst vCst ++ (env_of_idx rc ci ++ env_of_idx dch dc ++ env_of_idx cch cidx) ++ [(period_name, Qofnat t)])%list = false) ->
  rows_of_segment ids a <> [] ->
  let vnext := fun idx => VFin (F idx) in
  let sigma := sigma_agent rs dst cst vRs vDst vCst in
  let V := value_agent rs rc dst dch cst cch uf colsA colsC ids num a in
  veq V (value_at m p t false vnext sigma) /\
  (V <> VNegInf ->
   let row := row_agent rs rc dst dch cst cch uf colsA colsC ids num a in
   let ci := ci_of row in
   let red := red_g ((rs ++ rc) ++ dst) dch cst cch uf colsA colsC row in
   let cidx := unravel (sizes cch) (cont_argmax_g ((rs ++ rc) ++ dst) dch cst cch uf colsA colsC row) in
   In row (rows_of_segment ids a) /\ in_bounds (sizes rc) ci /\ in_bounds (sizes dch) red /\ in_bounds (sizes cch) cidx /\
   feasible m p (sigma ++ (env_of_idx rc ci ++ env_of_idx dch red ++ env_of_idx cch cidx) ++ [(period_name, Qofnat t)])%list = true /\
   veq (objective m p false vnext (sigma ++ (env_of_idx rc ci ++ env_of_idx dch red ++ env_of_idx cch cidx) ++ [(period_name, Qofnat t)])%list) V).
Proof.
  intros m p t F rs rc dst dch cst cch isr remaining Hperm Hnd Hnames Hnds Hvalid nrows colsA colsC HlA HlC Hformat Hne uf Heval.
  apply (sparse_decision_generic m p t false (fun idx => VFin (F idx)) rs rc dst dch cst cch Hperm Hnd Hnames uf); try assumption.
  - intros vals. unfold uf, uf_code_sparse. cbv zeta. cbn [fst]. discriminate.
  - intros row dc cc Hr Hdc Hcc. cbv zeta. unfold uf, uf_code_sparse. cbv zeta. cbn [fst snd].
    destruct (uf_code_sparse_at m p t F isr remaining Hnds Hvalid _ (Heval row dc cc Hr Hdc Hcc)) as [Ef Ev]. cbv zeta in Ef, Ev.
    split; [exact Ef|]. intros _. exact Ev.
Qed.

(* the last period *)
Theorem sparse_last_decision_of_the_code_is_optimal :
  forall (m : model) (p : params) (t : nat) (vnext : list nat -> val) (rs rc dst dch cst cch : list (string * grid)),
  Permutation (rc ++ dch ++ cch) (choices m) -> NoDup (map fst (choices m)) ->
  NoDup (map fst (rs ++ rc ++ dst ++ cst ++ dch ++ cch) ++ [period_name]) ->
  forall (nrows : nat) (colsA colsC : list (list Q)),
  length colsA = length ((rs ++ rc) ++ dst) -> length colsC = length cst ->
  Forall (fun c : list Q => length c = nrows) (colsA ++ colsC) -> (colsA ++ colsC)%list <> [] ->
  let uf := uf_code_sparse_last m p t rs rc dst dch cst cch in
  (forall row dc cc, row < nrows -> in_bounds (sizes dch) dc -> in_bounds (sizes cch) cc ->
     exists u, eval_fun (depth m) m p (env_of_vals6 t rs rc dst dch cst cch (agent_vals dch cch colsA colsC row dc cc)) "utility" = Some u) ->
  forall (ids : list nat) (num : nat), length ids = nrows ->
  forall (a : nat) (vRs vDst vCst : list Q) (keep : list nat -> bool) (ci_of : nat -> list nat),
  a < num -> length vRs = length rs -> length vDst = length dst -> length vCst = length cst ->
  (forall row, In row (rows_of_segment ids a) ->
     in_bounds (sizes rc) (ci_of row) /\ row_is rc colsA colsC vRs vDst vCst row (ci_of row)) ->
  (forall ci, in_bounds (sizes rc) ci -> keep ci = true -> exists row, In row (rows_of_segment ids a) /\ ci_of row = ci) ->
  (forall ci dc cidx, in_bounds (sizes rc) ci -> in_bounds (sizes dch) dc -> in_bounds (sizes cch) cidx -> keep ci = false ->
     feasible m p (sigma_agent rs dst cst vRs vDst vCst ++ (env_of_idx rc ci ++ env_of_idx dch dc ++ env_of_idx cch cidx) ++ [(period_name, Qofnat t)])%list = false) ->
  rows_of_segment ids a <> [] ->
  let sigma := sigma_agent rs dst cst vRs vDst vCst in
  let V := value_agent rs rc dst dch cst cch uf colsA colsC ids num a in
  veq V (value_at m p t true vnext sigma) /\
  (V <> VNegInf ->
   let row := row_agent rs rc dst dch cst cch uf colsA colsC ids num a in
   let ci := ci_of row in
   let red := red_g ((rs ++ rc) ++ dst) dch cst cch uf colsA colsC row in
   let cidx := unravel (sizes cch) (cont_argmax_g ((rs ++ rc) ++ dst) dch cst cch uf colsA colsC row) in
   In row (rows_of_segment ids a) /\ in_bounds (sizes rc) ci /\ in_bounds (sizes dch) red /\ in_bounds (sizes cch) cidx /\
   feasible m p (sigma ++ (env_of_idx rc ci ++ env_of_idx dch red ++ env_of_idx cch cidx) ++ [(period_name, Qofnat t)])%list = true /\
   veq (objective m p true vnext (sigma ++ (env_of_idx rc ci ++ env_of_idx dch red ++ env_of_idx cch cidx) ++ [(period_name, Qofnat t)])%list) V).
Proof.
  intros m p t vnext rs rc dst dch cst cch Hperm Hnd Hnames nrows colsA colsC HlA HlC Hformat Hne uf Heval.
  apply (sparse_decision_generic m p t true vnext rs rc dst dch cst cch Hperm Hnd Hnames uf); try assumption.
  - intros vals. unfold uf, uf_code_sparse_last. cbv zeta. cbn [fst]. discriminate.
  - intros row dc cc Hr Hdc Hcc. cbv zeta. unfold uf, uf_code_sparse_last, Gen.ModelFunctions.u_and_f_last. cbv zeta. cbn [fst snd].
    split; [reflexivity|]. intros _. destruct (Heval row dc cc Hr Hdc Hcc) as (u & Hu). unfold objective, u_of. rewrite Hu. reflexivity.
Qed.

(* Proofs/C04_Choice.v — the inverse-CDF draw: the drawn index is in range, has positive       *)
(* probability, and k is drawn exactly when total*(1-u) falls into (cum_{k-1}, cum_k];          *)
(* the draw keys of a simulation are pairwise distinct.                                         *)
From Coq Require Import Lqa.
From LCM Require Import Base.Prelude Model.RandomChoice Proofs.QLemmas.
Local Open Scope Q_scope.

Definition total (p : list Q) : Q := fold_right Qplus 0 p.
(* cumulative sum up to and including index k *)
Definition cum (p : list Q) (k : nat) : Q := total (firstn (S k) p).

Lemma total_cons x l : total (x :: l) = x + total l.
Proof. reflexivity. Qed.

Lemma searchsorted_spec : forall a v acc0,
  (* a = cumsum acc0 p for nonnegative p: nondecreasing, all >= acc0 *)
  forall p, a = cumsum acc0 p -> Forall (fun x => 0 <= x) p ->
  let k := searchsorted_left a v in
  (k < length p)%nat ->
  v <= acc0 + total (firstn (S k) p) /\
  (forall j, (j < k)%nat -> acc0 + total (firstn (S j) p) < v).
Proof.
  intros a v acc0 p. revert a acc0. induction p as [|x r IH]; intros a acc0 Ha Hnn k Hk.
  - simpl in Hk. lia.
  - subst a. simpl in k. inversion Hnn as [|? ? Hx Hr]; subst.
    unfold k in *. clear k. simpl searchsorted_left in *.
    destruct (Qleb v (acc0 + x)) eqn:E.
    + apply Qleb_le in E. split.
      * change (firstn 1 (x :: r)) with [x]. rewrite total_cons. change (total []) with 0. lra.
      * intros j Hj. lia.
    + assert (Hlt : acc0 + x < v).
      { destruct (Qlt_le_dec (acc0 + x) v) as [L|L]; [exact L|]. apply Qleb_le in L. congruence. }
      simpl in Hk. assert (Hk' : (searchsorted_left (cumsum (acc0 + x) r) v < length r)%nat) by lia.
      destruct (IH _ (acc0 + x) eq_refl Hr Hk') as [H1 H2].
      split.
      * change (firstn (S (S (searchsorted_left (cumsum (acc0 + x) r) v))) (x :: r))
          with (x :: firstn (S (searchsorted_left (cumsum (acc0 + x) r) v)) r).
        rewrite total_cons. lra.
      * intros [|j] Hj.
        -- change (firstn 1 (x :: r)) with [x]. rewrite total_cons. change (total []) with 0. lra.
        -- change (firstn (S (S j)) (x :: r)) with (x :: firstn (S j) r). rewrite total_cons.
           assert (acc0 + x + total (firstn (S j) r) < v) by (apply H2; lia).
           lra.
Qed.

Lemma last_cumsum p : forall acc, p <> [] -> last (cumsum acc p) 0 == acc + total p.
Proof.
  induction p as [|x r IH]; intros acc H; [congruence|].
  destruct r as [|y r'].
  - simpl. lra.
  - change (last (cumsum acc (x :: y :: r')) 0) with (last (cumsum (acc + x) (y :: r')) 0).
    rewrite IH by discriminate. simpl. lra.
Qed.

Lemma searchsorted_in_range : forall p acc v, Forall (fun x => 0 <= x) p ->
  v <= acc + total p -> p <> [] -> (searchsorted_left (cumsum acc p) v < length p)%nat.
Proof.
  induction p as [|x r IH]; intros acc v Hnn Hv Hne; [congruence|].
  inversion Hnn as [|? ? Hx Hr]; subst. simpl.
  destruct (Qleb v (acc + x)) eqn:E; [lia|].
  assert (Hlt : acc + x < v).
  { destruct (Qlt_le_dec (acc + x) v) as [L|L]; [exact L|]. apply Qleb_le in L. congruence. }
  destruct r as [|y r'].
  - simpl in Hv. lra.
  - assert ((searchsorted_left (cumsum (acc + x) (y :: r')) v < length (y :: r'))%nat).
    { apply IH; [exact Hr| |discriminate]. simpl in *. lra. }
    lia.
Qed.

Lemma total_firstn_S p : forall k, (k < length p)%nat ->
  total (firstn (S k) p) == total (firstn k p) + nth k p 0.
Proof.
  induction p as [|x r IH]; intros k Hk; [simpl in Hk; lia|].
  destruct k as [|k].
  - change (firstn 1 (x :: r)) with [x]. change (firstn 0 (x :: r)) with (@nil Q).
    rewrite total_cons. change (total []) with 0. cbn [nth]. lra.
  - change (firstn (S (S k)) (x :: r)) with (x :: firstn (S k) r).
    change (firstn (S k) (x :: r)) with (x :: firstn k r).
    rewrite !total_cons. cbn [nth]. assert (Hk2 : (k < length r)%nat) by (simpl in Hk; lia).
    pose proof (IH k Hk2) as E. lra.
Qed.

Theorem choice_spec p u :
  Forall (fun x => 0 <= x) p -> 0 < total p -> 0 <= u -> u < 1 ->
  let k := choice p u in
  (k < length p)%nat /\
  0 < nth k p 0 /\
  total (firstn k p) < total p * (1 - u) /\ total p * (1 - u) <= total (firstn (S k) p).
Proof.
  intros Hnn Htot Hu0 Hu1 k.
  assert (Hne : p <> []) by (intro E; subst; simpl in Htot; lra).
  unfold k, choice.
  set (v := last (cumsum 0 p) 0 * (1 - u)).
  assert (Ev : v == total p * (1 - u)).
  { unfold v. rewrite last_cumsum by exact Hne. lra. }
  assert (Hvpos : 0 < v).
  { rewrite Ev. apply Qmult_lt_0_compat; lra. }
  assert (Hvle : v <= 0 + total p).
  { rewrite Ev. assert (total p * (1 - u) <= total p * 1) by (apply Qmult_le_l; lra). lra. }
  pose proof (searchsorted_in_range p 0 v Hnn Hvle Hne) as Hk.
  destruct (searchsorted_spec (cumsum 0 p) v 0 p eq_refl Hnn Hk) as [H1 H2].
  set (kk := searchsorted_left (cumsum 0 p) v) in *.
  assert (Hbelow : total (firstn kk p) < v).
  { destruct kk as [|j] eqn:Ek; [simpl; exact Hvpos|].
    specialize (H2 j). assert (0 + total (firstn (S j) p) < v) by (apply H2; lia). lra. }
  split; [exact Hk|]. split.
  - pose proof (total_firstn_S p kk Hk) as E. lra.
  - rewrite <- Ev. split; [exact Hbelow|lra].
Qed.

(* ---- keys ---------------------------------------------------------------------------------- *)
Lemma sim_keys_nth : forall n_periods k n_ids t j, (t < n_periods)%nat -> (j < n_ids)%nat ->
  nth j (nth t (sim_keys k n_ids n_periods) []) [] = (k ++ repeat 0%nat t ++ [S j])%list.
Proof.
  induction n_periods as [|T IH]; intros k n_ids t j Ht Hj; [lia|].
  simpl sim_keys. unfold period_keys, split. cbn [seq map hd tl].
  destruct t as [|t].
  - simpl nth at 2. simpl repeat. rewrite app_nil_l.
    rewrite (nth_indep _ [] ((fun i => (k ++ [i])%list) 0%nat)) by (now rewrite map_length, seq_length).
    rewrite (map_nth (fun i => (k ++ [i])%list)), seq_nth by exact Hj. reflexivity.
  - cbn [nth]. rewrite IH by lia. simpl repeat. now rewrite <- app_assoc.
Qed.

Theorem draw_keys_injective k0 n_ids t j i t' j' i' :
  (j < n_ids)%nat -> (j' < n_ids)%nat ->
  draw_key k0 n_ids t j i = draw_key k0 n_ids t' j' i' -> t = t' /\ j = j' /\ i = i'.
Proof.
  intros Hj Hj'. unfold draw_key. rewrite !sim_keys_nth by lia.
  rewrite <- !app_assoc. intros E. apply app_inv_head in E.
  revert t' E. induction t as [|t IH]; intros [|t'] E; simpl in E.
  - injection E as E1 E2. repeat split; auto. 
  - discriminate.
  - discriminate.
  - injection E as E. destruct (IH t' E) as (-> & -> & ->). auto.
Qed.

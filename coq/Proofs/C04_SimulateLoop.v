(* Proofs/C04_SimulateLoop.v — the forward loop of lcm.simulate.simulate as regenerated from the    *)
(* source (Gen/Simulate.v): one result per period holding the states the agents were in, the          *)
(* decisions taken there with that period's own components and the value array of the NEXT period,    *)
(* states moved by next_state with that period's draw keys; the keys form the split tree of           *)
(* Model/RandomChoice.v and depend on the seed only.                                                  *)
From Coq Require Import List Arith Lia.
Import ListNotations.
From LCM Require Import Base.Prelude Model.RandomChoice Gen.Simulate.
Local Open Scope nat_scope.

Lemma fold_left_ext' {A B} (f g : A -> B -> A) l : (forall a b, f a b = g a b) -> forall i, fold_left f l i = fold_left g l i.
Proof. intros H. induction l as [|x r IH]; intros i; simpl; [reflexivity|]. now rewrite H, IH. Qed.

(* ---- a loop that carries a state and appends one output per iteration --------------------------- *)
Section Trajectory.
Context {St Out : Type} (stepf : St -> nat -> St) (outf : St -> nat -> Out).

Fixpoint iter_from (a n : nat) (st : St) : St :=
  match n with O => st | S n' => iter_from (S a) n' (stepf st a) end.

Definition loop_step (acc : St * list Out) (p : nat) : St * list Out :=
  (stepf (fst acc) p, snd acc ++ [outf (fst acc) p]).

Lemma fold_trajectory : forall n a st rs,
  fold_left loop_step (seq a n) (st, rs)
  = (iter_from a n st, rs ++ map (fun j => outf (iter_from a j st) (a + j)) (seq 0 n)).
Proof.
  induction n as [|n IH]; intros a st rs; [simpl; now rewrite app_nil_r|].
  cbn [seq fold_left]. unfold loop_step at 2. cbn [fst snd]. rewrite IH. cbn [iter_from map].
  rewrite <- app_assoc. cbn [app]. rewrite Nat.add_0_r.
  f_equal. f_equal. f_equal. rewrite <- seq_shift, map_map. apply map_ext. intros j.
  now rewrite Nat.add_succ_r.
Qed.

Lemma iter_from_S a n st : iter_from a (S n) st = stepf (iter_from a n st) (a + n).
Proof.
  revert a st. induction n as [|n IH]; intros a st; [simpl; now rewrite Nat.add_0_r|].
  change (iter_from a (S (S n)) st) with (iter_from (S a) (S n) (stepf st a)). rewrite IH.
  simpl. now rewrite Nat.add_succ_r.
Qed.
End Trajectory.

Section Loop.
Variables T_params T_states T_choices T_value T_arr T_indexers T_policy T_grids : Type.
Variables (d_grids : T_grids) (d_policy : T_policy) (d_indexers : T_indexers).
Variable prng_key : nat -> key.
Variable n_stochastic : nat.
Variable solve_model : T_params -> list T_arr.
Variable decide : T_states -> nat -> T_grids -> T_policy -> option T_arr -> T_indexers -> T_params -> T_value * T_choices.
Variable next_state : T_states -> T_choices -> nat -> T_params -> list key -> T_states.
Variable remove_next_prefix : T_states -> T_states.
Variables (params : T_params) (initial_states : T_states) (state_indexers : list T_indexers)
          (grids : list T_grids) (policies : list T_policy) (vf_arr_list : option (list T_arr)) (seed : nat).

Let results := simulate_loop T_params T_states T_choices T_value T_arr T_indexers T_policy T_grids d_grids d_policy
  d_indexers prng_key n_stochastic solve_model decide next_state remove_next_prefix
  params initial_states state_indexers grids policies vf_arr_list seed.

(* the solved arrays that are used: given, or computed by solve_model *)
Definition solved : list T_arr := match vf_arr_list with Some l => l | None => solve_model params end.
(* what period t looks up: the array of period t+1, nothing in the last period *)
Definition lookup_arrays : list (option T_arr) := map Some (tl solved) ++ [None].
Definition n_periods : nat := length lookup_arrays.

Definition decision (st : T_states) (t : nat) : T_value * T_choices :=
  decide st t (nth t grids d_grids) (nth t policies d_policy) (nth t lookup_arrays None)
         (nth t state_indexers d_indexers) params.

(* (states, key) from one period to the next *)
Definition move (sk : T_states * key) (t : nat) : T_states * key :=
  let '(st, k) := sk in
  let '(k', ks) := generate_simulation_keys k n_stochastic in
  (remove_next_prefix (next_state st (snd (decision st t)) t params ks), k').

Definition at_period (t : nat) : T_states * key := iter_from move 0 t (initial_states, prng_key seed).

Definition record (sk : T_states * key) (t : nat) : T_value * T_choices * T_states :=
  (fst (decision (fst sk) t), snd (decision (fst sk) t), fst sk).

Lemma simulate_loop_closed_form : results = map (fun t => record (at_period t) t) (seq 0 n_periods).
Proof.
  unfold results, simulate_loop. cbv zeta. fold solved. fold lookup_arrays. fold n_periods.
  erewrite (fold_left_ext' _ (fun acc p => let '(sk, rs) := loop_step move record (fst (fst acc), snd (fst acc), snd acc) p in
                                            (fst sk, snd sk, rs))).
  2:{ intros [[st k] rs] p. unfold loop_step, move, record, decision. cbn [fst snd].
      destruct (decide st p _ _ _ _ params) as [v c]. destruct (generate_simulation_keys k n_stochastic) as [k' ks].
      reflexivity. }
  set (F := fun (acc : T_states * key * list (T_value * T_choices * T_states)) (p : nat) =>
              let '(sk, rs0) := loop_step move record (fst (fst acc), snd (fst acc), snd acc) p in (fst sk, snd sk, rs0)).
  assert (HF : forall st k rs x, F (st, k, rs) x = (fst (move (st, k) x), snd (move (st, k) x), rs ++ [record (st, k) x]))
    by reflexivity.
  assert (G : forall l st k rs,
            fold_left F l (st, k, rs)
            = let '(sk, rs') := fold_left (loop_step move record) l ((st, k), rs) in (fst sk, snd sk, rs')).
  { induction l as [|x r IH]; intros st k rs; [reflexivity|]. cbn [fold_left]. rewrite HF.
    change (loop_step move record (st, k, rs) x) with (move (st, k) x, rs ++ [record (st, k) x]).
    destruct (move (st, k) x) as [st' k']. cbn [fst snd]. apply IH. }
  rewrite G, fold_trajectory. cbn [app]. reflexivity.
Qed.

Theorem one_result_per_period : length results = n_periods.
Proof. rewrite simulate_loop_closed_form. now rewrite map_length, seq_length. Qed.

Theorem n_periods_is_number_of_solved_arrays : solved <> [] -> n_periods = length solved.
Proof.
  intros H. unfold n_periods, lookup_arrays. rewrite app_length, map_length. destruct solved; [contradiction|]. simpl. lia.
Qed.

Theorem result_of_period t d : t < n_periods -> nth t results d = record (at_period t) t.
Proof.
  intros H. rewrite simulate_loop_closed_form.
  rewrite (nth_indep _ d (record (at_period 0) 0)) by (now rewrite map_length, seq_length).
  change (record (at_period 0) 0) with ((fun t => record (at_period t) t) 0).
  rewrite map_nth, seq_nth by exact H. reflexivity.
Qed.

(* the states of period 0 are the initial states; those of period t+1 are next_state of period t *)
Theorem states_of_period_0 : fst (at_period 0) = initial_states.
Proof. reflexivity. Qed.

Theorem states_move_by_next_state t :
  fst (at_period (S t))
  = remove_next_prefix (next_state (fst (at_period t)) (snd (decision (fst (at_period t)) t)) t params
                                   (snd (generate_simulation_keys (snd (at_period t)) n_stochastic))).
Proof.
  unfold at_period. rewrite iter_from_S. cbn [plus]. unfold move at 1.
  destruct (iter_from move 0 t (initial_states, prng_key seed)) as [st k]. cbn [fst snd].
  destruct (generate_simulation_keys k n_stochastic) as [k' ks]. reflexivity.
Qed.

(* the array looked up in period t is the solved array of period t+1 *)
Lemma nth_map_lt2 {A B} (f : A -> B) l j d d' : j < length l -> nth j (map f l) d = f (nth j l d').
Proof. revert j. induction l as [|x r IH]; intros [|j] H; simpl in *; try lia; auto. apply IH. lia. Qed.

Theorem lookup_is_next_periods_array t d : S t < length solved -> nth t lookup_arrays None = Some (nth (S t) solved d).
Proof.
  intros H. unfold lookup_arrays. destruct solved as [|x r]; [simpl in H; lia|]. cbn [tl]. simpl in H.
  rewrite app_nth1 by (rewrite map_length; lia). rewrite (nth_map_lt2 Some r t None d) by lia. reflexivity.
Qed.

Theorem no_lookup_in_the_last_period : solved <> [] -> nth (length solved - 1) lookup_arrays None = None.
Proof.
  intros H. unfold lookup_arrays. destruct solved as [|x r]; [contradiction|]. cbn [tl length]. 
  rewrite app_nth2 by (rewrite map_length; lia). rewrite map_length. replace (S (length r) - 1 - length r) with 0 by lia. reflexivity.
Qed.

(* ---- keys ----------------------------------------------------------------------------------------- *)
Lemma generate_is_period_keys k : generate_simulation_keys k n_stochastic = period_keys k n_stochastic.
Proof. unfold generate_simulation_keys, period_keys. now rewrite Nat.add_1_r. Qed.

(* the carried key after t periods depends on the seed only *)
Fixpoint carried_key (t : nat) : key :=
  match t with O => prng_key seed | S t' => fst (period_keys (carried_key t') n_stochastic) end.

Theorem key_of_period t : snd (at_period t) = carried_key t.
Proof.
  induction t as [|t IH]; [reflexivity|]. unfold at_period. rewrite iter_from_S. cbn [plus]. fold (at_period t).
  destruct (at_period t) as [st k]. cbn [snd] in IH. subst k. unfold move. rewrite generate_is_period_keys.
  cbn [carried_key]. destruct (period_keys (carried_key t) n_stochastic) as [k' ks]. reflexivity.
Qed.

Lemma iter_shift (f : key -> key) t k : Nat.iter t f (f k) = Nat.iter (S t) f k.
Proof. induction t as [|t IH]; [reflexivity|]. change (Nat.iter (S t) f (f k)) with (f (Nat.iter t f (f k))). now rewrite IH. Qed.

Lemma sim_keys_nth : forall t T k, t < T ->
  nth t (sim_keys k n_stochastic T) [] = snd (period_keys (Nat.iter t (fun k0 => fst (period_keys k0 n_stochastic)) k) n_stochastic).
Proof.
  induction t as [|t IH]; intros T k H; destruct T as [|T]; try lia; cbn [sim_keys].
  - change (Nat.iter 0 (fun k0 => fst (period_keys k0 n_stochastic)) k) with k.
    destruct (period_keys k n_stochastic) as [k' ids]. reflexivity.
  - destruct (period_keys k n_stochastic) as [k' ids] eqn:E. cbn [nth]. rewrite IH by lia.
    replace k' with (fst (period_keys k n_stochastic)) by (now rewrite E).
    now rewrite (iter_shift (fun k0 => fst (period_keys k0 n_stochastic)) t k).
Qed.

Lemma carried_key_iter t : carried_key t = Nat.iter t (fun k0 => fst (period_keys k0 n_stochastic)) (prng_key seed).
Proof. induction t as [|t IH]; [reflexivity|]. cbn [carried_key Nat.iter]. now rewrite IH. Qed.

(* the draw keys handed to next_state in period t are those of the split tree of the hand model *)
Theorem draw_keys_of_period t T : t < T ->
  snd (generate_simulation_keys (snd (at_period t)) n_stochastic) = nth t (sim_keys (prng_key seed) n_stochastic T) [].
Proof. intros H. rewrite key_of_period, generate_is_period_keys, sim_keys_nth by exact H. now rewrite carried_key_iter. Qed.
End Loop.

(* ---- the same statements with everything the loop is parameterised by bundled into one record ---- *)
Record sim_env := {
  E_params : Type; E_states : Type; E_choices : Type; E_value : Type; E_arr : Type; E_indexers : Type;
  E_policy : Type; E_grids : Type;
  e_d_grids : E_grids; e_d_policy : E_policy; e_d_indexers : E_indexers;
  e_prng_key : nat -> key;                     (* jax.random.PRNGKey *)
  e_n_stochastic : nat;                        (* number of stochastic transition functions *)
  e_solve_model : E_params -> list E_arr;
  e_decide : E_states -> nat -> E_grids -> E_policy -> option E_arr -> E_indexers -> E_params -> E_value * E_choices;
  e_next_state : E_states -> E_choices -> nat -> E_params -> list key -> E_states;
  e_remove_next_prefix : E_states -> E_states;
  e_params : E_params; e_initial_states : E_states; e_state_indexers : list E_indexers;
  e_grids : list E_grids; e_policies : list E_policy; e_vf_arr_list : option (list E_arr); e_seed : nat }.

Section Bundled.
Variable E : sim_env.
Definition sim_results : list (E_value E * E_choices E * E_states E) :=
  simulate_loop _ _ _ _ _ _ _ _ (e_d_grids E) (e_d_policy E) (e_d_indexers E) (e_prng_key E) (e_n_stochastic E)
    (e_solve_model E) (e_decide E) (e_next_state E) (e_remove_next_prefix E) (e_params E) (e_initial_states E)
    (e_state_indexers E) (e_grids E) (e_policies E) (e_vf_arr_list E) (e_seed E).
Definition sim_solved : list (E_arr E) := solved _ _ (e_solve_model E) (e_params E) (e_vf_arr_list E).
Definition sim_lookup : list (option (E_arr E)) := lookup_arrays _ _ (e_solve_model E) (e_params E) (e_vf_arr_list E).
Definition sim_n_periods : nat := n_periods _ _ (e_solve_model E) (e_params E) (e_vf_arr_list E).
(* states and carried key at the beginning of period t *)
Definition sim_at (t : nat) : E_states E * key :=
  at_period _ _ _ _ _ _ _ _ (e_d_grids E) (e_d_policy E) (e_d_indexers E) (e_prng_key E) (e_n_stochastic E)
    (e_solve_model E) (e_decide E) (e_next_state E) (e_remove_next_prefix E) (e_params E) (e_initial_states E)
    (e_state_indexers E) (e_grids E) (e_policies E) (e_vf_arr_list E) (e_seed E) t.
(* the decision taken in period t at given states: period t's own grids, policy function and indexers, the
   value array of period t+1 *)
Definition sim_decision (st : E_states E) (t : nat) : E_value E * E_choices E :=
  e_decide E st t (nth t (e_grids E) (e_d_grids E)) (nth t (e_policies E) (e_d_policy E)) (nth t sim_lookup None)
           (nth t (e_state_indexers E) (e_d_indexers E)) (e_params E).
Definition sim_draw_keys (t : nat) : list key := snd (generate_simulation_keys (snd (sim_at t)) (e_n_stochastic E)).

Theorem bundled_one_result_per_period : length sim_results = sim_n_periods.
Proof. apply one_result_per_period. Qed.

Theorem bundled_result_of_period t d : t < sim_n_periods ->
  nth t sim_results d = (fst (sim_decision (fst (sim_at t)) t), snd (sim_decision (fst (sim_at t)) t), fst (sim_at t)).
Proof. intros H. unfold sim_results. rewrite result_of_period by exact H. reflexivity. Qed.

Theorem bundled_initial_states : fst (sim_at 0) = e_initial_states E.
Proof. reflexivity. Qed.

Theorem bundled_law_of_motion t :
  fst (sim_at (S t)) = e_remove_next_prefix E (e_next_state E (fst (sim_at t)) (snd (sim_decision (fst (sim_at t)) t)) t
                                                 (e_params E) (sim_draw_keys t)).
Proof. apply states_move_by_next_state. Qed.

Theorem bundled_lookup_next t d : S t < length sim_solved -> nth t sim_lookup None = Some (nth (S t) sim_solved d).
Proof. apply lookup_is_next_periods_array. Qed.

Theorem bundled_no_lookup_last : sim_solved <> [] -> nth (length sim_solved - 1) sim_lookup None = None.
Proof. apply no_lookup_in_the_last_period. Qed.

Theorem bundled_n_periods : sim_solved <> [] -> sim_n_periods = length sim_solved.
Proof. apply n_periods_is_number_of_solved_arrays. Qed.

Theorem bundled_draw_keys t T : t < T ->
  sim_draw_keys t = nth t (sim_keys (e_prng_key E (e_seed E)) (e_n_stochastic E) T) [].
Proof. intros H. unfold sim_draw_keys, sim_at. now apply draw_keys_of_period. Qed.
End Bundled.

(* the key sequence does not depend on anything but the seed and the number of stochastic variables *)
Theorem bundled_keys_depend_on_seed_only (E E' : sim_env) t :
  e_prng_key E (e_seed E) = e_prng_key E' (e_seed E') -> e_n_stochastic E = e_n_stochastic E' ->
  sim_draw_keys E t = sim_draw_keys E' t.
Proof. intros H1 H2. rewrite (bundled_draw_keys E t (S t)), (bundled_draw_keys E' t (S t)) by lia. now rewrite H1, H2. Qed.

(* Proofs/C15_Lin.v — linear grids: the translated coordinate function inverts the *)
(* grid, is strictly monotone, and interpolating the grid at it is the identity;    *)
(* integer coordinates and extrapolation of the interpolant.                        *)
From Coq Require Import Lqa Setoid Morphisms.
From LCM Require Import Base.Prelude Base.Arr Base.QKernel Gen.GridHelpersQ.
From LCM Require Import Spec.Interp Proofs.QLemmas.
Local Open Scope Q_scope.
Set Implicit Arguments.

Lemma Qofnat_ge2 n : (2 <= n)%nat -> 1 <= Qofnat n - 1.
Proof.
  intros H. unfold Qofnat.
  assert (2 <= inject_Z (Z.of_nat n)).
  { change 2 with (inject_Z 2). rewrite <- Zle_Qle. lia. }
  lra.
Qed.

Lemma lin_coord_is_spec a b n v : a < b -> (2 <= n)%nat ->
  get_linspace_coordinate v a b (Z.of_nat n) == spec_lin_coord a b n v.
Proof.
  intros Hab Hn. unfold get_linspace_coordinate, spec_lin_coord.
  pose proof (Qofnat_ge2 Hn) as H1. unfold Qofnat in *.
  rewrite inject_Z_minus. change (inject_Z 1) with 1.
  field. split; lra.
Qed.

Theorem lin_coord_of_point a b n i : a < b -> (2 <= n)%nat ->
  get_linspace_coordinate (lin_point a b n i) a b (Z.of_nat n) == i.
Proof.
  intros Hab Hn. rewrite lin_coord_is_spec by assumption.
  unfold spec_lin_coord, lin_point. pose proof (Qofnat_ge2 Hn) as H1.
  field. split; lra.
Qed.

Theorem lin_point_of_coord a b n v : a < b -> (2 <= n)%nat ->
  lin_point a b n (get_linspace_coordinate v a b (Z.of_nat n)) == v.
Proof.
  intros Hab Hn. unfold lin_point. rewrite lin_coord_is_spec by assumption.
  unfold spec_lin_coord. pose proof (Qofnat_ge2 Hn) as H1.
  field. split; lra.
Qed.

Theorem lin_coord_strictly_monotone a b n v1 v2 : a < b -> (2 <= n)%nat -> v1 < v2 ->
  get_linspace_coordinate v1 a b (Z.of_nat n) < get_linspace_coordinate v2 a b (Z.of_nat n).
Proof.
  intros Hab Hn Hv. rewrite !lin_coord_is_spec by assumption.
  unfold spec_lin_coord. pose proof (Qofnat_ge2 Hn) as H1.
  unfold Qdiv. apply Qmult_lt_compat_r.
  - apply Qinv_lt_0_compat. lra.
  - apply Qmult_lt_compat_r; lra.
Qed.

(* interpolating the grid's own points at any coordinate c gives lin_point c:
   one-dimensional interp of an affine node function is that affine function *)
Lemma interp1_affine (p q : Q) (n : nat) (c : Q) :
  interp (fun idx => match idx with [i] => p + Qofnat i * q | _ => 0 end) [n] [c] == p + c * q.
Proof.
  cbn [interp]. unfold cell_w. set (lo := cell_lo c n).
  unfold Qofnat. rewrite inject_Z_of_nat_S. ring.
Qed.

Theorem lin_interp_grid_is_identity a b n v : a < b -> (2 <= n)%nat ->
  interp (fun idx => match idx with [i] => lin_point a b n (Qofnat i) | _ => 0 end) [n]
         [get_linspace_coordinate v a b (Z.of_nat n)] == v.
Proof.
  intros Hab Hn.
  rewrite <- (lin_point_of_coord v Hab Hn) at 2.
  unfold lin_point at 2. rewrite <- interp1_affine with (n := n).
  reflexivity.
Qed.

(* ---- integer coordinates --------------------------------------------------------- *)
Lemma cell_at_node i n : (2 <= n)%nat -> (i < n)%nat ->
  (cell_lo (Qofnat i) n = i /\ cell_w (Qofnat i) n == 0) \/
  (i = (n - 1)%nat /\ cell_lo (Qofnat i) n = (n - 2)%nat /\ cell_w (Qofnat i) n == 1).
Proof.
  intros Hn Hi. unfold cell_w, cell_lo, Qofnat. rewrite Qfloor_inject_Z. unfold Zclip.
  destruct (Nat.eq_dec i (n - 1)) as [E|E].
  - right. split; [exact E|].
    assert (HL : Z.min (Z.max (Z.of_nat i) 0) (Z.of_nat n - 2) = (Z.of_nat n - 2)%Z) by lia.
    rewrite HL. split; [lia|].
    rewrite Z2Nat.id by lia. rewrite <- inject_Z_minus. subst i.
    replace (Z.of_nat (n - 1) - (Z.of_nat n - 2))%Z with 1%Z by lia. reflexivity.
  - left.
    assert (HL : Z.min (Z.max (Z.of_nat i) 0) (Z.of_nat n - 2) = Z.of_nat i) by lia.
    rewrite HL, Nat2Z.id. split; [reflexivity|]. ring.
Qed.

Lemma interp_ext' f g sh : forall cs, (forall idx, f idx == g idx) -> interp f sh cs == interp g sh cs.
Proof.
  revert f g. induction sh as [|n sh IH]; intros f g cs H; cbn [interp]; [apply H|].
  destruct cs as [|c cs]; [apply H|].
  pose proof (IH (fun idx => f (cell_lo c n :: idx)) (fun idx => g (cell_lo c n :: idx)) cs
                 (fun idx => H (cell_lo c n :: idx))) as E1.
  pose proof (IH (fun idx => f (S (cell_lo c n) :: idx)) (fun idx => g (S (cell_lo c n) :: idx)) cs
                 (fun idx => H (S (cell_lo c n) :: idx))) as E2.
  rewrite E1, E2. reflexivity.
Qed.

Theorem interp_at_nodes sh : forall f idx,
  in_bounds sh idx -> Forall (fun n => (2 <= n)%nat) sh ->
  interp f sh (map Qofnat idx) == f idx.
Proof.
  induction sh as [|n sh IH]; intros f idx Hb Hd.
  - destruct idx; [reflexivity|destruct Hb].
  - destruct idx as [|i idx]; [destruct Hb|]. destruct Hb as [Hi Hb].
    inversion Hd as [|? ? Hn Hd']; subst.
    cbn [map interp].
    destruct (cell_at_node Hn Hi) as [[Hlo Hw]|(Hlast & Hlo & Hw)].
    + rewrite Hlo, Hw. rewrite (IH (fun idx0 => f (i :: idx0))) by assumption. ring.
    + rewrite Hlo, Hw. rewrite (IH (fun idx0 => f (S (n - 2) :: idx0))) by assumption.
      replace (S (n - 2)) with i by lia. ring.
Qed.

(* ---- extrapolation: outside the index range the boundary cell continues ---------- *)
Lemma cell_lo_below c n : (2 <= n)%nat -> c < 1 -> cell_lo c n = 0%nat.
Proof.
  intros Hn Hc. unfold cell_lo, Zclip.
  assert (Qfloor c < 1)%Z.
  { apply Z.lt_le_trans with (Qfloor 1 + 0)%Z; [|reflexivity].
    destruct (Z_lt_le_dec (Qfloor c) 1) as [L|L]; [exact L|exfalso].
    pose proof (Qfloor_le c) as Hf. rewrite Zle_Qle in L.
    change (inject_Z 1) with 1 in L. lra. }
  lia.
Qed.

Lemma cell_lo_above c n : (2 <= n)%nat -> Qofnat n - 2 <= c -> cell_lo c n = (n - 2)%nat.
Proof.
  intros Hn Hc. unfold cell_lo, Zclip.
  assert (Z.of_nat n - 2 <= Qfloor c)%Z.
  { rewrite <- (Qfloor_inject_Z (Z.of_nat n - 2)). apply Qfloor_resp_le.
    rewrite inject_Z_minus. exact Hc. }
  replace (Z.min (Z.max (Qfloor c) 0) (Z.of_nat n - 2)) with (Z.of_nat n - 2)%Z by lia.
  lia.
Qed.

(* below the range the interpolant is the affine continuation of cell [0,1] ... *)
Theorem interp_extrapolates_below f n sh c cs : (2 <= n)%nat -> c < 1 ->
  interp f (n :: sh) (c :: cs) ==
  (1 - c) * interp (fun idx => f (0%nat :: idx)) sh cs + c * interp (fun idx => f (1%nat :: idx)) sh cs.
Proof.
  intros Hn Hc. cbn [interp]. unfold cell_w. rewrite (cell_lo_below Hn Hc).
  change (inject_Z (Z.of_nat 0)) with 0. ring.
Qed.

(* ... and above it of cell [n-2, n-1] *)
Theorem interp_extrapolates_above f n sh c cs : (2 <= n)%nat -> Qofnat n - 2 <= c ->
  interp f (n :: sh) (c :: cs) ==
  (1 - (c - Qofnat (n - 2))) * interp (fun idx => f ((n - 2)%nat :: idx)) sh cs
  + (c - Qofnat (n - 2)) * interp (fun idx => f ((n - 1)%nat :: idx)) sh cs.
Proof.
  intros Hn Hc. cbn [interp]. unfold cell_w. rewrite (cell_lo_above Hn Hc).
  replace (S (n - 2)) with (n - 1)%nat by lia. reflexivity.
Qed.

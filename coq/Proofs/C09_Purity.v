(* Proofs/C09_Purity.v — what "pure" means for the generated functions, on the model:          *)
(* the k-th result of any call history is the function of the k-th arguments; a function that   *)
(* is called by keyword gives the same result whatever the order of its (generated) signature.  *)
From LCM Require Import Base.Prelude Base.Arr Model.Dispatchers.
Local Open Scope nat_scope.

(* a generated function object as a state machine; lcm's objects are modelled without state *)
Section History.
Variables (A B S : Type) (f : A -> B) (s0 : S).
Definition step (s : S) (a : A) : S * B := (s, f a).
Fixpoint run_history (s : S) (calls : list A) : list B :=
  match calls with [] => [] | a :: r => let (s', b) := step s a in b :: run_history s' r end.

Theorem history_free calls : run_history s0 calls = map f calls.
Proof. generalize s0. induction calls as [|a r IH]; intros s; simpl; [reflexivity|]. now rewrite IH. Qed.

Theorem kth_result_depends_on_kth_arguments calls k d : k < length calls ->
  nth k (run_history s0 calls) (f d) = f (nth k calls d).
Proof. intros _. rewrite history_free. apply map_nth. Qed.
End History.

(* ---- the order of the argument names of a generated function is irrelevant ----------------- *)
Lemma index_of_spec p : forall l, In p l -> exists i, index_of p l = Some i /\ i < length l /\ nth i l EmptyString = p.
Proof.
  induction l as [|x r IH]; intros Hin; [destruct Hin|].
  simpl. destruct (String.eqb_spec p x) as [->|Hne].
  - exists 0. simpl. repeat split; lia.
  - destruct Hin as [E|Hin]; [congruence|]. destruct (IH Hin) as (i & E & Hi & Hn).
    rewrite E. exists (S i). simpl. repeat split; auto; lia.
Qed.

Definition reorder (f : func) (perm : list string) : func :=
  mkFunc perm (fun args' =>
    fn f (map (fun p => nth (match index_of p perm with Some i => i | None => 0 end) args' dflt_arr) (params f))).

Theorem call_is_independent_of_signature_order f perm kw :
  (forall p, In p (params f) -> In p perm) -> call (reorder f perm) kw = call f kw.
Proof.
  intros Hincl. unfold call, reorder. cbn [params fn]. f_equal. apply map_ext_in. intros p Hp.
  destruct (index_of_spec p perm (Hincl p Hp)) as (i & E & Hi & Hn). rewrite E.
  rewrite (nth_indep _ dflt_arr (lookup kw EmptyString)) by (now rewrite map_length).
  rewrite (map_nth (lookup kw)). now rewrite Hn.
Qed.

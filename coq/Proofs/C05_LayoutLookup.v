(* Proofs/C05_LayoutLookup.v — the documented layout (Spec/Layout.v) of a table satisfies the layout   *)
(* hypothesis of the function-representation refinement (Proofs/C14_Refine.v), for models without       *)
(* filter-restricted states: the array holds, at [discrete labels in declaration order] ++ [continuous   *)
(* node indices in declaration order], the table entry of that state.                                    *)
From Coq Require Import Lia.
From LCM Require Import Base.Prelude Base.Arr Spec.Lang Spec.Bellman Spec.Layout.
From LCM Require Import Proofs.ArrLemmas Proofs.ArrLemmas2 Proofs.Spec_Bellman Proofs.C14_Refine Proofs.C10_Choices Proofs.C14_OnLayout.
Local Open Scope nat_scope.

Definition dnames (sts : list (string * grid)) : list string := map fst (filter (fun sg => negb (is_cont (snd sg))) sts).
Definition cnames (sts : list (string * grid)) : list string := map fst (filter (fun sg => is_cont (snd sg)) sts).

Lemma combine_app' {A B} (l1 : list A) (r1 : list B) l2 r2 : length l1 = length r1 ->
  combine (l1 ++ l2) (r1 ++ r2) = combine l1 r1 ++ combine l2 r2.
Proof.
  revert r1. induction l1 as [|x l IH]; intros [|y r] H; try discriminate; [reflexivity|]. simpl. f_equal. apply IH. simpl in H. lia.
Qed.

Lemma assoc_combine_notin {A} x (ks : list string) (vs : list A) : ~ In x ks -> assoc x (combine ks vs) = None.
Proof.
  revert vs. induction ks as [|k r IH]; intros vs H; [reflexivity|]. destruct vs as [|v vs]; [reflexivity|]. simpl.
  destruct (String.eqb_spec x k) as [->|Hne]; [exfalso; apply H; now left|]. apply IH. intros Hin. apply H. now right.
Qed.

Lemma length_dnames_cont sts : length (cnames sts) = length (cont_sizes sts).
Proof.
  unfold cnames. induction sts as [|[x g] r IH]; [reflexivity|]. destruct g; cbn [filter snd is_cont map length cont_sizes]; [exact IH|]. now rewrite IH.
Qed.

(* looking the states up by name in the environment [discrete names ++ continuous names] -> [dl ++ cidx]
   gives the declaration-order index built by merge *)
Lemma lookup_is_merge : forall sts dl cidx, NoDup (map fst sts) ->
  length dl = length (dnames sts) -> length cidx = length (cnames sts) ->
  map (fun sg : string * grid => ilook (combine (dnames sts ++ cnames sts) (dl ++ cidx)) (fst sg)) sts = merge sts dl cidx.
Proof.
  induction sts as [|[x g] r IH]; intros dl cidx ND Hd Hc; [reflexivity|].
  inversion ND as [|? ? Hnotin ND']; subst. cbn [map fst].
  destruct g as [n|a b n]; unfold dnames, cnames in *; cbn [filter snd is_cont negb map fst] in *.
  - destruct dl as [|k dl']; [discriminate|]. cbn [merge app combine]. f_equal.
    + unfold ilook. cbn [assoc]. now rewrite String.eqb_refl.
    + rewrite <- (IH dl' cidx ND') by (simpl in Hd; try lia; exact Hc). apply map_ext_in. intros sg Hin.
      unfold ilook. cbn [assoc]. destruct (String.eqb_spec (fst sg) x) as [E|E]; [|reflexivity].
      exfalso. apply Hnotin. rewrite <- E. now apply in_map.
  - destruct cidx as [|i ci']; [discriminate|]. cbn [merge]. 
    set (dn := map fst (filter (fun sg : string * grid => negb (is_cont (snd sg))) r)) in *.
    set (cn := map fst (filter (fun sg : string * grid => is_cont (snd sg)) r)) in *.
    assert (Hx : ~ In x dn).
    { intros Hin. apply Hnotin. unfold dn in Hin. apply in_map_iff in Hin. destruct Hin as (sg & <- & Hf).
      apply filter_In in Hf. apply in_map. tauto. }
    rewrite (combine_app' dn dl (x :: cn) (i :: ci')) by (symmetry; exact Hd). cbn [combine]. f_equal.
    + unfold ilook. rewrite assoc_app, (assoc_combine_notin x dn dl Hx). cbn [assoc]. now rewrite String.eqb_refl.
    + rewrite <- (IH dl ci' ND') by (trivial; simpl in Hc; lia). fold dn. fold cn.
      rewrite (combine_app' dn dl cn ci') by (symmetry; exact Hd).
      apply map_ext_in. intros sg Hin. unfold ilook. rewrite !assoc_app. destruct (assoc (fst sg) (combine dn dl)); [reflexivity|].
      cbn [assoc]. destruct (String.eqb_spec (fst sg) x) as [E|E]; [|reflexivity].
      exfalso. apply Hnotin. rewrite <- E. now apply in_map.
Qed.

(* ---- models without filter-restricted variables ---------------------------------------------------- *)
Section NoFilters.
Variables (m : model) (p : params) (t : nat) (tab : arr val).
Hypothesis Hnf : restricted_names m = [].
Hypothesis Hnd : NoDup (map fst (states m)).

Lemma nothing_restricted x : is_restricted m x = false.
Proof. unfold is_restricted. now rewrite Hnf. Qed.

Lemma free_discrete_all : map fst (free_discrete_states m) = dnames (states m).
Proof.
  unfold free_discrete_states, dnames. f_equal. apply filter_ext. intros sg. rewrite nothing_restricted. reflexivity.
Qed.
Lemma free_continuous_all : map fst (free_continuous_states m) = cnames (states m).
Proof.
  unfold free_continuous_states, cnames. f_equal. apply filter_ext. intros sg. rewrite nothing_restricted. reflexivity.
Qed.
Lemma no_restricted_states : has_restricted_states m = false.
Proof.
  unfold has_restricted_states, restricted_states.
  assert (E : forall l : list (string * grid), filter (fun sg => is_restricted m (fst sg)) l = []).
  { induction l as [|sg r IH]; [reflexivity|]. simpl. rewrite nothing_restricted. exact IH. }
  now rewrite E.
Qed.

(* the entry of the layout array at [discrete labels] ++ [continuous indices] is the table entry of that state *)
Theorem layout_entry_is_table_entry dl cidx :
  in_bounds (expected_shape m p t) (dl ++ cidx) ->
  length dl = length (dnames (states m)) -> length cidx = length (cnames (states m)) ->
  get VUndef (to_layout m p t tab) (dl ++ cidx) = get VUndef tab (merge (states m) dl cidx).
Proof.
  intros Hb Hd Hc. rewrite (layout_entry m p t tab (dl ++ cidx) Hb). f_equal.
  unfold state_at. rewrite no_restricted_states, free_discrete_all, free_continuous_all.
  now apply lookup_is_merge.
Qed.

Lemma sizes_of_free_discrete : map (fun sg => grid_size (snd sg)) (free_discrete_states m) = dsizes (states m).
Proof.
  unfold free_discrete_states.
  assert (E : forall l : list (string * grid),
            map (fun sg => grid_size (snd sg)) (filter (fun sg => negb (is_restricted m (fst sg)) && negb (is_cont (snd sg))) l) = dsizes l).
  { induction l as [|[x g] r IH]; [reflexivity|]. cbn [filter fst snd]. rewrite nothing_restricted.
    destruct g; cbn [negb andb is_cont map dsizes snd grid_size]; now rewrite IH. }
  apply E.
Qed.
Lemma sizes_of_free_continuous : map (fun sg => grid_size (snd sg)) (free_continuous_states m) = cont_sizes (states m).
Proof.
  unfold free_continuous_states.
  assert (E : forall l : list (string * grid),
            map (fun sg => grid_size (snd sg)) (filter (fun sg => negb (is_restricted m (fst sg)) && is_cont (snd sg)) l) = cont_sizes l).
  { induction l as [|[x g] r IH]; [reflexivity|]. cbn [filter fst snd]. rewrite nothing_restricted.
    destruct g; cbn [negb andb is_cont map cont_sizes snd grid_size]; now rewrite IH. }
  apply E.
Qed.

Theorem expected_shape_without_filters : expected_shape m p t = (dsizes (states m) ++ cont_sizes (states m))%list.
Proof. unfold expected_shape. rewrite no_restricted_states, sizes_of_free_discrete, sizes_of_free_continuous. reflexivity. Qed.

Lemma length_dnames sts : length (dnames sts) = length (dsizes sts).
Proof.
  unfold dnames. induction sts as [|[x g] r IH]; [reflexivity|]. destruct g; cbn [filter snd is_cont negb map length dsizes]; [now rewrite IH|exact IH].
Qed.

(* the documented layout of the specification's table IS the layout array of the refinement theorem *)
Theorem to_layout_is_the_layout_array idx : in_bounds (expected_shape m p t) idx ->
  get VUndef (to_layout m p t tab) idx
  = get VUndef tab (merge (states m) (firstn (length (dsizes (states m))) idx) (skipn (length (dsizes (states m))) idx)).
Proof.
  intros Hb. rewrite <- (firstn_skipn (length (dsizes (states m))) idx) at 1.
  assert (Hl : length idx = (length (dsizes (states m)) + length (cont_sizes (states m)))%nat).
  { rewrite (in_bounds_length _ _ Hb), expected_shape_without_filters, app_length. reflexivity. }
  apply layout_entry_is_table_entry.
  - now rewrite firstn_skipn.
  - rewrite firstn_length, length_dnames. lia.
  - rewrite skipn_length, length_dnames_cont. lia.
Qed.
End NoFilters.

(* Proofs/Spec_Restrictions.v — admissibility depends only on the collection of restriction    *)
(* functions, not on whether each is declared as a filter or as a constraint; an always-true     *)
(* restriction changes nothing; with beta = 0 the objective is the utility.                      *)
From Coq Require Import Permutation Lqa.
From LCM Require Import Base.Prelude Spec.Lang Spec.Bellman Proofs.Spec_Algebra.
Local Open Scope Q_scope.

Lemma forallb_perm {A} (f : A -> bool) l l' : Permutation l l' -> forallb f l = forallb f l'.
Proof.
  induction 1 as [|x l l' _ IH|x y l|l l' l'' _ IH1 _ IH2]; simpl; auto.
  - now rewrite IH.
  - destruct (f x), (f y); reflexivity.
  - congruence.
Qed.

Lemma forallb_map_id {A} (f : A -> bool) l : forallb (fun b => b) (map f l) = forallb f l.
Proof. induction l as [|x r IH]; simpl; [reflexivity|]. now rewrite IH. Qed.

Lemma feasible_as_one_list m p e :
  feasible m p e = forallb (holds m p e) (filters m ++ constraints m).
Proof. unfold feasible. now rewrite forallb_app. Qed.

Theorem feasible_filter_or_constraint m m' p p' e e' :
  Permutation (map (fun f => holds m p e f) (filters m ++ constraints m))
              (map (fun f => holds m' p' e' f) (filters m' ++ constraints m')) ->
  feasible m p e = feasible m' p' e'.
Proof.
  intros H. rewrite !feasible_as_one_list.
  rewrite <- (forallb_map_id (holds m p e)), <- (forallb_map_id (holds m' p' e')).
  now apply forallb_perm.
Qed.

Theorem true_restriction_is_irrelevant (vals : list bool) :
  forallb (fun b => b) (true :: vals) = forallb (fun b => b) vals.
Proof. reflexivity. Qed.

Theorem beta_zero_objective m p vnext e u c :
  beta p == 0 -> eval_fun (depth m) m p e "utility" = Some u -> continuation m p vnext e = VFin c ->
  veq (objective m p false vnext e) (VFin u).
Proof.
  intros Hb Hu Hc. unfold objective. rewrite Hu, Hc. simpl. rewrite Hb. ring.
Qed.

(* Proofs/C11_ModelFunctions.v — about the regenerated Bellman operator (Gen/ModelFunctions.v):    *)
(* the array of node weights has the product of the stochastic variables' weights at every node,   *)
(* the continuation value is the sum over all nodes of value times weight, and the function value   *)
(* is  u + beta * that sum  (one discounting step).                                                 *)
From Coq Require Import Lqa Lia.
From LCM Require Import Base.Prelude Base.Arr Base.ArrOps Model.Dispatchers Model.QOps Gen.ModelFunctions.
From LCM Require Import Proofs.ArrLemmas Proofs.ArrLemmas2 Proofs.C19_Dispatch.
Local Open Scope Q_scope.

(* ---- arrays as the list of their entries -------------------------------------------------------- *)
Lemma nth_indices_unravel sh k : (k < size sh)%nat -> nth k (indices sh) [] = unravel sh k.
Proof.
  intros H. rewrite <- (ravel_unravel sh k H) at 1. apply nth_indices. now apply unravel_in_bounds.
Qed.

Lemma nth_map_lt' {A B} (f : A -> B) l j d d' : (j < length l)%nat -> nth j (map f l) d = f (nth j l d').
Proof. revert j. induction l as [|x r IH]; intros [|j] H; simpl in *; try lia; auto. apply IH. lia. Qed.

Lemma data_as_entries (a : qarr) : wf a -> data a = map (qget a) (indices (shape a)).
Proof.
  intros W. apply (nth_ext _ _ 0 0).
  - rewrite map_length, length_indices. exact W.
  - intros k Hk. rewrite W in Hk.
    rewrite (nth_map_lt' (qget a) _ k 0 []) by (now rewrite length_indices).
    rewrite nth_indices_unravel by exact Hk.
    unfold qget, get. now rewrite ravel_unravel.
Qed.

Lemma zip_with_maps {X A B C} (f : A -> B -> C) (g : X -> A) (h : X -> B) l :
  zip_with f (map g l) (map h l) = map (fun x => f (g x) (h x)) l.
Proof. induction l as [|x r IH]; simpl; [reflexivity|]. now rewrite IH. Qed.

Definition qsum (l : list Q) : Q := fold_right Qplus 0 l.

(* (a * b).sum() for equally shaped arrays *)
Theorem sum_of_product (a b : qarr) : wf a -> wf b -> shape b = shape a ->
  qsum_all (qmul_arr a b) = qsum (map (fun idx => qget a idx * qget b idx) (indices (shape a))).
Proof.
  intros Wa Wb Hs. unfold qsum_all, qmul_arr, amap2. cbn [data].
  rewrite (data_as_entries a Wa), (data_as_entries b Wb), Hs, zip_with_maps. reflexivity.
Qed.

(* ---- the array of node weights ------------------------------------------------------------------ *)
Lemma index_of_nth l : NoDup l -> forall i, (i < length l)%nat -> index_of (nth i l ""%string) l = Some i.
Proof.
  induction l as [|x r IH]; intros ND i Hi; [simpl in Hi; lia|]. inversion ND as [|? ? Hn ND']; subst.
  destruct i as [|i]; simpl.
  - now rewrite String.eqb_refl.
  - destruct (String.eqb_spec (nth i r ""%string) x) as [E|E].
    + exfalso. apply Hn. rewrite <- E. apply nth_In. simpl in Hi. lia.
    + rewrite IH by (trivial; simpl in Hi; lia). reflexivity.
Qed.

Lemma positions_of_own_signature (f : func) : NoDup (params f) ->
  map (pos_of f) (params f) = seq 0 (length (params f)).
Proof.
  intros ND. apply (nth_ext _ _ 0%nat 0%nat).
  - now rewrite map_length, seq_length.
  - intros i Hi. rewrite map_length in Hi.
    rewrite (nth_map_lt' (pos_of f) _ i 0%nat ""%string) by exact Hi.
    rewrite seq_nth by exact Hi. unfold pos_of. now rewrite index_of_nth.
Qed.

Lemma qget_qslice_vector (w : qarr) j : tl (shape w) = [] -> qget (qslice w j) [] = qget w [j].
Proof. intros H. unfold qslice, slice, qget. rewrite H. now rewrite get_tabulate. Qed.

(* slicing every argument at its own index *)
Lemma nth_slice_all_seq : forall k s args idx i, length idx = k -> (s + k <= length args)%nat ->
  nth i (slice_all args (seq s k) idx) dflt_arr
  = if ((s <=? i) && (i <? s + k))%nat%bool then qslice (nth i args dflt_arr) (nth (i - s) idx 0%nat)
    else nth i args dflt_arr.
Proof.
  induction k as [|k IH]; intros s args idx i Hl Hb.
  - simpl. destruct (s <=? i)%nat eqn:E1, (i <? s + 0)%nat eqn:E2; simpl; try reflexivity.
    apply Nat.leb_le in E1. apply Nat.ltb_lt in E2. lia.
  - destruct idx as [|j idx]; [discriminate|]. cbn [seq slice_all]. injection Hl as Hl.
    rewrite IH by (trivial; unfold slice1; rewrite length_upd; lia).
    unfold slice1.
    destruct (Nat.eq_dec i s) as [->|Hne].
    + replace ((S s <=? s) && (s <? S s + k))%nat%bool with false
        by (symmetry; apply andb_false_iff; left; apply Nat.leb_gt; lia).
      replace ((s <=? s) && (s <? s + S k))%nat%bool with true
        by (symmetry; apply andb_true_iff; split; [apply Nat.leb_le|apply Nat.ltb_lt]; lia).
      rewrite nth_upd_same by lia. now rewrite Nat.sub_diag.
    + rewrite nth_upd_other by (intro; subst; contradiction).
      destruct (Nat.leb_spec s i) as [L|L], (Nat.leb_spec (S s) i) as [L'|L']; try lia; cbn [andb].
      * replace (i <? s + S k)%nat with (i <? S s + k)%nat by (f_equal; lia).
        destruct (i <? S s + k)%nat; [|reflexivity].
        replace (i - s)%nat with (S (i - S s)) by lia. reflexivity.
      * reflexivity.
Qed.

Lemma length_slice_all : forall ps args idx, length (slice_all args ps idx) = length args.
Proof.
  induction ps as [|p ps IH]; intros args idx; [reflexivity|]. destruct idx as [|i idx]; [reflexivity|].
  cbn [slice_all]. rewrite IH. unfold slice1. apply length_upd.
Qed.

Section NodeWeights.
Variable svars : list string.
Let names := multiply_weights_arg_names svars.
Hypothesis Hnd : NoDup names.
Variable weights : list (string * qarr).
Let ws := map (lookup weights) names.
(* every weight array is a vector (one probability per label of its variable) *)
Hypothesis Hvec : forall w, In w ws -> tl (shape w) = [].

(* the shape of the node grid: one axis per stochastic variable, in the order of the list *)
Definition node_shape : list nat := map lead ws.

Lemma multiply_weights_unfold :
  get_multiply_weights svars weights = base_productmap (fun args => qprod_scalars args) (seq 0 (length names)) ws.
Proof.
  pose proof (positions_of_own_signature (multiply_weights_outer names) Hnd) as E.
  cbn [params multiply_weights_outer] in E.
  unfold get_multiply_weights, productmap. fold names. cbn [params fn multiply_weights_outer].
  now rewrite E.
Qed.

Lemma dims_seq_all : dims (seq 0 (length names)) ws = node_shape.
Proof.
  unfold dims, node_shape. assert (L : length ws = length names) by (unfold ws; now rewrite map_length).
  rewrite <- L. clear. induction ws as [|w r IH] using rev_ind; [reflexivity|].
  rewrite app_length, Nat.add_comm. cbn [length plus]. rewrite seq_S, !map_app. cbn [map plus].
  rewrite app_nth2, Nat.sub_diag by lia. cbn [nth]. f_equal.
  rewrite <- IH. apply map_ext_in. intros p Hp. apply in_seq in Hp. now rewrite app_nth1 by lia.
Qed.

Theorem node_weights_shape :
  wf (get_multiply_weights svars weights) /\ shape (get_multiply_weights svars weights) = node_shape.
Proof.
  rewrite multiply_weights_unfold, <- dims_seq_all, <- (app_nil_r (dims _ _)).
  apply (bpm_wf_shape (fun args => qprod_scalars args) [] (fun _ => True) (fun _ => True)
           (fun _ _ _ _ _ => I) (fun a _ => conj eq_refl eq_refl)); [exact I|apply seq_NoDup|].
  apply Forall_forall. intros; exact I.
Qed.

Theorem node_weights_entry idx : in_bounds node_shape idx ->
  qget (get_multiply_weights svars weights) idx
  = qprod_list (map (fun i => qget (nth i ws dflt_arr) [nth i idx 0%nat]) (seq 0 (length names))).
Proof.
  intros Hb. rewrite multiply_weights_unfold. rewrite <- (app_nil_r idx) at 1.
  rewrite (bpm_get (fun args => qprod_scalars args) [] (fun _ => True) (fun _ => True)
             (fun _ _ _ _ _ => I) (fun a _ => conj eq_refl eq_refl) (seq 0 (length names)) ws idx []);
    [|exact I|apply seq_NoDup|apply Forall_forall; intros; exact I|now rewrite dims_seq_all|exact I].
  unfold qprod_scalars. change (qget (scalar ?x) []) with x. unfold qget at 1, get, scalar. cbn [shape data ravel nth].
  f_equal.
  assert (L : length ws = length names) by (unfold ws; now rewrite map_length).
  assert (Li : length idx = length names).
  { rewrite (in_bounds_length _ _ Hb). unfold node_shape. now rewrite map_length. }
  apply (nth_ext _ _ 0 0).
  - now rewrite !map_length, length_slice_all, seq_length, L.
  - intros i Hi. rewrite map_length, length_slice_all, L in Hi.
    rewrite (nth_map_lt' (fun a => qget a []) _ i 0 dflt_arr) by (now rewrite length_slice_all, L).
    rewrite (nth_map_lt' (fun i => qget (nth i ws dflt_arr) [nth i idx 0%nat]) _ i 0 0%nat) by (now rewrite seq_length).
    rewrite seq_nth by exact Hi. cbn [plus].
    rewrite nth_slice_all_seq by (trivial; lia). cbn [Nat.leb andb].
    replace (i <? 0 + length names)%nat with true by (symmetry; apply Nat.ltb_lt; lia).
    rewrite Nat.sub_0_r. apply qget_qslice_vector. apply Hvec. apply nth_In. lia.
Qed.
End NodeWeights.

(* ---- the Bellman operator -------------------------------------------------------------------------- *)
Section BellmanStep.
Variables (P F : Type) (beta_of : P -> Q).
Variable current_u_and_f : list (string * qarr) -> nat -> P -> Q * F.
Variable next_state : list (string * qarr) -> nat -> P -> list (string * qarr).
Variable next_weights : list (string * qarr) -> nat -> P -> list (string * qarr).
Variable scalar_value_function : func.
Variables (state_variables choice_variables stochastic_variables value_function_arguments : list string).
Variable period : nat.
Variables (kwargs : list (string * qarr)) (params : P).

Let sc := select state_variables kwargs ++ select choice_variables kwargs.
Let weights := next_weights sc period params.
Let names := multiply_weights_arg_names stochastic_variables.
Let ws := map (lookup weights) names.
(* the values at the nodes: the value function of the next period, product-mapped over the next      *)
(* values of the stochastic variables                                                                 *)
Let ccvs := productmap scalar_value_function (map (fun var => ("next_" ++ var)%string) stochastic_variables)
              (next_state sc period params ++ select value_function_arguments kwargs).

Hypothesis Hnd : NoDup names.
Hypothesis Hvec : forall w, In w ws -> tl (shape w) = [].
Hypothesis Hccvs : wf ccvs /\ shape ccvs = node_shape stochastic_variables weights.

Theorem u_and_f_is_one_bellman_step :
  u_and_f P F beta_of current_u_and_f next_state next_weights scalar_value_function
          state_variables choice_variables stochastic_variables value_function_arguments period kwargs params
  = (fst (current_u_and_f sc period params)
     + beta_of params *
       qsum (map (fun idx => qget ccvs idx *
                             qprod_list (map (fun i => qget (nth i ws dflt_arr) [nth i idx 0%nat]) (seq 0 (length names))))
                 (indices (node_shape stochastic_variables weights))),
     snd (current_u_and_f sc period params)).
Proof.
  unfold u_and_f. fold sc. destruct (current_u_and_f sc period params) as [u f]. cbn [fst snd].
  fold weights. fold ccvs. destruct Hccvs as [Wc Sc].
  destruct (node_weights_shape stochastic_variables Hnd weights) as [Ww Sw].
  rewrite (sum_of_product ccvs _ Wc Ww) by (now rewrite Sw, Sc).
  rewrite Sc. f_equal. f_equal. f_equal. unfold qsum. f_equal. apply map_ext_in. intros idx Hin. f_equal.
  apply (node_weights_entry stochastic_variables Hnd weights Hvec). now apply in_indices.
Qed.
End BellmanStep.

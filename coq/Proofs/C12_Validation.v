(* Proofs/C12_Validation.v — the model validator accepts exactly the specifications that        *)
(* satisfy every documented rule.                                                                *)
From LCM Require Import Base.Prelude Model.UserModel.
Local Open Scope string_scope.

Definition well_typed_dict (d : rdict) : Prop :=
  exists l, d = Some l /\ forall kv, In kv l -> (exists s, fst kv = KStr s) /\ snd kv = true.

Lemma dict_errors_zero d : dict_errors d = 0%nat <-> well_typed_dict d.
Proof.
  unfold well_typed_dict. destruct d as [l|]; simpl.
  - split.
    + intros H. exists l. split; [reflexivity|]. induction l as [|kv r IH]; [intros ? []|].
      simpl in H. destruct (fst kv) eqn:Ek; destruct (snd kv) eqn:Ev; simpl in H; try lia.
      intros kv' [<-|Hin]; [split; eauto|apply IH; [lia|exact Hin]].
    + intros (l' & E & H). injection E as <-. induction l as [|kv r IH]; [reflexivity|].
      simpl. destruct (H kv (or_introl eq_refl)) as [[s Es] Ev]. rewrite Es, Ev. simpl.
      apply IH. intros kv' Hin. apply H. now right.
  - split; [discriminate|]. intros (l & E & _). discriminate.
Qed.

Definition rules_hold (m : raw_model) : Prop :=
  well_typed_dict (r_choices m) /\ well_typed_dict (r_states m) /\ well_typed_dict (r_functions m) /\
  (1 <= r_n_periods m)%Z /\
  In "utility" (keys_of (r_functions m)) /\
  (forall s, In s (keys_of (r_states m)) -> In ("next_" ++ s) (keys_of (r_functions m))) /\
  (forall s, In s (keys_of (r_states m)) -> ~ In s (keys_of (r_choices m))).

Lemma mem_str_In x l : mem_str x l = true <-> In x l.
Proof.
  unfold mem_str. rewrite existsb_exists. split.
  - intros (y & Hy & E). apply String.eqb_eq in E. now subst.
  - intros H. exists x. split; [exact H|apply String.eqb_refl].
Qed.

Lemma existsb_false {A} (f : A -> bool) l : existsb f l = false <-> forall x, In x l -> f x = false.
Proof.
  split.
  - intros H x Hx. destruct (f x) eqn:E; [|reflexivity].
    assert (existsb f l = true) by (apply existsb_exists; eauto). congruence.
  - intros H. apply not_true_is_false. intro E. apply existsb_exists in E. destruct E as (x & Hx & E).
    rewrite (H x Hx) in E. discriminate.
Qed.

Theorem validate_model_accepts_iff_rules_hold m : validate_model m = true <-> rules_hold m.
Proof.
  unfold validate_model, rules_hold.
  destruct (Nat.eqb_spec (type_errors m) 0) as [Et|Et].
  - unfold type_errors in Et.
    assert (E1 : dict_errors (r_choices m) = 0%nat) by lia.
    assert (E2 : dict_errors (r_states m) = 0%nat) by lia.
    assert (E3 : dict_errors (r_functions m) = 0%nat) by lia.
    apply dict_errors_zero in E1, E2, E3.
    rewrite Nat.eqb_eq. unfold logical_errors.
    set (b1 := (r_n_periods m <? 1)%Z).
    set (b2 := mem_str "utility" (keys_of (r_functions m))).
    set (b3 := existsb (fun s => negb (mem_str ("next_" ++ s) (keys_of (r_functions m)))) (keys_of (r_states m))).
    set (b4 := existsb (fun s => mem_str s (keys_of (r_choices m))) (keys_of (r_states m))).
    assert (Hsum : ((if b1 then 1 else 0) + (if b2 then 0 else 1) + (if b3 then 1 else 0) + (if b4 then 1 else 0) = 0)%nat
                   <-> b1 = false /\ b2 = true /\ b3 = false /\ b4 = false).
    { destruct b1, b2, b3, b4; simpl; split; intros H; try lia; try tauto;
        destruct H as (H1 & H2 & H3 & H4); discriminate. }
    rewrite Hsum.
    assert (R1 : b1 = false <-> (1 <= r_n_periods m)%Z) by (unfold b1; rewrite Z.ltb_ge; tauto).
    assert (R2 : b2 = true <-> In "utility" (keys_of (r_functions m))) by (unfold b2; apply mem_str_In).
    assert (R3 : b3 = false <-> forall s, In s (keys_of (r_states m)) -> In ("next_" ++ s) (keys_of (r_functions m))).
    { unfold b3. rewrite existsb_false. split; intros H s Hs.
      - apply mem_str_In. specialize (H s Hs). now apply negb_false_iff in H.
      - apply negb_false_iff. apply mem_str_In. now apply H. }
    assert (R4 : b4 = false <-> forall s, In s (keys_of (r_states m)) -> ~ In s (keys_of (r_choices m))).
    { unfold b4. rewrite existsb_false. split; intros H s Hs.
      - intro Hc. apply mem_str_In in Hc. rewrite (H s Hs) in Hc. discriminate.
      - apply not_true_is_false. intro Hc. apply mem_str_In in Hc. exact (H s Hs Hc). }
    rewrite R1, R2, R3, R4. tauto.
  - split; [discriminate|]. intros (R1 & R2 & R3 & _).
    apply dict_errors_zero in R1, R2, R3. unfold type_errors in Et. lia.
Qed.

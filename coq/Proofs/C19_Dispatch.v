(* Proofs/C19_Dispatch.v — the dispatchers of Model/Dispatchers.v equal nested loops:      *)
(* entry (i1..ik ++ r) of base_productmap is f applied to the i1-th .. ik-th slices, axes in *)
(* the order the positions were listed; vmap_1d pairs the slices of all listed arguments;    *)
(* spacemap composes the two with the joint axis first or last.                              *)
From LCM Require Import Base.Prelude Base.Arr Model.Dispatchers.
From LCM Require Import Proofs.ArrLemmas Proofs.ArrLemmas2.
Local Open Scope nat_scope.

Lemma length_upd l : forall p v, length (upd l p v) = length l.
Proof. induction l as [|x r IH]; intros [|p] v; simpl; auto. Qed.

Lemma nth_upd_same l : forall p v, p < length l -> nth p (upd l p v) dflt_arr = v.
Proof.
  induction l as [|x r IH]; intros p v H; simpl in *; [lia|].
  destruct p as [|p]; [reflexivity|]. apply IH. lia.
Qed.

Lemma nth_upd_other l : forall p q v, p <> q -> nth q (upd l p v) dflt_arr = nth q l dflt_arr.
Proof.
  induction l as [|x r IH]; intros p q v H; simpl.
  - destruct p; reflexivity.
  - destruct p as [|p], q as [|q]; simpl; try reflexivity; try congruence.
    apply IH. congruence.
Qed.

(* ---- one vmap ------------------------------------------------------------------------ *)
Section Vmap.
Variables (f : list qarr -> qarr) (mapped : list nat) (args : list qarr) (sh : list nat).
Let n := lead (nth (hd 0 mapped) args dflt_arr).
Hypothesis Hloc : forall i, wf (f (slice_at args mapped i)) /\ shape (f (slice_at args mapped i)) = sh.

Lemma vmap_shape : shape (vmap f mapped args) = n :: sh.
Proof. unfold vmap. cbn [shape]. now rewrite (proj2 (Hloc 0)). Qed.

Lemma vmap_wf : wf (vmap f mapped args).
Proof.
  unfold wf. rewrite vmap_shape. unfold vmap. cbn [data size].
  fold n. generalize 0 at 1. induction n as [|k IH]; intros s; simpl; [reflexivity|].
  rewrite app_length, IH. destruct (Hloc s) as [Hw Hs]. unfold wf in Hw. rewrite Hw, Hs. lia.
Qed.

Lemma vmap_get i r : i < n -> in_bounds sh r ->
  qget (vmap f mapped args) (i :: r) = qget (f (slice_at args mapped i)) r.
Proof.
  intros Hi Hr. unfold qget. rewrite get_as_nth, vmap_shape. cbn [ravel]. unfold vmap. cbn [data].
  fold n.
  rewrite (@nth_flat_map_const Q 0%Q (fun i0 => data (f (slice_at args mapped i0))) (size sh)).
  - simpl. rewrite get_as_nth. now rewrite (proj2 (Hloc i)).
  - intros x. destruct (Hloc x) as [Hw Hs]. unfold wf in Hw. now rewrite Hw, Hs.
  - exact Hi.
  - now apply ravel_lt.
Qed.
End Vmap.

(* ---- the product map ------------------------------------------------------------------ *)
Definition dims (ps : list nat) (args : list qarr) : list nat :=
  map (fun p => lead (nth p args dflt_arr)) ps.

Definition slice1 (args : list qarr) (p i : nat) : list qarr :=
  upd args p (qslice (nth p args dflt_arr) i).

Fixpoint slice_all (args : list qarr) (ps idx : list nat) : list qarr :=
  match ps, idx with
  | p :: ps', i :: idx' => slice_all (slice1 args p i) ps' idx'
  | _, _ => args
  end.

Lemma slice_at_single args p i : slice_at args [p] i = slice1 args p i.
Proof. reflexivity. Qed.

Lemma base_productmap_cons f p ps : base_productmap f (p :: ps) = vmap (base_productmap f ps) [p].
Proof. unfold base_productmap. simpl. now rewrite fold_left_app. Qed.

Lemma dims_slice1 ps args p i : ~ In p ps -> dims ps (slice1 args p i) = dims ps args.
Proof.
  intros H. unfold dims, slice1. apply map_ext_in. intros q Hq.
  rewrite nth_upd_other; [reflexivity|]. intro E. subst. tauto.
Qed.

Section Product.
Variables (f : list qarr -> qarr) (osh : list nat).
(* [good] describes the argument lists on which f is known to return a well-formed array of
   shape osh; it must be stable under slicing *)
Variable good : list qarr -> Prop.
Variable allowed : nat -> Prop.
Hypothesis Hgood : forall args p i, allowed p -> good args -> good (slice1 args p i).
Hypothesis Hf : forall args, good args -> wf (f args) /\ shape (f args) = osh.

Lemma bpm_wf_shape ps : forall args, good args -> NoDup ps -> Forall allowed ps ->
  wf (base_productmap f ps args) /\ shape (base_productmap f ps args) = dims ps args ++ osh.
Proof.
  induction ps as [|p ps IH]; intros args Hg Hnd Hal.
  - unfold base_productmap. simpl. now apply Hf.
  - rewrite base_productmap_cons. inversion Hnd as [|? ? Hnotin Hnd']; subst.
    inversion Hal as [|? ? Hap Hal']; subst.
    assert (Hloc : forall i, wf (base_productmap f ps (slice_at args [p] i)) /\
                             shape (base_productmap f ps (slice_at args [p] i)) = dims ps args ++ osh).
    { intros i. rewrite slice_at_single. destruct (IH (slice1 args p i) (Hgood _ p i Hap Hg) Hnd' Hal') as [Hw Hs].
      split; [exact Hw|]. now rewrite Hs, dims_slice1. }
    split; [now apply (vmap_wf _ _ _ _ Hloc)|].
    rewrite (vmap_shape _ _ _ _ Hloc). reflexivity.
Qed.

Theorem bpm_get ps : forall args idx r, good args -> NoDup ps -> Forall allowed ps ->
  in_bounds (dims ps args) idx -> in_bounds osh r ->
  qget (base_productmap f ps args) (idx ++ r) = qget (f (slice_all args ps idx)) r.
Proof.
  induction ps as [|p ps IH]; intros args idx r Hg Hnd Hal Hidx Hr.
  - destruct idx; [|destruct Hidx]. reflexivity.
  - destruct idx as [|i idx]; [destruct Hidx|]. destruct Hidx as [Hi Hidx].
    inversion Hnd as [|? ? Hnotin Hnd']; subst.
    inversion Hal as [|? ? Hap Hal']; subst.
    rewrite base_productmap_cons.
    assert (Hloc : forall i, wf (base_productmap f ps (slice_at args [p] i)) /\
                             shape (base_productmap f ps (slice_at args [p] i)) = dims ps args ++ osh).
    { intros j. rewrite slice_at_single. destruct (bpm_wf_shape ps (slice1 args p j) (Hgood _ p j Hap Hg) Hnd' Hal') as [Hw Hs].
      split; [exact Hw|]. now rewrite Hs, dims_slice1. }
    cbn [app]. rewrite (vmap_get _ _ _ _ Hloc).
    + rewrite slice_at_single. cbn [slice_all]. apply IH; auto.
      now rewrite dims_slice1.
    + exact Hi.
    + apply in_bounds_app; [exact Hidx|exact Hr].
Qed.
End Product.

(* ---- vmap_1d: all listed arguments are sliced at the same position ----------------- *)
Lemma slice_at_nth mapped : forall args0 args i p,
  length args = length args0 ->
  nth p (fold_left (fun acc q => upd acc q (qslice (nth q args0 dflt_arr) i)) mapped args) dflt_arr
  = if existsb (Nat.eqb p) mapped then
      (if p <? length args0 then qslice (nth p args0 dflt_arr) i else nth p args dflt_arr)
    else nth p args dflt_arr.
Proof.
  induction mapped as [|q qs IH]; intros args0 args i p HL; simpl; [reflexivity|].
  rewrite IH by (now rewrite length_upd).
  destruct (Nat.eqb_spec p q) as [->|Hne]; simpl.
  - destruct (existsb (Nat.eqb q) qs).
    + destruct (Nat.ltb_spec q (length args0)); [reflexivity|].
      rewrite nth_overflow by (rewrite length_upd; lia). now rewrite nth_overflow by lia.
    + destruct (Nat.ltb_spec q (length args0)).
      * apply nth_upd_same. lia.
      * rewrite nth_overflow by (rewrite length_upd; lia). now rewrite nth_overflow by lia.
  - rewrite nth_upd_other by congruence. reflexivity.
Qed.

Theorem slice_at_spec args mapped i p : p < length args ->
  nth p (slice_at args mapped i) dflt_arr
  = if existsb (Nat.eqb p) mapped then qslice (nth p args dflt_arr) i else nth p args dflt_arr.
Proof.
  intros Hp. unfold slice_at. rewrite slice_at_nth by reflexivity.
  destruct (existsb (Nat.eqb p) mapped); [|reflexivity].
  destruct (Nat.ltb_spec p (length args)); [reflexivity|lia].
Qed.

Theorem vmap_1d_get f positions args osh j r :
  (forall a, wf (f a) /\ shape (f a) = osh) ->
  j < lead (nth (hd 0 positions) args dflt_arr) -> in_bounds osh r ->
  qget (vmap_1d f positions args) (j :: r) = qget (f (slice_at args positions j)) r /\
  shape (vmap_1d f positions args) = lead (nth (hd 0 positions) args dflt_arr) :: osh.
Proof.
  intros Hf Hj Hr. unfold vmap_1d.
  assert (Hloc : forall i, wf (f (slice_at args positions i)) /\ shape (f (slice_at args positions i)) = osh)
    by (intros; apply Hf).
  split; [now apply (vmap_get _ _ _ _ Hloc)|apply (vmap_shape _ _ _ _ Hloc)].
Qed.

(* ---- spacemap --------------------------------------------------------------------------- *)
Lemma dims_slice_at dense sparse args j :
  (forall p, In p dense -> In p sparse -> False) -> length args = length args ->
  dims dense (slice_at args sparse j) = dims dense args.
Proof.
  intros Hdis _. unfold dims. apply map_ext_in. intros p Hp.
  destruct (Nat.ltb_spec p (length args)) as [L|L].
  - rewrite slice_at_spec by exact L.
    destruct (existsb (Nat.eqb p) sparse) eqn:E; [|reflexivity].
    apply existsb_exists in E. destruct E as (q & Hq & E). apply Nat.eqb_eq in E. subst q.
    exfalso. eauto.
  - rewrite !nth_overflow; auto. unfold slice_at.
    assert (G : forall l acc, length (fold_left (fun acc q => upd acc q (qslice (nth q args dflt_arr) j)) l acc) = length acc).
    { induction l as [|x l IH]; intros acc; simpl; [reflexivity|]. now rewrite IH, length_upd. }
    rewrite G. exact L.
Qed.

(* joint (sparse) axis first: put_dense_first = false *)
Theorem spacemap_sparse_first f dense sparse args osh j idx r :
  (forall a, wf (f a) /\ shape (f a) = osh) -> sparse <> [] -> NoDup dense ->
  (forall p, In p dense -> In p sparse -> False) ->
  j < lead (nth (hd 0 sparse) args dflt_arr) ->
  in_bounds (dims dense args) idx -> in_bounds osh r ->
  qget (spacemap f dense sparse false args) (j :: idx ++ r)
  = qget (f (slice_all (slice_at args sparse j) dense idx)) r /\
  shape (spacemap f dense sparse false args)
  = lead (nth (hd 0 sparse) args dflt_arr) :: dims dense args ++ osh.
Proof.
  intros Hf Hne Hnd Hdis Hj Hidx Hr. unfold spacemap. destruct sparse as [|s0 sp]; [congruence|].
  set (sparse := s0 :: sp) in *.
  assert (Hgood : forall (a : list qarr) (p i : nat), True -> True -> True) by auto.
  assert (Hf' : forall a, True -> wf (f a) /\ shape (f a) = osh) by (intros; apply Hf).
  assert (Hal : Forall (fun _ : nat => True) dense) by (apply Forall_forall; auto).
  assert (Hloc : forall i, wf (base_productmap f dense (slice_at args sparse i)) /\
                           shape (base_productmap f dense (slice_at args sparse i)) = dims dense args ++ osh).
  { intros i. destruct (bpm_wf_shape f osh (fun _ => True) (fun _ => True) Hgood Hf' dense (slice_at args sparse i) I Hnd Hal) as [Hw Hs].
    split; [exact Hw|]. rewrite Hs. now rewrite dims_slice_at. }
  unfold vmap_1d. split.
  - rewrite (vmap_get _ _ _ _ Hloc) by (auto; apply in_bounds_app; auto).
    apply (bpm_get f osh (fun _ => True) (fun _ => True) Hgood Hf'); auto. now rewrite dims_slice_at.
  - apply (vmap_shape _ _ _ _ Hloc).
Qed.

(* joint axis last: put_dense_first = true *)
Theorem spacemap_dense_first f dense sparse args osh j idx r :
  (forall a, wf (f a) /\ shape (f a) = osh) -> sparse <> [] -> NoDup dense ->
  (forall p, In p dense -> In p sparse -> False) ->
  j < lead (nth (hd 0 sparse) args dflt_arr) ->
  in_bounds (dims dense args) idx -> in_bounds osh r ->
  qget (spacemap f dense sparse true args) (idx ++ j :: r)
  = qget (f (slice_at (slice_all args dense idx) sparse j)) r /\
  shape (spacemap f dense sparse true args)
  = dims dense args ++ lead (nth (hd 0 sparse) args dflt_arr) :: osh.
Proof.
  intros Hf Hne Hnd Hdis Hj Hidx Hr. unfold spacemap. destruct sparse as [|s0 sp]; [congruence|].
  set (sparse := s0 :: sp) in *.
  set (N := lead (nth (hd 0 sparse) args dflt_arr)).
  (* the inner function vmap_1d f sparse is good on argument lists whose joint length is N *)
  set (good := fun a : list qarr => lead (nth (hd 0 sparse) a dflt_arr) = N).
  set (allowed := fun p : nat => p <> hd 0 sparse).
  assert (Hgood : forall a p i, allowed p -> good a -> good (slice1 a p i)).
  { intros a p i Hp Hg. unfold good, slice1 in *. rewrite nth_upd_other by exact Hp. exact Hg. }
  assert (Hh : forall a, good a -> wf (vmap_1d f sparse a) /\ shape (vmap_1d f sparse a) = N :: osh).
  { intros a Hg. unfold vmap_1d.
    assert (Hloc : forall i, wf (f (slice_at a sparse i)) /\ shape (f (slice_at a sparse i)) = osh)
      by (intros; apply Hf).
    split; [apply (vmap_wf _ _ _ _ Hloc)|]. rewrite (vmap_shape _ _ _ _ Hloc). now rewrite Hg. }
  assert (Hal : Forall allowed dense).
  { apply Forall_forall. intros p Hp E. unfold sparse in E. simpl in E. subst p.
    apply (Hdis s0 Hp). now left. }
  assert (Hg0 : good args) by reflexivity.
  split.
  - rewrite (bpm_get (vmap_1d f sparse) (N :: osh) good allowed Hgood Hh dense args idx (j :: r) Hg0 Hnd Hal Hidx)
      by (simpl; split; [exact Hj|exact Hr]).
    unfold vmap_1d.
    assert (Hloc : forall i, wf (f (slice_at (slice_all args dense idx) sparse i)) /\
                             shape (f (slice_at (slice_all args dense idx) sparse i)) = osh)
      by (intros; apply Hf).
    apply (vmap_get _ _ _ _ Hloc); [|exact Hr].
    (* the joint length is unchanged by slicing the dense positions *)
    assert (G : forall ps a ix, good a -> Forall allowed ps -> good (slice_all a ps ix)).
    { induction ps as [|p ps IH]; intros a ix Hga Hp; [destruct ix; exact Hga|].
      destruct ix as [|i0 ix]; [exact Hga|]. inversion Hp; subst. simpl. apply IH; auto. }
    specialize (G dense args idx Hg0 Hal). unfold good in G. rewrite G. exact Hj.
  - destruct (bpm_wf_shape (vmap_1d f sparse) (N :: osh) good allowed Hgood Hh dense args Hg0 Hnd Hal) as [_ Hs].
    exact Hs.
Qed.
